//! C04 / C18 harness: every decoding entry point of rustbus on arbitrary bytes, in a way that survives
//! crashes of the code under test.
//!
//! `c04 run`     supervisor: reads case lines from stdin, prints exactly one result line per case (same order).
//!               Cases are executed by a worker child process (this binary re-executed as `c04 worker`); when the
//!               worker dies (abort, stack overflow, out of memory, kill) or reports a time-out, the case it was
//!               working on gets that verdict, is re-run alone in a fresh process to confirm it, and a new worker
//!               continues with the remaining lines.
//! `c04 worker`  one case per stdin line `<idx> <op> ...`, one result per stdout line `<idx> <status> k=v ...`.
//!               Every case runs on its own thread with a 256 KiB stack (unbounded recursion overflows after about a
//!               thousand levels), under catch_unwind, with a wall-clock deadline; address space is capped at 1 GiB; a
//!               wrapping global allocator records the high-water mark and the largest single request during the call.
//! `c04 info`    sizes used by the check's allocation bound.
//!
//! status: ok | err | panic | ub | timeout | abort | overflow | oom | signal | died | skipped   (the last six come from the supervisor;
//!         ub = a borrowed Cow<[E]> slice that is not aligned for E)
//!
//! Case lines (bo = le|be, phase = address of the first byte of the buffer mod 8, hex = bytes or `-`):
//!   VR <bo> <phase> <offset> <sig> <hex>             validate_raw::validate_marshalled, every complete type of sig in turn
//!   UP <bo> <phase> <offset> <nfds> <sig> <hex>      unmarshal_with_sig (Param decoder), every complete type of sig in turn
//!   UT <type> <bo> <phase> <offset> <nfds> <hex>     T::unmarshal(&mut UnmarshalContext::new(..)) for a catalogue / extra type
//!   BP <mode> <type> <bo> <phase> <nfds> <sig|-> <hex>
//!        MarshalledMessageBody::from_parts(junk[phase] ++ bytes, phase, fds, sig, bo), then
//!        mode get: parser.get::<T>(), get_next_sig(), sigs_left(), get::<T>() again
//!             get2..get5: parser.getN::<T,..,T>(), then get::<T>()
//!             param: get_param() until it fails or the signature is used up
//!             validate: body.validate()          all: MarshalledMessage::unmarshall_all()
//!   HD <phase> <hex>                                 unmarshal_header, unmarshal_dynamic_header, unmarshal_next_message as
//!                                                    RecvConn::get_next_message calls them; on an accepted message the whole
//!                                                    parser surface (sigs_left, get_next_sig, get::<T> for several T, get2, get_param
//!                                                    loop, validate, unmarshall_all): the body signature comes from the header
//!   RXM <hex>                                        like RX, and the same parser surface on the message get_next_message returns
//!   HB <bo> <nfields> <each>                          a header whose field array holds <nfields> unknown fields, each a byte
//!                                                    array of <each> bytes (built here): unmarshal_header + unmarshal_dynamic_header
//!   RX <hex>                                         the bytes are written to the peer end of a real connection,
//!                                                    conn.recv.get_next_message(Duration(50ms))
//!   SB <kind> <bo> <content_bytes>                   push an array whose content has that many bytes; kind u8|u64|bool|pstr|dict|dicts|pdict
//!   SD <kind> <depth>                                push_old_param of a Param tree nested <depth> containers deep; kind v|mix|p:<pattern over vsadSAD>;
//!                                                    kind tv: push_param(&params::Variant) (the typed entry of the Param marshaller) around <depth>-1 Param variants
//!   SC <entry> <bo> <elem> <nbytes>                  scaling: a VALID array of about <nbytes> bytes of content built here; elem ay|ab|at|as|a{tt}|av;
//!                                                    entry vr|up|ut|bpget|bpparam|bpall|bpvalidate (as the ops above) | hd (the array as the value of an
//!                                                    unknown header field); dcpu_us = CPU time of the decoding call
//!   ST <kind> <depth>                                TYPED value of a self-referential type nested <depth> containers deep (kind drec|msrec|
//!                                                    vec: Vec<DRec>): push_param, wire::marshal::marshal, send_message_write_all on a real
//!                                                    connection, and the library's own body.validate() on what was pushed
//!   SM <bo> <len1> <len2> <extra>                    body = byte arrays of len1, len2 (0 = absent) and <extra> single bytes;
//!                                                    wire::marshal::marshal (header + length check)
//!   LB <entry> <bo> <phase> <L> <present>            an array whose length field says L with <present> zero bytes of content
//!                                                    actually there (built here: 64 MiB do not go through the line protocol);
//!                                                    entry = vr:<sig> | up:<sig> | ut:<type>, sig/type one of ay at ab as a{yy}
use rbverif::wirelib::{ArrN, BBytes, BPath, BSig, BStr, CowA, Fd, FdDyn, Path, Sig, SliceR, UVar, Var, F64};
use rbverif::{hex, unhex};
use rustbus::message_builder::{MarshalledMessage, MarshalledMessageBody};
use rustbus::params::{Base, Container, Param};
use rustbus::signature;
use rustbus::wire::unmarshal_context::{Cursor, UnmarshalContext};
use rustbus::wire::{ObjectPath, UnixFd};
use rustbus::{dbus_variant_sig, dbus_variant_var, ByteOrder, Marshal, Signature, Unmarshal};
use std::alloc::{GlobalAlloc, Layout, System};
use std::borrow::Cow;
use std::collections::HashMap;
use std::io::{BufRead, Read, Write};
use std::sync::atomic::{AtomicUsize, Ordering};

// ---------------------------------------------------------------------------------------- allocator
struct Track;
static CUR: AtomicUsize = AtomicUsize::new(0);
static PEAK: AtomicUsize = AtomicUsize::new(0);
static MAXREQ: AtomicUsize = AtomicUsize::new(0);
static OOM: AtomicUsize = AtomicUsize::new(0);

fn note_alloc(size: usize) {
    let cur = CUR.fetch_add(size, Ordering::Relaxed) + size;
    PEAK.fetch_max(cur, Ordering::Relaxed);
    MAXREQ.fetch_max(size, Ordering::Relaxed);
}

unsafe impl GlobalAlloc for Track {
    unsafe fn alloc(&self, l: Layout) -> *mut u8 {
        note_alloc(l.size());
        let p = System.alloc(l);
        if p.is_null() {
            OOM.fetch_max(l.size(), Ordering::Relaxed);
        }
        p
    }
    unsafe fn alloc_zeroed(&self, l: Layout) -> *mut u8 {
        note_alloc(l.size());
        let p = System.alloc_zeroed(l);
        if p.is_null() {
            OOM.fetch_max(l.size(), Ordering::Relaxed);
        }
        p
    }
    unsafe fn dealloc(&self, p: *mut u8, l: Layout) {
        CUR.fetch_sub(l.size(), Ordering::Relaxed);
        System.dealloc(p, l)
    }
    unsafe fn realloc(&self, p: *mut u8, l: Layout, new_size: usize) -> *mut u8 {
        // a growing realloc may need old and new block at the same time
        note_alloc(new_size);
        let q = System.realloc(p, l, new_size);
        if q.is_null() {
            OOM.fetch_max(new_size, Ordering::Relaxed);
            CUR.fetch_sub(new_size, Ordering::Relaxed);
        } else {
            CUR.fetch_sub(l.size(), Ordering::Relaxed);
        }
        q
    }
}
#[global_allocator]
static GLOBAL: Track = Track;

struct Meter {
    base: usize,
    cpu0: u64,
}
impl Meter {
    fn start() -> Meter {
        let base = CUR.load(Ordering::Relaxed);
        PEAK.store(base, Ordering::Relaxed);
        MAXREQ.store(0, Ordering::Relaxed);
        Meter { base, cpu0: thread_cpu_us() }
    }
    /// peak heap above the level at start, largest single request, CPU time of this thread since start
    fn stop(&self) -> String {
        let peak = PEAK.load(Ordering::Relaxed).saturating_sub(self.base);
        format!("peak={} maxreq={} dcpu_us={}", peak, MAXREQ.load(Ordering::Relaxed), thread_cpu_us() - self.cpu0)
    }
}

// ---------------------------------------------------------------------------------------- types defined here
#[derive(Marshal, Unmarshal, Signature, Debug)]
pub struct DS1 {
    a: u8,
    b: String,
}
#[derive(Marshal, Unmarshal, Signature, Debug)]
pub struct DS2 {
    x: u64,
    inner: DS1,
    v: Vec<u32>,
}
#[derive(Marshal, Unmarshal, Signature, Debug)]
pub struct DS3 {
    m: HashMap<String, DS1>,
    t: (u8, u64),
    e: DE1,
}
#[derive(Marshal, Unmarshal, Signature, Debug)]
pub enum DE1 {
    A(u8),
    B { x: String, y: u32 },
    C(u64, Vec<u8>),
    D(Vec<DS1>),
}
/// a derived enum that contains itself: the nesting of the decoded value is chosen by the message, not by the program text
#[derive(Marshal, Unmarshal, Signature, Debug)]
pub enum DRec {
    Leaf(u8),
    Node(Vec<DRec>),
}
#[derive(Marshal, Unmarshal, Signature, Debug)]
pub enum DE2 {
    P(String),
    Q(u32, u32),
    R { m: HashMap<String, u32>, v: Vec<(u8, String)> },
    S(DS1),
}
type VecU64 = Vec<u64>;
type VecStr = Vec<String>;
type MapUS = HashMap<u32, String>;
dbus_variant_sig!(MS2, A => u8; B => VecU64; C => MapUS; D => bool);
dbus_variant_var!(MV2, X => u64; Y => VecStr; Z => TupUUS);
type MapSU = HashMap<String, (i32, u8, (u64, String))>;
type TupUUS = (u32, u32, String);
dbus_variant_sig!(MS1, CaseU => u32; CaseS => String; CaseMap => MapSU; CaseT => TupUUS);
type VecMSRec = Vec<MSRec>;
dbus_variant_sig!(MSRec, Leaf => u8; Node => VecMSRec);
type StrRef<'buf> = &'buf str;
type PathRef<'buf> = ObjectPath<&'buf str>;
type BytesRef<'buf> = &'buf [u8];
dbus_variant_var!(MV1, CaseStr => StrRef<'buf>; CaseI => i32; CaseP => PathRef<'buf>; CaseB => BytesRef<'buf>; CaseT => TupUUS);

/// names of the types that are not in the catalogue (borrowed types, derived types, macro enums)
const EXTRA: &[&str] = &[
    "&[u8]", "&str", "Cow[u8]", "Cow[u16]", "Cow[u32]", "Cow[u64]", "Cow[i64]", "Cow[bool]", "Cow[String]", "ObjectPath<&str>", "SigWrap<&str>",
    "Variant", "ParamVariant", "DS1", "DS2", "DS3", "DE1", "DE2", "DRec", "MS1", "MS2", "MSRec", "MV1", "MV2", "Vec<DS1>", "Vec<DE1>", "Vec<MV1>", "(DS1,MS1)",
    "Vec<Variant>", "HashMap<String,Variant>",
];

// ---------------------------------------------------------------------------------------- generic operations
/// what the generic operations do with a type; the catalogue is visited through the generated `dispatch04`
trait Visitor {
    fn visit<T: for<'b, 'f> Unmarshal<'b, 'f>>(&mut self) -> String;
}
include!("c04_dispatch.inc");

fn bo_of(s: &str) -> ByteOrder {
    match s {
        "le" => ByteOrder::LittleEndian,
        "be" => ByteOrder::BigEndian,
        x => panic!("byte order {}", x),
    }
}

/// a copy of `bytes` whose first byte sits at an address = phase (mod 8)
struct Placed {
    backing: Vec<u64>,
    phase: usize,
    len: usize,
}
impl Placed {
    fn new(bytes: &[u8], phase: usize) -> Placed {
        let mut backing = vec![0u64; bytes.len() / 8 + 3];
        let base = backing.as_mut_ptr() as *mut u8;
        unsafe { std::ptr::copy_nonoverlapping(bytes.as_ptr(), base.add(phase), bytes.len()) };
        Placed { backing, phase, len: bytes.len() }
    }
    fn get(&self) -> &[u8] {
        let base = self.backing.as_ptr() as *const u8;
        unsafe { std::slice::from_raw_parts(base.add(self.phase), self.len) }
    }
}

fn mkfds(n: usize) -> Vec<UnixFd> {
    (0..n).map(|_| UnixFd::new(nix::unistd::dup(2).unwrap())).collect()
}

fn ut<'b, 'f, T: Unmarshal<'b, 'f>>(fds: &'f [UnixFd], bo: ByteOrder, buf: &'b [u8], offset: usize) -> String {
    let m = Meter::start();
    let mut ctx = UnmarshalContext::new(fds, bo, buf, offset);
    let r = T::unmarshal(&mut ctx);
    let used = buf.len() - ctx.remainder().len() - offset;
    let res = match &r {
        Ok(_) => format!("ok used={}", used),
        Err(_) => "err".to_string(),
    };
    let a = m.stop();
    drop(r);
    format!("{} {}", res, a)
}

/// Cow<[E]>: like `ut`, and a borrowed result must be aligned for E (building a misaligned &[E] is undefined behaviour;
/// the optimised build does not trap on it, so it is checked here: status `ub`)
fn ut_cow<'b, 'f, E>(fds: &'f [UnixFd], bo: ByteOrder, buf: &'b [u8], offset: usize) -> String
where
    E: Unmarshal<'b, 'f> + Clone + 'b,
{
    let m = Meter::start();
    let mut ctx = UnmarshalContext::new(fds, bo, buf, offset);
    let r = <Cow<'b, [E]> as Unmarshal>::unmarshal(&mut ctx);
    let used = buf.len() - ctx.remainder().len() - offset;
    let res = match &r {
        // black_box: the compiler may assume that a reference is aligned and fold the test away
        Ok(Cow::Borrowed(s)) if std::hint::black_box(s.as_ptr() as usize) % std::mem::align_of::<E>() != 0 => {
            format!("ub what=misaligned_borrowed_slice used={}", used)
        }
        Ok(_) => format!("ok used={}", used),
        Err(_) => "err".to_string(),
    };
    let a = m.stop();
    drop(r);
    format!("{} {}", res, a)
}

fn bp_get<'body, 'fds, T: Unmarshal<'body, 'fds>>(body: &'body MarshalledMessageBody, n: usize) -> String
where
    'body: 'fds,
{
    let m = Meter::start();
    let mut p = body.parser();
    let first = match n {
        1 => p.get::<T>().is_ok(),
        2 => p.get2::<T, T>().is_ok(),
        3 => p.get3::<T, T, T>().is_ok(),
        4 => p.get4::<T, T, T, T>().is_ok(),
        _ => p.get5::<T, T, T, T, T>().is_ok(),
    };
    let next = p.get_next_sig().map(|s| s.len()).unwrap_or(0);
    let left = p.sigs_left();
    let second = p.get::<T>().is_ok();
    let left2 = p.sigs_left();
    format!("{} second={} next={} left={} left2={} {}", if first { "ok" } else { "err" }, second, next, left, left2, m.stop())
}

/// parser.get::<Cow<[E]>>(): a borrowed result must be aligned for E (see ut_cow)
fn bp_get_cow<'body, 'fds, E>(body: &'body MarshalledMessageBody) -> String
where
    'body: 'fds,
    E: Unmarshal<'body, 'fds> + Clone + 'body,
{
    let m = Meter::start();
    let mut p = body.parser();
    let r = p.get::<Cow<'body, [E]>>();
    let res = match &r {
        Ok(Cow::Borrowed(s)) if std::hint::black_box(s.as_ptr() as usize) % std::mem::align_of::<E>() != 0 => "ub what=misaligned_borrowed_slice".to_string(),
        Ok(_) => "ok".to_string(),
        Err(_) => "err".to_string(),
    };
    let left = p.sigs_left();
    format!("{} left={} {}", res, left, m.stop())
}

struct UtV<'a> {
    bo: ByteOrder,
    buf: &'a [u8],
    offset: usize,
    fds: &'a [UnixFd],
}
impl Visitor for UtV<'_> {
    fn visit<T: for<'b, 'f> Unmarshal<'b, 'f>>(&mut self) -> String {
        ut::<T>(self.fds, self.bo, self.buf, self.offset)
    }
}
struct BpV<'a> {
    body: &'a MarshalledMessageBody,
    n: usize,
}
impl Visitor for BpV<'_> {
    fn visit<T: for<'b, 'f> Unmarshal<'b, 'f>>(&mut self) -> String {
        bp_get::<T>(self.body, self.n)
    }
}

/// the types that borrow from the buffer can not go through the higher-ranked Visitor
macro_rules! extra_types {
    ($name:expr, $f:ident, $($args:expr),*) => {
        match $name {
            "&[u8]" => Some($f::<&[u8]>($($args),*)),
            "&str" => Some($f::<&str>($($args),*)),
            "Cow[u8]" => Some($f::<Cow<[u8]>>($($args),*)),
            "Cow[u16]" => Some($f::<Cow<[u16]>>($($args),*)),
            "Cow[u32]" => Some($f::<Cow<[u32]>>($($args),*)),
            "Cow[u64]" => Some($f::<Cow<[u64]>>($($args),*)),
            "Cow[i64]" => Some($f::<Cow<[i64]>>($($args),*)),
            "Cow[bool]" => Some($f::<Cow<[bool]>>($($args),*)),
            "Cow[String]" => Some($f::<Cow<[String]>>($($args),*)),
            "ObjectPath<&str>" => Some($f::<ObjectPath<&str>>($($args),*)),
            "SigWrap<&str>" => Some($f::<rustbus::wire::SignatureWrapper<&str>>($($args),*)),
            "Variant" => Some($f::<rustbus::wire::unmarshal::traits::Variant>($($args),*)),
            "ParamVariant" => Some($f::<rustbus::params::Variant>($($args),*)),
            "DS1" => Some($f::<DS1>($($args),*)),
            "DS2" => Some($f::<DS2>($($args),*)),
            "DS3" => Some($f::<DS3>($($args),*)),
            "DE1" => Some($f::<DE1>($($args),*)),
            "DE2" => Some($f::<DE2>($($args),*)),
            "MS2" => Some($f::<MS2>($($args),*)),
            "MV2" => Some($f::<MV2>($($args),*)),
            "DRec" => Some($f::<DRec>($($args),*)),
            "MS1" => Some($f::<MS1>($($args),*)),
            "MSRec" => Some($f::<MSRec>($($args),*)),
            "MV1" => Some($f::<MV1>($($args),*)),
            "Vec<DS1>" => Some($f::<Vec<DS1>>($($args),*)),
            "Vec<DE1>" => Some($f::<Vec<DE1>>($($args),*)),
            "Vec<MV1>" => Some($f::<Vec<MV1>>($($args),*)),
            "(DS1,MS1)" => Some($f::<(DS1, MS1)>($($args),*)),
            "Vec<Variant>" => Some($f::<Vec<rustbus::wire::unmarshal::traits::Variant>>($($args),*)),
            "HashMap<String,Variant>" => Some($f::<HashMap<String, rustbus::wire::unmarshal::traits::Variant>>($($args),*)),
            _ => None,
        }
    };
}

fn sig_is_valid(sig: &str) -> bool {
    sig.is_empty() || rustbus::params::validation::validate_signature(sig).is_ok()
}

/// everything a receiver can call on a message that the library handed out: the body signature is whatever the header
/// decoder accepted, so none of this may panic
fn parser_surface(msg: &MarshalledMessage) -> String {
    let body = &msg.body;
    let mut out = Vec::new();
    {
        let p = body.parser();
        out.push(format!("left={}", p.sigs_left()));
        out.push(format!("next={}", p.get_next_sig().map(|s| s.len() as i64).unwrap_or(-1)));
    }
    macro_rules! try_get {
        ($t:ty) => {{
            let mut p = body.parser();
            let a = p.get::<$t>().is_ok();
            let b = p.get::<$t>().is_ok();
            let c = p.sigs_left();
            out.push(format!("{}{}{}", a as u8, b as u8, c.min(9)));
        }};
    }
    try_get!(u8);
    try_get!(String);
    try_get!(Vec<u8>);
    try_get!((u8, String));
    try_get!(HashMap<String, rustbus::wire::unmarshal::traits::Variant>);
    try_get!(rustbus::wire::unmarshal::traits::Variant);
    try_get!(DS1);
    try_get!(DE1);
    try_get!(MS1);
    {
        let mut p = body.parser();
        let a = p.get2::<u8, String>().is_ok();
        let b = p.get3::<u8, u8, u8>().is_ok();
        let c = p.get5::<String, u32, u32, u32, u32>().is_ok();
        out.push(format!("g{}{}{}", a as u8, b as u8, c as u8));
    }
    {
        let mut p = body.parser();
        let mut n = 0;
        for _ in 0..300 {
            if p.get_param().is_ok() {
                n += 1;
            } else {
                break;
            }
        }
        out.push(format!("params={}", n));
    }
    out.push(format!("validate={}", body.validate().is_ok()));
    out.join(",")
}

fn eval(line: &str) -> String {
    let toks: Vec<&str> = line.split(' ').filter(|t| !t.is_empty()).collect();
    let num = |i: usize| -> usize { toks[i].parse().unwrap() };
    match toks[0] {
        "VR" => {
            let bo = bo_of(toks[1]);
            let placed = Placed::new(&unhex(toks[5]), num(2));
            let buf = placed.get();
            let mut offset = num(3);
            if offset > buf.len() {
                return "badoffset".into();
            }
            let types = match signature::Type::parse_description(toks[4]) {
                Ok(t) => t,
                Err(_) => return "badsig".into(),
            };
            let start = offset;
            let m = Meter::start();
            for t in &types {
                match rustbus::wire::validate_raw::validate_marshalled(bo, offset, buf, t) {
                    Ok(n) => offset += n,
                    Err(_) => return format!("err {}", m.stop()),
                }
            }
            format!("ok used={} {}", offset - start, m.stop())
        }
        "UP" => {
            let bo = bo_of(toks[1]);
            let placed = Placed::new(&unhex(toks[6]), num(2));
            let buf = placed.get();
            let offset = num(3);
            if offset > buf.len() {
                return "badoffset".into();
            }
            let fds = mkfds(num(4));
            let types = match signature::Type::parse_description(toks[5]) {
                Ok(t) => t,
                Err(_) => return "badsig".into(),
            };
            let m = Meter::start();
            let mut ctx = UnmarshalContext::new(&fds, bo, buf, offset);
            let mut vals = Vec::new();
            for t in &types {
                match rustbus::wire::unmarshal::container::unmarshal_with_sig(t, &mut ctx) {
                    Ok(p) => vals.push(p),
                    Err(_) => return format!("err {}", m.stop()),
                }
            }
            format!("ok used={} {}", buf.len() - ctx.remainder().len() - offset, m.stop())
        }
        "UT" => {
            let ty = toks[1];
            let bo = bo_of(toks[2]);
            let placed = Placed::new(&unhex(toks[6]), num(3));
            let buf = placed.get();
            let offset = num(4);
            if offset > buf.len() {
                return "badoffset".into();
            }
            let fds = mkfds(num(5));
            match ty {
                "Cow[u8]" => return ut_cow::<u8>(&fds, bo, buf, offset),
                "Cow[u16]" => return ut_cow::<u16>(&fds, bo, buf, offset),
                "Cow[u32]" => return ut_cow::<u32>(&fds, bo, buf, offset),
                "Cow[u64]" => return ut_cow::<u64>(&fds, bo, buf, offset),
                "Cow[i64]" => return ut_cow::<i64>(&fds, bo, buf, offset),
                _ => {}
            }
            if let Some(r) = extra_types!(ty, ut, &fds, bo, buf, offset) {
                return r;
            }
            let mut v = UtV { bo, buf, offset, fds: &fds };
            dispatch04(ty, &mut v).unwrap_or_else(|| "NOTYPE".into())
        }
        "BP" => {
            let mode = toks[1];
            let ty = toks[2];
            let bo = bo_of(toks[3]);
            let phase = num(4);
            let fds = mkfds(num(5));
            let sig = if toks[6] == "-" { String::new() } else { toks[6].to_string() };
            let bytes = unhex(toks[7]);
            let sigvalid = sig_is_valid(&sig);
            // from_parts drops the bytes in front of an offset that is not a multiple of 8 (fix c7375b2), so an offset no longer
            // moves the body in memory. For phase != 0 the body's Vec<u8> itself starts at address = phase mod 8: it is built over
            // a leaked, over-aligned allocation and never dropped (the allocator must not see that pointer again). `all` consumes the
            // message and bodies with descriptors would leak them: those keep an ordinary buffer (phase 0).
            let misplace = phase != 0 && mode != "all" && fds.is_empty() && !bytes.is_empty();
            let buf: Vec<u8> = if misplace {
                let backing: &'static mut [u64] = Box::leak(vec![0u64; bytes.len() / 8 + 3].into_boxed_slice());
                let base = backing.as_mut_ptr() as *mut u8;
                unsafe {
                    std::ptr::copy_nonoverlapping(bytes.as_ptr(), base.add(phase), bytes.len());
                    Vec::from_raw_parts(base.add(phase), bytes.len(), bytes.len())
                }
            } else {
                bytes.clone()
            };
            let mut body_md = std::mem::ManuallyDrop::new(MarshalledMessageBody::from_parts(buf, 0, fds, sig.clone(), bo));
            let res = {
            let body: &MarshalledMessageBody = &body_md;
            let res = match mode {
                "get" | "get2" | "get3" | "get4" | "get5" => {
                    let n = if mode == "get" { 1 } else { mode[3..].parse().unwrap() };
                    let cow = if n == 1 {
                        match ty {
                            "Cow[u16]" => Some(bp_get_cow::<u16>(body)),
                            "Cow[u32]" => Some(bp_get_cow::<u32>(body)),
                            "Cow[u64]" => Some(bp_get_cow::<u64>(body)),
                            "Cow[i64]" => Some(bp_get_cow::<i64>(body)),
                            _ => None,
                        }
                    } else {
                        None
                    };
                    if let Some(r) = cow {
                        r
                    } else
                    if let Some(r) = extra_types!(ty, bp_get, body, n) {
                        r
                    } else {
                        let mut v = BpV { body, n };
                        dispatch04(ty, &mut v).unwrap_or_else(|| "NOTYPE".into())
                    }
                }
                "param" => {
                    let m = Meter::start();
                    let mut p = body.parser();
                    let mut got = 0;
                    let mut failed = false;
                    for _ in 0..300 {
                        if p.sigs_left() == 0 {
                            break;
                        }
                        // the Param borrows the parser: it is dropped before the next call
                        if p.get_param().is_ok() {
                            got += 1;
                        } else {
                            failed = true;
                            break;
                        }
                    }
                    let end = p.get_param().is_ok();
                    format!("{} n={} end={} {}", if failed { "err" } else { "ok" }, got, end, m.stop())
                }
                "validate" => {
                    let m = Meter::start();
                    let r = body.validate();
                    format!("{} {}", if r.is_ok() { "ok" } else { "err" }, m.stop())
                }
                "all" => {
                    let mut msg = MarshalledMessage::new();
                    // (not misplaced: an ordinary buffer that may be dropped)
                    msg.body = MarshalledMessageBody::from_parts(bytes.clone(), 0, mkfds(num(5)), sig.clone(), bo);
                    let m = Meter::start();
                    let r = msg.unmarshall_all();
                    let s = match &r {
                        Ok(x) => format!("ok n={}", x.params.len()),
                        Err(_) => "err".to_string(),
                    };
                    let a = m.stop();
                    drop(r);
                    format!("{} {}", s, a)
                }
                x => panic!("mode {}", x),
            };
            res
            };
            if !misplace {
                unsafe { std::mem::ManuallyDrop::drop(&mut body_md) };
            }
            format!("{} sigvalid={}", res, sigvalid)
        }
        "HD" => {
            let placed = Placed::new(&unhex(toks[2]), num(1));
            let buf = placed.get();
            let m = Meter::start();
            let mut cursor = Cursor::new(buf);
            let header = match rustbus::wire::unmarshal::unmarshal_header(&mut cursor) {
                Ok(h) => h,
                Err(_) => return format!("err stage=header {}", m.stop()),
            };
            let dynheader = match rustbus::wire::unmarshal::unmarshal_dynamic_header(&header, &mut cursor) {
                Ok(h) => h,
                Err(_) => return format!("err stage=dynheader {}", m.stop()),
            };
            let consumed = cursor.consumed();
            let msg = match rustbus::wire::unmarshal::unmarshal_next_message(&header, dynheader, buf.to_vec(), consumed, Vec::new()) {
                Ok(msg) => msg,
                Err(_) => return format!("err stage=message {}", m.stop()),
            };
            let surf = parser_surface(&msg);
            let all = msg.unmarshall_all().is_ok();
            format!("ok surface={} all={} {}", surf, all, m.stop())
        }
        "HB" => {
            let bo = bo_of(toks[1]);
            let (nfields, each) = (num(2), num(3));
            let u32b = |v: u32| match bo {
                ByteOrder::LittleEndian => v.to_le_bytes(),
                ByteOrder::BigEndian => v.to_be_bytes(),
            };
            let mut fields: Vec<u8> = Vec::with_capacity(nfields * (each + 32) + 64);
            // path and member, as a method call needs them
            fields.extend_from_slice(&[1, 1, b'o', 0]);
            fields.extend_from_slice(&u32b(2));
            fields.extend_from_slice(b"/p\0");
            while fields.len() % 8 != 0 {
                fields.push(0);
            }
            fields.extend_from_slice(&[3, 1, b's', 0]);
            fields.extend_from_slice(&u32b(1));
            fields.extend_from_slice(b"M\0");
            for i in 0..nfields {
                while fields.len() % 8 != 0 {
                    fields.push(0);
                }
                fields.extend_from_slice(&[100 + i as u8, 2, b'a', b'y', 0, 0, 0, 0]);
                fields.extend_from_slice(&u32b(each as u32));
                fields.resize(fields.len() + each, 0);
            }
            let hfl = fields.len();
            let mut msg: Vec<u8> = Vec::with_capacity(hfl + 32);
            msg.extend_from_slice(&[if matches!(bo, ByteOrder::LittleEndian) { b'l' } else { b'B' }, 1, 0, 1]);
            msg.extend_from_slice(&u32b(0));
            msg.extend_from_slice(&u32b(1));
            msg.extend_from_slice(&u32b(hfl as u32));
            msg.append(&mut fields);
            while msg.len() % 8 != 0 {
                msg.push(0);
            }
            let m = Meter::start();
            let mut cursor = Cursor::new(&msg);
            let header = match rustbus::wire::unmarshal::unmarshal_header(&mut cursor) {
                Ok(h) => h,
                Err(_) => return format!("err stage=header hfl={} {}", hfl, m.stop()),
            };
            match rustbus::wire::unmarshal::unmarshal_dynamic_header(&header, &mut cursor) {
                Ok(_) => format!("ok hfl={} consumed={} {}", hfl, cursor.consumed(), m.stop()),
                Err(_) => format!("err stage=dynheader hfl={} {}", hfl, m.stop()),
            }
        }
        "RX" | "RXM" => {
            let bytes = unhex(toks[1]);
            let (mut conn, mut peer) = rbverif::conn::connect_pair(false);
            peer.write_all(&bytes).unwrap();
            let m = Meter::start();
            let t0 = std::time::Instant::now();
            // the time-out only ends the wait for bytes that never come; a refusal is recognised by its error, not by its speed
            let r = conn.recv.get_next_message(rustbus::connection::Timeout::Duration(std::time::Duration::from_millis(300)));
            let ms = t0.elapsed().as_millis();
            use rustbus::wire::errors::UnmarshalError as UE;
            let s = match &r {
                Ok(_) => "ok".to_string(),
                Err(rustbus::connection::Error::TimedOut) => "err kind=timedout".to_string(),
                Err(rustbus::connection::Error::ConnectionClosed) => "err kind=closed".to_string(),
                Err(rustbus::connection::Error::UnmarshalError(UE::MessageTooLong)) => "err kind=limit what=MessageTooLong".to_string(),
                Err(rustbus::connection::Error::UnmarshalError(UE::ArrayTooLong)) => "err kind=limit what=ArrayTooLong".to_string(),
                Err(rustbus::connection::Error::UnmarshalError(e)) => format!("err kind=unmarshal what={:?}", e).replace(' ', "_").replace("_kind=", " kind=").replace("_what=", " what="),
                Err(_) => "err kind=other".to_string(),
            };
            let a = m.stop();
            let surf = match (&r, toks[0]) {
                (Ok(msg), "RXM") => format!(" surface={}", parser_surface(msg)),
                _ => String::new(),
            };
            if let (Ok(msg), "RXM") = (r, toks[0]) {
                let _ = msg.unmarshall_all();
            }
            drop(peer);
            format!("{} ms={}{} {}", s, ms, surf, a)
        }
        "SB" => {
            let kind = toks[1];
            let bo = bo_of(toks[2]);
            let n = num(3);
            let mut body = MarshalledMessageBody::with_byteorder(bo);
            body.reserve(n + 64);
            let r = match kind {
                "u8" => {
                    let v = vec![0u8; n];
                    body.push_param(&v[..]).is_ok()
                }
                "u64" => {
                    let v = vec![0u64; n / 8];
                    body.push_param(&v[..]).is_ok()
                }
                "bool" => {
                    let v = vec![true; n / 4];
                    body.push_param(&v[..]).is_ok()
                }
                "dict" => {
                    // a{uu}: 8 bytes per entry
                    let mut mp: HashMap<u32, u32> = HashMap::with_capacity(n / 8);
                    for i in 0..(n / 8) as u32 {
                        mp.insert(i, i);
                    }
                    body.push_param(&mp).is_ok()
                }
                "dicts" | "pdict" => {
                    // a{us} whose entries are 2^20 bytes each (key 4 + length 4 + string of 2^20 - 9 bytes + NUL); when n is not a
                    // multiple of 2^20 one more entry with an empty string (9 bytes, plus padding unless it comes last)
                    let mib = 1usize << 20;
                    let big = "a".repeat(mib - 9);
                    let full = n / mib;
                    if kind == "dicts" {
                        let mut mp: HashMap<u32, String> = HashMap::new();
                        for i in 0..full as u32 {
                            mp.insert(i, big.clone());
                        }
                        if n % mib != 0 {
                            mp.insert(full as u32, String::new());
                        }
                        body.push_param(&mp).is_ok()
                    } else {
                        let mut map = HashMap::new();
                        for i in 0..full as u32 {
                            map.insert(Base::Uint32(i), Param::Base(Base::String(big.clone())));
                        }
                        if n % mib != 0 {
                            map.insert(Base::Uint32(full as u32), Param::Base(Base::String(String::new())));
                        }
                        let d = Param::Container(Container::Dict(rustbus::params::Dict {
                            key_sig: signature::Base::Uint32,
                            value_sig: signature::Type::Base(signature::Base::String),
                            map,
                        }));
                        body.push_old_param(&d).is_ok()
                    }
                }
                "pstr" => {
                    // Param array of strings of (1 MiB - 8) bytes: 4 + len + 1 + padding = 1 MiB per element, the last one shorter
                    let mib = 1usize << 20;
                    let mut values = Vec::new();
                    let mut left = n;
                    while left > 0 {
                        let take = left.min(mib);
                        // an element of `take` bytes: 4 length bytes + string + NUL (+ padding to 4 except for the last)
                        let slen = take.saturating_sub(5);
                        values.push(Param::Base(Base::String("a".repeat(slen))));
                        left -= take.max(5).min(left);
                    }
                    let arr = Param::Container(Container::Array(rustbus::params::Array {
                        element_sig: signature::Type::Base(signature::Base::String),
                        values,
                    }));
                    body.push_old_param(&arr).is_ok()
                }
                x => panic!("kind {}", x),
            };
            let mut msg = MarshalledMessage::new();
            msg.body = body;
            // the announced length of the (only) array, when the push succeeded
            let buf = msg.get_buf();
            let announced = if r && buf.len() >= 4 {
                let b = [buf[0], buf[1], buf[2], buf[3]];
                match bo {
                    ByteOrder::LittleEndian => u32::from_le_bytes(b) as usize,
                    ByteOrder::BigEndian => u32::from_be_bytes(b) as usize,
                }
            } else {
                0
            };
            format!("{} buflen={} announced={}", if r { "ok" } else { "err" }, buf.len(), announced)
        }
        "SD" => {
            let kind = toks[1];
            let depth = num(2);
            let mut p: Param<'static, 'static> = Param::Base(Base::Byte(7));
            // kind p:<pattern>: level lvl (0 = outermost) is the container pattern[lvl % len]: v variant, s struct, a array, d dict
            // a{y..}; S A D the by-reference forms of the same (StructRef, ArrayRef, DictRef; the referenced parts are leaked)
            let pat: Vec<u8> = kind.strip_prefix("p:").map(|x| x.bytes().collect()).unwrap_or_default();
            // built inside out: level `depth` is the innermost container
            for lvl in (0..depth).rev() {
                let k = if !pat.is_empty() {
                    pat[lvl % pat.len()]
                } else if kind == "v" || kind == "tv" {
                    b'v'
                } else {
                    [b'v', b's', b'a'][lvl % 3]
                };
                p = match k {
                    b'v' => Param::Container(Container::Variant(Box::new(rustbus::params::Variant { sig: p.sig(), value: p }))),
                    b's' => Param::Container(Container::Struct(vec![p])),
                    b'a' => Param::Container(Container::Array(rustbus::params::Array { element_sig: p.sig(), values: vec![p] })),
                    b'S' => Param::Container(Container::StructRef(Box::leak(vec![p].into_boxed_slice()))),
                    b'A' => {
                        let element_sig = p.sig();
                        Param::Container(Container::ArrayRef(rustbus::params::ArrayRef { element_sig, values: Box::leak(vec![p].into_boxed_slice()) }))
                    }
                    b'd' | b'D' => {
                        let value_sig = p.sig();
                        let mut map: rustbus::params::DictMap<'static, 'static> = std::collections::HashMap::new();
                        map.insert(Base::Byte(3), p);
                        let key_sig = signature::Base::Byte;
                        if k == b'd' {
                            Param::Container(Container::Dict(rustbus::params::Dict { key_sig, value_sig, map }))
                        } else {
                            Param::Container(Container::DictRef(rustbus::params::DictRef { key_sig, value_sig, map: Box::leak(Box::new(map)) }))
                        }
                    }
                    x => panic!("SD level kind {}", x as char),
                };
            }
            let mut body = MarshalledMessageBody::new();
            let r = if kind == "tv" {
                // p has depth levels already (all variants, as kind v); take the outermost apart again: it is pushed through
                // impl Marshal for params::Variant
                match &p {
                    Param::Container(Container::Variant(var)) => body.push_param(&**var).is_ok(),
                    _ => body.push_param(0u8).is_ok(),
                }
            } else {
                body.push_old_param(&p).is_ok()
            };
            let mut msg = MarshalledMessage::new();
            msg.body = body;
            let back = if r { msg.body.validate().is_ok() } else { false };
            let res = format!("{} buflen={} validates={}", if r { "ok" } else { "err" }, msg.get_buf().len(), back);
            // dropping a deeply nested Param recurses as well; do it here so that it is part of the observation
            drop(p);
            res
        }
        "ST" => {
            let kind = toks[1];
            let depth = num(2);
            let mut body = MarshalledMessageBody::new();
            // containers: every Node is a variant holding an array: 2 levels; the innermost Leaf is a variant: 1 level
            let levels = depth / 2;
            let pushed = match kind {
                "drec" | "vec" => {
                    let mut v = DRec::Leaf(7);
                    for _ in 0..levels {
                        v = DRec::Node(vec![v]);
                    }
                    let r = if kind == "vec" { body.push_param(vec![v]).is_ok() } else { body.push_param(&v).is_ok() };
                    r
                }
                "msrec" => {
                    let mut v = MSRec::Leaf(7);
                    for _ in 0..levels {
                        v = MSRec::Node(vec![v]);
                    }
                    // (the value is dropped iteratively below: MSRec has no derive we could take apart, so keep depth moderate)
                    let r = body.push_param(&v).is_ok();
                    std::mem::forget(v);
                    r
                }
                x => panic!("kind {}", x),
            };
            let mut msg = rustbus::message_builder::MessageBuilder::new()
                .call("Member")
                .on("/obj/path")
                .with_interface("io.verif.Iface")
                .at("io.verif.Dest")
                .build();
            msg.body = body;
            let validates = msg.body.validate().is_ok();
            let mut hdr = Vec::new();
            let marshalled = rustbus::wire::marshal::marshal(&msg, std::num::NonZeroU32::new(1).unwrap(), &mut hdr).is_ok();
            let (mut conn, mut peer) = rbverif::conn::connect_pair(false);
            let total = hdr.len() + msg.get_buf().len();
            let reader = std::thread::spawn(move || {
                let mut got = 0usize;
                let mut b = [0u8; 65536];
                peer.set_read_timeout(Some(std::time::Duration::from_millis(2000))).unwrap();
                while got < total {
                    match peer.read(&mut b) {
                        Ok(0) | Err(_) => break,
                        Ok(k) => got += k,
                    }
                }
                got
            });
            let sent = pushed && conn.send.send_message_write_all(&msg).is_ok();
            drop(conn);
            let got = reader.join().unwrap_or(0);
            let nesting = 2 * levels + 1 + if kind == "vec" { 1 } else { 0 };
            format!("{} nesting={} pushed={} marshalled={} sent={} onwire={} total={} validates={} sig={}",
                if sent { "ok" } else { "err" }, nesting, pushed, marshalled, sent, got, total, validates, msg.get_sig())
        }
        "SM" => {
            let bo = bo_of(toks[1]);
            let (l1, l2, extra) = (num(2), num(3), num(4));
            let mut msg = rustbus::message_builder::MessageBuilder::new()
                .call("Member")
                .on("/obj/path")
                .with_interface("io.verif.Iface")
                .at("io.verif.Dest")
                .build();
            msg.body = MarshalledMessageBody::with_byteorder(bo);
            msg.body.reserve(l1 + l2 + extra + 64);
            let big = vec![0u8; l1.max(l2)];
            let mut pushed = true;
            for l in [l1, l2] {
                if l > 0 {
                    pushed &= msg.body.push_param(&big[..l]).is_ok();
                }
            }
            for _ in 0..extra {
                pushed &= msg.body.push_param(0x55u8).is_ok();
            }
            drop(big);
            let mut hdr = Vec::new();
            let r = rustbus::wire::marshal::marshal(&msg, std::num::NonZeroU32::new(1).unwrap(), &mut hdr);
            format!("{} pushed={} hdr={} body={} total={}", if r.is_ok() { "ok" } else { "err" }, pushed, hdr.len(), msg.get_buf().len(), hdr.len() + msg.get_buf().len())
        }
        "LB" => {
            let (kind, what) = toks[1].split_once(':').unwrap();
            let bo = bo_of(toks[2]);
            let (phase, l, present) = (num(3), num(4), num(5));
            let sig = match what {
                "&[u8]" | "Cow[u8]" => "ay",
                "Cow[u64]" => "at",
                x => x,
            };
            let align = match sig {
                "ay" => 1,
                "ab" | "as" => 4,
                _ => 8,
            };
            let mut bytes = Vec::with_capacity(present + 16);
            let lf = l as u32;
            bytes.extend_from_slice(&match bo {
                ByteOrder::LittleEndian => lf.to_le_bytes(),
                ByteOrder::BigEndian => lf.to_be_bytes(),
            });
            while bytes.len() % align != 0 {
                bytes.push(0);
            }
            let start = bytes.len();
            bytes.resize(start + present, 0);
            let placed = Placed::new(&bytes, phase);
            drop(bytes);
            let buf = placed.get();
            match kind {
                "vr" => {
                    let t = signature::Type::parse_description(sig).unwrap().remove(0);
                    let m = Meter::start();
                    match rustbus::wire::validate_raw::validate_marshalled(bo, 0, buf, &t) {
                        Ok(n) => format!("ok used={} {}", n, m.stop()),
                        Err(_) => format!("err {}", m.stop()),
                    }
                }
                "up" => {
                    let t = signature::Type::parse_description(sig).unwrap().remove(0);
                    let m = Meter::start();
                    let mut ctx = UnmarshalContext::new(&[], bo, buf, 0);
                    let r = rustbus::wire::unmarshal::container::unmarshal_with_sig(&t, &mut ctx);
                    let s = if r.is_ok() { format!("ok used={}", buf.len() - ctx.remainder().len()) } else { "err".to_string() };
                    let a = m.stop();
                    drop(r);
                    format!("{} {}", s, a)
                }
                _ => {
                    let fds: Vec<UnixFd> = Vec::new();
                    if let Some(r) = extra_types!(what, ut, &fds, bo, buf, 0) {
                        return r;
                    }
                    let mut v = UtV { bo, buf, offset: 0, fds: &fds };
                    dispatch04(what, &mut v).unwrap_or_else(|| "NOTYPE".into())
                }
            }
        }
        "SC" => {
            let entry = toks[1];
            let bo = bo_of(toks[2]);
            let elem = toks[3];
            let nbytes = num(4);
            let u32b = |v: u32| match bo {
                ByteOrder::LittleEndian => v.to_le_bytes(),
                ByteOrder::BigEndian => v.to_be_bytes(),
            };
            let (unit, align): (Vec<u8>, usize) = match elem {
                "ay" => (vec![0], 1),
                "ab" => (vec![0; 4], 4),
                "at" => (vec![0; 8], 8),
                "a{tt}" => (vec![0; 16], 8),
                "av" => (vec![1, b'y', 0, 7], 1),
                "as" => {
                    let mut u = u32b(3).to_vec();
                    u.extend_from_slice(b"abc\0");
                    (u, 4)
                }
                x => panic!("elem {}", x),
            };
            let k = (nbytes / unit.len()).max(1);
            let mut arr: Vec<u8> = Vec::with_capacity(k * unit.len() + 16);
            arr.extend_from_slice(&u32b((k * unit.len()) as u32));
            while arr.len() % align != 0 {
                arr.push(0);
            }
            for _ in 0..k {
                arr.extend_from_slice(&unit);
            }
            let total = arr.len();
            let ty = if elem == "av" { "av[y]" } else { elem };
            let h = hex(&arr);
            let line = match entry {
                "vr" => format!("VR {} 0 0 {} {}", toks[2], elem, h),
                "up" => format!("UP {} 0 0 0 {} {}", toks[2], elem, h),
                "ut" => format!("UT {} {} 0 0 0 {}", ty, toks[2], h),
                "bpget" => format!("BP get {} {} 0 0 {} {}", ty, toks[2], elem, h),
                "bpparam" => format!("BP param y {} 0 0 {} {}", toks[2], elem, h),
                "bpall" => format!("BP all y {} 0 0 {} {}", toks[2], elem, h),
                "bpvalidate" => format!("BP validate y {} 0 0 {} {}", toks[2], elem, h),
                "hd" => {
                    // fixed header, then the field array: path, member, and the unknown field 100 whose value is the array
                    let mut fields: Vec<u8> = Vec::with_capacity(total + 64);
                    fields.extend_from_slice(&[1, 1, b'o', 0]);
                    fields.extend_from_slice(&u32b(2));
                    fields.extend_from_slice(b"/p\0");
                    while fields.len() % 8 != 0 {
                        fields.push(0);
                    }
                    fields.extend_from_slice(&[3, 1, b's', 0]);
                    fields.extend_from_slice(&u32b(1));
                    fields.extend_from_slice(b"M\0");
                    while fields.len() % 8 != 0 {
                        fields.push(0);
                    }
                    fields.push(100);
                    fields.push(elem.len() as u8);
                    fields.extend_from_slice(elem.as_bytes());
                    fields.push(0);
                    // the array value is aligned to 4 relative to the message: the field array starts at 16
                    while (16 + fields.len()) % 4 != 0 {
                        fields.push(0);
                    }
                    // (for 8-aligned elements the padding after the length must match the message offset: rebuild the array here)
                    let pos = 16 + fields.len();
                    fields.extend_from_slice(&u32b((k * unit.len()) as u32));
                    while (16 + fields.len()) % align != 0 {
                        fields.push(0);
                    }
                    let _ = pos;
                    for _ in 0..k {
                        fields.extend_from_slice(&unit);
                    }
                    let mut msg: Vec<u8> = vec![if matches!(bo, ByteOrder::LittleEndian) { b'l' } else { b'B' }, 1, 0, 1];
                    msg.extend_from_slice(&u32b(0));
                    msg.extend_from_slice(&u32b(1));
                    msg.extend_from_slice(&u32b(fields.len() as u32));
                    msg.append(&mut fields);
                    while msg.len() % 8 != 0 {
                        msg.push(0);
                    }
                    format!("HD 0 {}", hex(&msg))
                }
                x => panic!("entry {}", x),
            };
            drop(h);
            drop(arr);
            let r = eval(&line);
            format!("{} len={}", r, total)
        }
        "NOP" => "ok".into(),
        x => format!("badop {}", x),
    }
}

/// CPU time of the calling thread in microseconds (wall time says little on a loaded machine)
fn thread_cpu_us() -> u64 {
    let mut ts = nix::libc::timespec { tv_sec: 0, tv_nsec: 0 };
    unsafe { nix::libc::clock_gettime(nix::libc::CLOCK_THREAD_CPUTIME_ID, &mut ts) };
    ts.tv_sec as u64 * 1_000_000 + ts.tv_nsec as u64 / 1000
}

// ---------------------------------------------------------------------------------------- worker
const STACK: usize = 256 * 1024;
const EXIT_TIMEOUT: i32 = 3;

fn deadline() -> std::time::Duration {
    let ms: u64 = std::env::var("C04_DEADLINE_MS").ok().and_then(|s| s.parse().ok()).unwrap_or(10_000);
    std::time::Duration::from_millis(ms)
}

fn worker() {
    std::panic::set_hook(Box::new(|_| {}));
    // address space cap: an allocation bomb fails instead of taking the machine down
    let gib: u64 = 1 << 30;
    let _ = nix::sys::resource::setrlimit(nix::sys::resource::Resource::RLIMIT_AS, gib, gib);
    let dl = deadline();
    // C04_STACK: stack of the decoding thread (the check's stack probe lowers it to measure bytes per nesting level)
    let stack: usize = std::env::var("C04_STACK").ok().and_then(|s| s.parse().ok()).unwrap_or(STACK);
    let stdin = std::io::stdin();
    let stdout = std::io::stdout();
    for line in stdin.lock().lines() {
        let line = line.unwrap();
        let (idx, rest) = match line.split_once(' ') {
            Some(x) => x,
            None => continue,
        };
        let rest = rest.to_string();
        let (tx, rx) = std::sync::mpsc::channel::<String>();
        let t0 = std::time::Instant::now();
        let h = std::thread::Builder::new()
            .stack_size(stack)
            .spawn(move || {
                let c0 = thread_cpu_us();
                let r = std::panic::catch_unwind(std::panic::AssertUnwindSafe(|| eval(&rest)));
                let cpu = thread_cpu_us() - c0;
                let s = match r {
                    Ok(s) => s,
                    Err(e) => {
                        let msg = if let Some(s) = e.downcast_ref::<&str>() {
                            s.to_string()
                        } else if let Some(s) = e.downcast_ref::<String>() {
                            s.clone()
                        } else {
                            "?".to_string()
                        };
                        format!("panic msg={}", msg.replace([' ', '\n'], "_"))
                    }
                };
                let _ = tx.send(format!("{} cpu_us={}", s, cpu));
            })
            .unwrap();
        let res = rx.recv_timeout(dl);
        let us = t0.elapsed().as_micros();
        let mut out = stdout.lock();
        match res {
            Ok(s) => {
                let _ = h.join();
                writeln!(out, "{} {} us={}", idx, s, us).unwrap();
                out.flush().unwrap();
            }
            Err(_) => {
                writeln!(out, "{} timeout us={}", idx, us).unwrap();
                out.flush().unwrap();
                rbverif::conn::cleanup_scratch();
                std::process::exit(EXIT_TIMEOUT);
            }
        }
    }
    rbverif::conn::cleanup_scratch();
}

// ---------------------------------------------------------------------------------------- supervisor
struct Died {
    status: String,
}

/// runs lines[from..] in one worker; fills results; returns how the worker ended if it did not finish all lines
fn run_worker(lines: &[String], from: usize, upto: usize, results: &mut [Option<String>]) -> Option<Died> {
    let exe = std::env::current_exe().unwrap();
    let mut child = std::process::Command::new(exe)
        .arg("worker")
        .stdin(std::process::Stdio::piped())
        .stdout(std::process::Stdio::piped())
        .stderr(std::process::Stdio::piped())
        .spawn()
        .unwrap();
    let mut cin = child.stdin.take().unwrap();
    let cout = child.stdout.take().unwrap();
    let mut cerr = child.stderr.take().unwrap();
    let feed: Vec<String> = (from..upto).map(|i| format!("{} {}\n", i, lines[i])).collect();
    let writer = std::thread::spawn(move || {
        for l in feed {
            if cin.write_all(l.as_bytes()).is_err() {
                break;
            }
        }
    });
    let errt = std::thread::spawn(move || {
        let mut s = Vec::new();
        let _ = cerr.read_to_end(&mut s);
        String::from_utf8_lossy(&s).to_string()
    });
    let reader = std::io::BufReader::new(cout);
    let mut timed_out = false;
    for l in reader.lines() {
        let l = match l {
            Ok(l) => l,
            Err(_) => break,
        };
        if let Some((idx, rest)) = l.split_once(' ') {
            if let Ok(i) = idx.parse::<usize>() {
                if i < results.len() {
                    if rest.starts_with("timeout") {
                        timed_out = true;
                    }
                    results[i] = Some(rest.to_string());
                }
            }
        }
    }
    let status = child.wait().unwrap();
    let _ = writer.join();
    let stderr = errt.join().unwrap_or_default();
    let done = (from..upto).all(|i| results[i].is_some());
    if done && status.success() {
        return None;
    }
    if timed_out {
        // the verdict line was printed by the worker itself
        return Some(Died { status: String::new() });
    }
    use std::os::unix::process::ExitStatusExt;
    let first_line = stderr.lines().find(|l| !l.trim().is_empty()).unwrap_or("").replace(' ', "_");
    let s = match status.signal() {
        Some(sig) => {
            if stderr.contains("has overflowed its stack") {
                format!("overflow signal={}", sig)
            } else if stderr.contains("memory allocation of") {
                format!("oom signal={} msg={}", sig, first_line)
            } else if sig == 6 {
                format!("abort signal=6 msg={}", first_line)
            } else {
                format!("signal signal={} msg={}", sig, first_line)
            }
        }
        None => format!("died code={} msg={}", status.code().unwrap_or(-1), first_line),
    };
    Some(Died { status: s })
}

fn supervisor() {
    let stdin = std::io::stdin();
    let lines: Vec<String> = stdin.lock().lines().map(|l| l.unwrap()).collect();
    let mut results: Vec<Option<String>> = vec![None; lines.len()];
    let mut from = 0;
    // after this many time-outs the remaining lines are not run (status `skipped`): a decoder that hangs on a whole
    // class of inputs must not make the check itself take hours; the time-outs already seen are the verdict
    let max_timeouts: usize = std::env::var("C04_MAX_TIMEOUTS").ok().and_then(|s| s.parse().ok()).unwrap_or(4);
    while from < lines.len() {
        let timeouts = results.iter().filter(|r| matches!(r, Some(s) if s.starts_with("timeout"))).count();
        if timeouts >= max_timeouts {
            for r in results.iter_mut().skip(from) {
                if r.is_none() {
                    *r = Some("skipped reason=too_many_timeouts".to_string());
                }
            }
            break;
        }
        let died = run_worker(&lines, from, lines.len(), &mut results);
        // first line without a verdict
        let k = (from..lines.len()).find(|i| results[*i].is_none());
        match (died, k) {
            (None, None) => break,
            (Some(d), Some(k)) if !d.status.is_empty() => {
                // the worker died while working on line k: confirm in a fresh process
                let mut alone: Vec<Option<String>> = vec![None; lines.len()];
                let d2 = run_worker(&lines, k, k + 1, &mut alone);
                let conf = match (&alone[k], d2) {
                    (Some(r), _) => format!("alone={}", r.split(' ').next().unwrap_or("?")),
                    (None, Some(d2)) => format!("alone={}", d2.status.split(' ').next().unwrap_or("?")),
                    (None, None) => "alone=?".to_string(),
                };
                results[k] = Some(format!("{} {}", d.status, conf));
                from = k + 1;
            }
            (_, Some(k)) => {
                // time-out (verdict already recorded) or a worker that ended early without a reason: go on after the last verdict
                if k == from && results[from].is_none() {
                    results[from] = Some("died code=? msg=worker_ended_without_verdict".to_string());
                    from += 1;
                } else {
                    from = k;
                }
            }
            (Some(_), None) => break,
        }
    }
    let stdout = std::io::stdout();
    let mut out = std::io::BufWriter::new(stdout.lock());
    for r in results {
        writeln!(out, "{}", r.unwrap_or_else(|| "died code=? msg=no_verdict".to_string())).unwrap();
    }
}

fn main() {
    let mode = std::env::args().nth(1).unwrap_or_default();
    match mode.as_str() {
        "worker" => worker(),
        "run" => supervisor(),
        "info" => {
            println!(
                "param_size={} base_size={} container_size={} types={} extra={}",
                std::mem::size_of::<Param>(),
                std::mem::size_of::<Base>(),
                std::mem::size_of::<Container>(),
                rbverif::catalogue::CATALOGUE.len(),
                EXTRA.join(",")
            );
        }
        "types" => {
            // the catalogue types this binary can dispatch (c04_dispatch.inc is generated from gen/catalogue.txt)
            struct Probe;
            impl Visitor for Probe {
                fn visit<T: for<'b, 'f> Unmarshal<'b, 'f>>(&mut self) -> String {
                    String::new()
                }
            }
            let known: Vec<&str> = rbverif::catalogue::CATALOGUE.iter().copied().filter(|t| dispatch04(t, &mut Probe).is_some()).collect();
            println!("{}", known.join(" "));
        }
        _ => {
            eprintln!("usage: c04 run|worker|info|types");
            std::process::exit(2);
        }
    }
    let _ = hex(&[]);
    let _: Option<(Fd, Path, Sig, Var<u8>, F64)> = None;
}
