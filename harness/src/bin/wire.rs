//! Wire harness (C01, C02, C03, C04, C16): one operation per stdin line, one result line per stdout line.
//!   MT|RT|UT <catalogue-type> ...            typed API through a catalogue type (see wirelib::run)
//!   MP <bo> <prefix-count> <value>            dynamic API: push_old_param of the Param tree built from the value
//!   RP <bo> <prefix-count> <value>            marshal through Param, read back with get_param, print value
//!   VR <bo> <offset> <sig> <hex>              validate_raw::validate_marshalled for every complete type of <sig> in turn
//!   UP <bo> <offset> <nfds> <sig> <hex>       unmarshal_with_sig (dynamic decoder) for every complete type of <sig>
//!   CAT                                        print the catalogue
use rbverif::wirelib::Args;
use rbverif::{hex, unhex};
use rustbus::message_builder::MarshalledMessageBody;
use rustbus::params::{Base, Container, Param};
use rustbus::signature;
use rustbus::wire::unmarshal_context::UnmarshalContext;
use rustbus::wire::UnixFd;
use std::collections::HashMap;

fn parse_one_type(s: &str) -> signature::Type {
    let mut v = signature::Type::parse_description(s).unwrap();
    assert_eq!(v.len(), 1);
    v.remove(0)
}

fn base_from(a: &mut Args, tag: &str) -> Base<'static> {
    match tag {
        "y" => Base::Byte(a.num() as u8),
        "b" => Base::Boolean(a.num() != 0),
        "n" => Base::Int16(a.num() as u16 as i16),
        "q" => Base::Uint16(a.num() as u16),
        "i" => Base::Int32(a.num() as u32 as i32),
        "u" => Base::Uint32(a.num() as u32),
        "x" => Base::Int64(a.num() as i64),
        "t" => Base::Uint64(a.num()),
        "d" => Base::Double(a.num()),
        "h" => {
            let taken = a.num() != 0;
            let fd = UnixFd::new(nix::unistd::dup(2).unwrap());
            if taken {
                let r = fd.clone().take_raw_fd().unwrap();
                let _ = nix::unistd::close(r);
            }
            Base::UnixFd(fd)
        }
        "s" => Base::String(String::from_utf8(unhex(a.next())).unwrap()),
        "o" => Base::ObjectPath(String::from_utf8(unhex(a.next())).unwrap()),
        "g" => Base::Signature(String::from_utf8(unhex(a.next())).unwrap()),
        x => panic!("base tag {}", x),
    }
}

fn param_from(a: &mut Args) -> Param<'static, 'static> {
    let tag = a.next();
    match tag {
        "a" => {
            let esig = parse_one_type(a.next());
            let n = a.num();
            let values = (0..n).map(|_| param_from(a)).collect();
            Param::Container(Container::Array(rustbus::params::Array { element_sig: esig, values }))
        }
        "r" => {
            let n = a.num();
            Param::Container(Container::Struct((0..n).map(|_| param_from(a)).collect()))
        }
        "e" => {
            let k = match parse_one_type(a.next()) {
                signature::Type::Base(b) => b,
                _ => panic!("dict key sig"),
            };
            let vs = parse_one_type(a.next());
            let n = a.num();
            let mut map = HashMap::new();
            for _ in 0..n {
                let kt = a.next();
                let key = base_from(a, kt);
                let val = param_from(a);
                map.insert(key, val);
            }
            Param::Container(Container::Dict(rustbus::params::Dict { key_sig: k, value_sig: vs, map }))
        }
        "v" => {
            let sig = parse_one_type(a.next());
            let value = param_from(a);
            Param::Container(Container::Variant(Box::new(rustbus::params::Variant { sig, value })))
        }
        t => Param::Base(base_from(a, t)),
    }
}

fn sig_str(t: &signature::Type) -> String {
    let mut s = String::new();
    t.to_str(&mut s);
    s
}

/// print a Param in token syntax; maps in iteration order (sorted = false) or sorted by printed entry
fn param_tok(p: &Param, out: &mut Vec<String>, sorted: bool) {
    match p {
        Param::Base(b) => base_tok(b, out),
        Param::Container(c) => match c {
            Container::Array(arr) => {
                out.push("a".into());
                out.push(sig_str(&arr.element_sig));
                out.push(arr.values.len().to_string());
                for v in &arr.values {
                    param_tok(v, out, sorted);
                }
            }
            Container::Struct(fields) => {
                out.push("r".into());
                out.push(fields.len().to_string());
                for v in fields {
                    param_tok(v, out, sorted);
                }
            }
            Container::Dict(d) => {
                out.push("e".into());
                out.push(sig_str(&signature::Type::Base(d.key_sig)));
                out.push(sig_str(&d.value_sig));
                out.push(d.map.len().to_string());
                let mut entries: Vec<Vec<String>> = d
                    .map
                    .iter()
                    .map(|(k, v)| {
                        let mut e = Vec::new();
                        base_tok(k, &mut e);
                        param_tok(v, &mut e, sorted);
                        e
                    })
                    .collect();
                if sorted {
                    entries.sort();
                }
                for e in entries {
                    out.extend(e);
                }
            }
            Container::Variant(v) => {
                out.push("v".into());
                out.push(sig_str(&v.sig));
                param_tok(&v.value, out, sorted);
            }
            _ => out.push("REF".into()),
        },
    }
}
fn base_tok(b: &Base, out: &mut Vec<String>) {
    let (t, v) = match b {
        Base::Byte(x) => ("y", (*x as u64).to_string()),
        Base::Boolean(x) => ("b", (*x as u64).to_string()),
        Base::Int16(x) => ("n", (*x as u16 as u64).to_string()),
        Base::Uint16(x) => ("q", (*x as u64).to_string()),
        Base::Int32(x) => ("i", (*x as u32 as u64).to_string()),
        Base::Uint32(x) => ("u", (*x as u64).to_string()),
        Base::Int64(x) => ("x", (*x as u64).to_string()),
        Base::Uint64(x) => ("t", x.to_string()),
        Base::Double(x) => ("d", x.to_string()),
        Base::UnixFd(fd) => ("h", rbverif::wirelib::fd_token(fd)),
        Base::String(s) => ("s", hex(s.as_bytes())),
        Base::ObjectPath(s) => ("o", hex(s.as_bytes())),
        Base::Signature(s) => ("g", hex(s.as_bytes())),
        Base::StringRef(s) => ("s", hex(s.as_bytes())),
        Base::ObjectPathRef(s) => ("o", hex(s.as_bytes())),
        Base::SignatureRef(s) => ("g", hex(s.as_bytes())),
    };
    out.push(t.into());
    out.push(v);
}

fn eval(line: &str) -> String {
    let mut a = Args::new(line);
    let op = a.next();
    match op {
        "CAT" => rbverif::catalogue::CATALOGUE.join(" "),
        "MT" | "RT" | "UT" => {
            let ty = a.next();
            rbverif::catalogue::dispatch(ty, op, &mut a)
        }
        "MP" | "RP" => {
            let byteorder = rbverif::wirelib::bo(&mut a);
            let prefix = a.num();
            let p = param_from(&mut a);
            let mut ordered = Vec::new();
            param_tok(&p, &mut ordered, false);
            let mut msg = rustbus::message_builder::MarshalledMessage::new();
            msg.body = MarshalledMessageBody::with_byteorder(byteorder);
            for i in 0..prefix {
                msg.body.push_param((i as u8).wrapping_mul(37).wrapping_add(1)).unwrap();
            }
            let r = msg.body.push_old_param(&p);
            if op == "MP" {
                let res = if r.is_ok() { "ok" } else { "err" };
                return format!("{} sig={} buf={} nfds={} val={}", res, hex(msg.get_sig().as_bytes()), hex(msg.get_buf()), msg.body.get_fds().len(), ordered.join(" "));
            }
            if r.is_err() {
                return "pusherr".to_string();
            }
            msg.body.push_param(0xA5u8).unwrap();
            let valid = msg.body.validate().is_ok();
            let mut parser = msg.body.parser();
            for _ in 0..prefix {
                if parser.get::<u8>().is_err() {
                    return "prefixerr".to_string();
                }
            }
            let got = parser.get_param();
            let mut out = Vec::new();
            let res = match &got {
                Ok(x) => {
                    param_tok(x, &mut out, true);
                    "ok"
                }
                Err(_) => "err",
            };
            drop(got);
            let trailer = match parser.get::<u8>() {
                Ok(0xA5) => "trailer=ok",
                Ok(_) => "trailer=wrong",
                Err(_) => "trailer=err",
            };
            let mut orig = Vec::new();
            param_tok(&p, &mut orig, true);
            format!("{} validate={} {} left={} same={} val={}", res, valid, trailer, parser.sigs_left(), orig == out, out.join(" "))
        }
        "VR" | "UP" => {
            let byteorder = rbverif::wirelib::bo(&mut a);
            let mut offset = a.num() as usize;
            let nfds = if op == "UP" { a.num() as usize } else { 0 };
            let sig = a.next();
            let bytes = unhex(a.next());
            if offset > bytes.len() {
                return "badoffset".to_string();
            }
            let types = match signature::Type::parse_description(sig) {
                Ok(t) => t,
                Err(_) => return "badsig".to_string(),
            };
            let start = offset;
            if op == "VR" {
                for t in &types {
                    match rustbus::wire::validate_raw::validate_marshalled(byteorder, offset, &bytes, t) {
                        Ok(n) => offset += n,
                        Err(_) => return "err".to_string(),
                    }
                }
                format!("ok {}", offset - start)
            } else {
                let fds: Vec<UnixFd> = (0..nfds).map(|_| UnixFd::new(nix::unistd::dup(2).unwrap())).collect();
                rbverif::wirelib::set_fd_table(&fds);
                let mut ctx = UnmarshalContext::new(&fds, byteorder, &bytes, offset);
                let mut out = Vec::new();
                let mut failed = false;
                for t in &types {
                    match rustbus::wire::unmarshal::container::unmarshal_with_sig(t, &mut ctx) {
                        Ok(p) => param_tok(&p, &mut out, true),
                        Err(_) => {
                            failed = true;
                            break;
                        }
                    }
                }
                rbverif::wirelib::set_fd_table(&[]);
                if failed {
                    return "err".to_string();
                }
                format!("ok {} {}", bytes.len() - ctx.remainder().len() - start, out.join(" "))
            }
        }
        _ => "?".to_string(),
    }
}

fn main() {
    rbverif::line_loop(|line| eval(line));
}
