//! Wire harness (C01, C02, C03, C04, C16): one operation per stdin line, one result line per stdout line.
//!   MT|RT|UT <catalogue-type> ...            typed API through a catalogue type (see wirelib::run)
//!   MP <bo> <prefix-count> <value>            dynamic API: push_old_param of the Param tree built from the value
//!   RP <bo> <prefix-count> <value>            marshal through Param, read back with get_param, print value
//!   MPR|RPR, MPX|RPX                          the same with the tree built from the borrowing variants (ArrayRef, StructRef,
//!                                             DictRef, StringRef, ObjectPathRef, SignatureRef) / alternating owned and borrowing
//!   MV|MVR|MVX <bo> <prefix-count> <variant>  a params::Variant pushed through the typed API (push_param(&params::Variant{sig, value}))
//!   RV|RVR|RVX <bo> <prefix-count> <variant>  the same, then read back with get::<params::Variant>()
//!   MPC|MPCR|MPCX <bo> <prefix-count> <value> wire::marshal::container::marshal_container_param on a container tree
//!   MA <catalogue-type> <bo> <prefix-count> <value>   the free function message_builder::marshal_as_variant
//!   GT <catalogue-type> <bo> <nfds> <sig hex> <hex>   get::<T>() on a body built from parts (any signature)
//!   <op>@<n> | <op>@recv                       RT, RP.., RV.., BV, BA, BB, GT: the body that is read sits at buf_offset n /
//!                                             went through marshal + unmarshal_next_message (wirelib::Place)
//!   VR <bo> <offset> <sig> <hex>              validate_raw::validate_marshalled for every complete type of <sig> in turn
//!   UP <bo> <offset> <nfds> <sig> <hex>       unmarshal_with_sig (dynamic decoder) for every complete type of <sig>
//!   BV|BA|BB ...                              glue on a body built with from_parts: validate(), unmarshall_all(), unmarshal_body (see below)
//!   XM|XR|XD ...                              arrays of up to 64 MiB + a little, made here from a short descriptor (see giant())
//!   CAT                                        print the catalogue
use rbverif::wirelib::Args;
use rbverif::{hex, unhex};
use rustbus::message_builder::MarshalledMessageBody;
use rustbus::signature;
use rustbus::wire::unmarshal_context::UnmarshalContext;
use rustbus::wire::UnixFd;

#[path = "wire_param.rs"]
mod wire_param;
use wire_param::*;

fn eval(line: &str) -> String {
    let mut a = Args::new(line);
    // "RT@112", "RP@recv": where the body that is READ lives (wirelib::Place); the model knows no offsets
    let op = rbverif::wirelib::take_place(a.next());
    match op {
        "CAT" => rbverif::catalogue::CATALOGUE.join(" "),
        "MT" | "RT" | "UT" | "GT" | "MA" => {
            let ty = a.next();
            let out = rbverif::catalogue::dispatch(ty, op, &mut a);
            match out.strip_prefix("BODY ") {
                Some(rest) => read_back_dynamic(rest),
                None => out,
            }
        }
        "MPC" | "MPCR" | "MPCX" => {
            // wire::marshal::container::marshal_container_param on the container of the tree (a public entry of the dynamic
            // marshaller that does its own shape check), into a context whose buffer holds <prefix-count> bytes
            let flavour = match op {
                "MPCR" => Flavour::Ref,
                "MPCX" => Flavour::MixedOwned,
                _ => Flavour::Owned,
            };
            let byteorder = rbverif::wirelib::bo(&mut a);
            let prefix = a.num();
            let p = param_from_flavour(&mut a, flavour);
            let mut ordered = Vec::new();
            param_tok(&p, &mut ordered, false);
            let c = match &p {
                rustbus::params::Param::Container(c) => c,
                _ => return "notacontainer".to_string(),
            };
            let mut buf: Vec<u8> = (0..prefix).map(|i| (i as u8).wrapping_mul(37).wrapping_add(1)).collect();
            let mut fds = Vec::new();
            let mut ctx = rustbus::wire::marshal::MarshalContext { buf: &mut buf, fds: &mut fds, byteorder };
            let r = rustbus::wire::marshal::container::marshal_container_param(c, &mut ctx);
            format!("{} sig=- buf={} nfds={} val={}", if r.is_ok() { "ok" } else { "err" }, hex(&buf), fds.len(), ordered.join(" "))
        }
        "MV" | "MVR" | "MVX" | "RV" | "RVR" | "RVX" => {
            // a params::Variant pushed through the TYPED API (impl Marshal for params::Variant): the value must be a variant.
            // RV..: then read back through the typed API as well (impl Unmarshal for params::Variant), output as RT/RP
            let flavour = Flavour::of_op(op);
            let byteorder = rbverif::wirelib::bo(&mut a);
            let prefix = a.num();
            let p = param_from_flavour(&mut a, flavour);
            let mut ordered = Vec::new();
            param_tok(&p, &mut ordered, false);
            let variant = match p {
                rustbus::params::Param::Container(rustbus::params::Container::Variant(v)) => v,
                _ => return "notavariant".to_string(),
            };
            let mut msg = rustbus::message_builder::MarshalledMessage::new();
            msg.body = MarshalledMessageBody::with_byteorder(byteorder);
            for i in 0..prefix {
                msg.body.push_param((i as u8).wrapping_mul(37).wrapping_add(1)).unwrap();
            }
            let r = msg.body.push_param(&*variant);
            if op.starts_with("MV") {
                let res = if r.is_ok() { "ok" } else { "err" };
                return format!("{} sig={} buf={} nfds={} val={}", res, hex(msg.get_sig().as_bytes()), hex(msg.get_buf()), msg.body.get_fds().len(), ordered.join(" "));
            }
            if r.is_err() {
                return "pusherr".to_string();
            }
            msg.body.push_param(0xA5u8).unwrap();
            let placed = rbverif::wirelib::place(&mut msg);
            let valid = msg.body.validate().is_ok();
            let mut parser = msg.body.parser();
            for _ in 0..prefix {
                if parser.get::<u8>().is_err() {
                    return "prefixerr".to_string();
                }
            }
            let got = parser.get::<rustbus::params::Variant>();
            let mut out = Vec::new();
            let res = match got {
                Ok(x) => {
                    param_tok(&rustbus::params::Param::Container(rustbus::params::Container::Variant(Box::new(x))), &mut out, true);
                    "ok"
                }
                Err(_) => "err",
            };
            let trailer = match parser.get::<u8>() {
                Ok(0xA5) => "trailer=ok",
                Ok(_) => "trailer=wrong",
                Err(_) => "trailer=err",
            };
            let mut orig = Vec::new();
            param_tok(&rustbus::params::Param::Container(rustbus::params::Container::Variant(variant)), &mut orig, true);
            format!("{} validate={} {} left={} same={} place={} val={}", res, valid, trailer, parser.sigs_left(), orig == out, placed, out.join(" "))
        }
        "MP" | "RP" | "MPR" | "RPR" | "MPX" | "RPX" => {
            // ..R: the tree is built from the borrowing variants (ArrayRef, StructRef, DictRef, StringRef, ..), ..X: alternating
            let flavour = Flavour::of_op(op);
            let op = &op[..2];
            let byteorder = rbverif::wirelib::bo(&mut a);
            let prefix = a.num();
            let p = param_from_flavour(&mut a, flavour);
            let mut ordered = Vec::new();
            param_tok(&p, &mut ordered, false);
            let mut msg = rustbus::message_builder::MarshalledMessage::new();
            msg.body = MarshalledMessageBody::with_byteorder(byteorder);
            for i in 0..prefix {
                msg.body.push_param((i as u8).wrapping_mul(37).wrapping_add(1)).unwrap();
            }
            let r = msg.body.push_old_param(&p);
            if op == "MP" {
                let res = if r.is_ok() { "ok" } else { "err" };
                return format!("{} sig={} buf={} nfds={} val={}", res, hex(msg.get_sig().as_bytes()), hex(msg.get_buf()), msg.body.get_fds().len(), ordered.join(" "));
            }
            if r.is_err() {
                return "pusherr".to_string();
            }
            msg.body.push_param(0xA5u8).unwrap();
            let placed = rbverif::wirelib::place(&mut msg);
            let valid = msg.body.validate().is_ok();
            let mut parser = msg.body.parser();
            for _ in 0..prefix {
                if parser.get::<u8>().is_err() {
                    return "prefixerr".to_string();
                }
            }
            let got = parser.get_param();
            let mut out = Vec::new();
            let res = match &got {
                Ok(x) => {
                    param_tok(x, &mut out, true);
                    "ok"
                }
                Err(_) => "err",
            };
            drop(got);
            let trailer = match parser.get::<u8>() {
                Ok(0xA5) => "trailer=ok",
                Ok(_) => "trailer=wrong",
                Err(_) => "trailer=err",
            };
            let mut orig = Vec::new();
            param_tok(&p, &mut orig, true);
            format!("{} validate={} {} left={} same={} place={} val={}", res, valid, trailer, parser.sigs_left(), orig == out, placed, out.join(" "))
        }
        "BV" | "BA" | "BB" => {
            // glue around the decoders, on a body built from arbitrary parts:
            //   BV <bo> <nfds> <sig hex> <hex>            MarshalledMessageBody::from_parts(..).validate()           -> ok | err
            //   BA <bo> <nfds> <sig hex> <hex>            MarshalledMessage{body: from_parts(..)}.unmarshall_all()  -> ok <params> | err
            //   BB <bo> <offset> <nfds> <sig hex> <hex>   wire::unmarshal::unmarshal_body(bo, types of sig, buf, fds, offset) -> ok <params> | err | badsig
            // the signature is given in hex (it may be empty or invalid)
            let byteorder = rbverif::wirelib::bo(&mut a);
            let offset = if op == "BB" { a.num() as usize } else { 0 };
            let nfds = a.num() as usize;
            let sig = String::from_utf8(unhex(a.next())).unwrap();
            let bytes = unhex(a.next());
            let fds: Vec<UnixFd> = (0..nfds).map(|_| UnixFd::new(nix::unistd::dup(2).unwrap())).collect();
            rbverif::wirelib::set_fd_table(&fds);
            // the placement of this line: n foreign bytes in front of the body (BB: the offset handed to unmarshal_body is added)
            let front = match rbverif::wirelib::PLACE.with(|p| p.get()) {
                rbverif::wirelib::Place::At(n) => n,
                rbverif::wirelib::Place::Recv => 112,
            };
            let offset = offset + front;
            let bytes = {
                let mut b = vec![0xAAu8; front];
                b.extend_from_slice(&bytes);
                b
            };
            let res = match op {
                "BV" => {
                    let body = MarshalledMessageBody::from_parts(bytes, front, fds, sig, byteorder);
                    if body.validate().is_ok() { "ok".to_string() } else { "err".to_string() }
                }
                "BA" => {
                    let mut msg = rustbus::message_builder::MarshalledMessage::new();
                    msg.body = MarshalledMessageBody::from_parts(bytes, front, fds, sig, byteorder);
                    match msg.unmarshall_all() {
                        Ok(m) => {
                            let mut out = Vec::new();
                            for p in &m.params {
                                param_tok(p, &mut out, true);
                            }
                            format!("ok {} {}", m.params.len(), out.join(" "))
                        }
                        Err(_) => "err".to_string(),
                    }
                }
                _ => {
                    if offset > bytes.len() {
                        return "badoffset".to_string();
                    }
                    match signature::Type::parse_description(&sig) {
                        Err(_) => "badsig".to_string(),
                        Ok(types) => match rustbus::wire::unmarshal::unmarshal_body(byteorder, &types, &bytes, &fds, offset) {
                            Ok(params) => {
                                let mut out = Vec::new();
                                for p in &params {
                                    param_tok(p, &mut out, true);
                                }
                                format!("ok {} {}", params.len(), out.join(" "))
                            }
                            Err(_) => "err".to_string(),
                        },
                    }
                }
            };
            rbverif::wirelib::set_fd_table(&[]);
            res
        }
        "XM" | "XR" | "XD" => giant(op, &mut a),
        "VR" | "UP" => {
            let byteorder = rbverif::wirelib::bo(&mut a);
            let mut offset = a.num() as usize;
            let nfds = if op == "UP" { a.num() as usize } else { 0 };
            let sig = a.next();
            let bytes = unhex(a.next());
            if offset > bytes.len() {
                return "badoffset".to_string();
            }
            let types = match signature::Type::parse_description(sig) {
                Ok(t) => t,
                Err(_) => return "badsig".to_string(),
            };
            let start = offset;
            if op == "VR" {
                for t in &types {
                    match rustbus::wire::validate_raw::validate_marshalled(byteorder, offset, &bytes, t) {
                        Ok(n) => offset += n,
                        Err(_) => return "err".to_string(),
                    }
                }
                format!("ok {}", offset - start)
            } else {
                let fds: Vec<UnixFd> = (0..nfds).map(|_| UnixFd::new(nix::unistd::dup(2).unwrap())).collect();
                rbverif::wirelib::set_fd_table(&fds);
                let mut ctx = UnmarshalContext::new(&fds, byteorder, &bytes, offset);
                let mut out = Vec::new();
                let mut failed = false;
                for t in &types {
                    match rustbus::wire::unmarshal::container::unmarshal_with_sig(t, &mut ctx) {
                        Ok(p) => param_tok(&p, &mut out, true),
                        Err(_) => {
                            failed = true;
                            break;
                        }
                    }
                }
                rbverif::wirelib::set_fd_table(&[]);
                if failed {
                    return "err".to_string();
                }
                format!("ok {} {}", bytes.len() - ctx.remainder().len() - start, out.join(" "))
            }
        }
        _ => "?".to_string(),
    }
}

// ---------------------------------------------------------------- values that do not fit on a line
/// One array at offset 0 of a body, made from a descriptor:
///   ay <n>                      n bytes, byte i = i mod 251
///   at <n>                      n u64, element i = i
///   as <count> <len> <lastlen>  count strings of len bytes (the last one: lastlen), string j = the letter a + j mod 26 repeated
enum Shape {
    Ay(usize),
    At(usize),
    As(usize, usize, usize),
}

fn crc32(data: &[u8]) -> u32 {
    let mut table = [0u32; 256];
    for i in 0..256u32 {
        let mut c = i;
        for _ in 0..8 {
            c = if c & 1 != 0 { 0xEDB88320 ^ (c >> 1) } else { c >> 1 };
        }
        table[i as usize] = c;
    }
    let mut crc = 0xFFFFFFFFu32;
    for b in data {
        crc = table[((crc ^ *b as u32) & 0xFF) as usize] ^ (crc >> 8);
    }
    crc ^ 0xFFFFFFFF
}

impl Shape {
    fn parse(a: &mut Args) -> Shape {
        match a.next() {
            "ay" => Shape::Ay(a.num() as usize),
            "at" => Shape::At(a.num() as usize),
            "as" => {
                let c = a.num() as usize;
                let l = a.num() as usize;
                let ll = a.num() as usize;
                Shape::As(c, l, ll)
            }
            x => panic!("shape {}", x),
        }
    }
    fn sig(&self) -> &'static str {
        match self {
            Shape::Ay(_) => "ay",
            Shape::At(_) => "at",
            Shape::As(..) => "as",
        }
    }
    fn bytes_val(&self) -> Vec<u8> {
        match self {
            Shape::Ay(n) => (0..*n).map(|i| (i % 251) as u8).collect(),
            _ => Vec::new(),
        }
    }
    fn u64_val(&self) -> Vec<u64> {
        match self {
            Shape::At(n) => (0..*n as u64).collect(),
            _ => Vec::new(),
        }
    }
    fn str_val(&self) -> Vec<String> {
        match self {
            Shape::As(c, l, ll) => (0..*c).map(|j| {
                let ch = (b'a' + (j % 26) as u8) as char;
                std::iter::repeat(ch).take(if j + 1 == *c { *ll } else { *l }).collect()
            }).collect(),
            _ => Vec::new(),
        }
    }
    /// the encoding at offset 0, by a plain encoder written from the D-Bus specification (nothing of the crate is used)
    fn encoding(&self, be: bool) -> Vec<u8> {
        let u32b = |v: u32| if be { v.to_be_bytes() } else { v.to_le_bytes() };
        let mut out = vec![0u8; 4];
        let start;
        match self {
            Shape::Ay(_) => {
                start = 4;
                out.extend_from_slice(&self.bytes_val());
            }
            Shape::At(_) => {
                out.extend_from_slice(&[0u8; 4]);
                start = 8;
                for v in self.u64_val() {
                    out.extend_from_slice(&if be { v.to_be_bytes() } else { v.to_le_bytes() });
                }
            }
            Shape::As(..) => {
                start = 4;
                for s in self.str_val() {
                    while out.len() % 4 != 0 {
                        out.push(0);
                    }
                    out.extend_from_slice(&u32b(s.len() as u32));
                    out.extend_from_slice(s.as_bytes());
                    out.push(0);
                }
            }
        }
        let len = (out.len() - start) as u32;
        out[0..4].copy_from_slice(&u32b(len));
        out
    }
}

/// XM <typed|param> <bo> <shape>   push_param(&[u8] / &[u64] / &[&str]) or push_old_param(Param array of strings) into an empty body
///                                 -> ok|err sig=<hex> buflen=<n> lenfield=<first u32 of the buffer> crc=<crc32 of the buffer>
/// XR <typed|param> <bo> <shape>   the same, then a trailer byte, validate(), and the value read back through get::<&[u8] / Vec<u64> /
///                                 Vec<&str>>() or get_param() -> the fields of RT/RP (pusherr when the push is refused)
/// XD <vr|ut|up> <bo> <shape>      validate_marshalled / the typed decoder / unmarshal_with_sig on Shape::encoding
///                                 -> ok <consumed> same=<value equals the described one> | err, then in=<crc32 of the input> inlen=<n>
fn giant(op: &str, a: &mut Args) -> String {
    use rustbus::params::{Array, Base, Container, Param};
    use rustbus::Unmarshal;
    let api = a.next().to_string();
    let byteorder = rbverif::wirelib::bo(a);
    let be = matches!(byteorder, rustbus::ByteOrder::BigEndian);
    let shape = Shape::parse(a);
    let (bytes_v, u64_v, str_v) = (shape.bytes_val(), shape.u64_val(), shape.str_val());
    let strs: Vec<&str> = str_v.iter().map(|s| s.as_str()).collect();
    let param = || {
        Param::Container(Container::Array(Array {
            element_sig: signature::Type::Base(signature::Base::String),
            values: str_v.iter().map(|s| Param::Base(Base::String(s.clone()))).collect(),
        }))
    };
    if op == "XD" {
        let input = shape.encoding(be);
        let note = format!("in={:08x} inlen={}", crc32(&input), input.len());
        let ty = signature::Type::parse_description(shape.sig()).unwrap().remove(0);
        let fds: Vec<UnixFd> = Vec::new();
        let mut ctx = UnmarshalContext::new(&fds, byteorder, &input, 0);
        let res = match (api.as_str(), &shape) {
            ("vr", _) => rustbus::wire::validate_raw::validate_marshalled(byteorder, 0, &input, &ty).map(|n| (n, true)).map_err(|_| ()),
            ("up", Shape::As(..)) => rustbus::wire::unmarshal::container::unmarshal_with_sig(&ty, &mut ctx).map(|p| (input.len() - ctx.remainder().len(), p == param())).map_err(|_| ()),
            ("ut", Shape::Ay(_)) => <&[u8]>::unmarshal(&mut ctx).map(|v| (input.len() - ctx.remainder().len(), v == &bytes_v[..])).map_err(|_| ()),
            ("ut", Shape::At(_)) => <Vec<u64>>::unmarshal(&mut ctx).map(|v| (input.len() - ctx.remainder().len(), v == u64_v)).map_err(|_| ()),
            ("ut", Shape::As(..)) => <Vec<&str>>::unmarshal(&mut ctx).map(|v| (input.len() - ctx.remainder().len(), v == strs)).map_err(|_| ()),
            _ => return "unsupported".to_string(),
        };
        return match res {
            Ok((n, same)) => format!("ok {} same={} {}", n, same, note),
            Err(()) => format!("err {}", note),
        };
    }
    let mut msg = rustbus::message_builder::MarshalledMessage::new();
    msg.body = MarshalledMessageBody::with_byteorder(byteorder);
    let pushed = match (api.as_str(), &shape) {
        ("typed", Shape::Ay(_)) => msg.body.push_param(&bytes_v[..]).is_ok(),
        ("typed", Shape::At(_)) => msg.body.push_param(&u64_v[..]).is_ok(),
        ("typed", Shape::As(..)) => msg.body.push_param(&strs[..]).is_ok(),
        ("param", Shape::As(..)) => msg.body.push_old_param(&param()).is_ok(),
        _ => return "unsupported".to_string(),
    };
    if op == "XM" {
        let buf = msg.get_buf();
        let lenfield = if buf.len() >= 4 {
            let b = [buf[0], buf[1], buf[2], buf[3]];
            if be { u32::from_be_bytes(b) } else { u32::from_le_bytes(b) }
        } else {
            0
        };
        return format!("{} sig={} buflen={} lenfield={} crc={:08x}", if pushed { "ok" } else { "err" }, hex(msg.get_sig().as_bytes()), buf.len(), lenfield, crc32(buf));
    }
    if !pushed {
        return "pusherr".to_string();
    }
    msg.body.push_param(0xA5u8).unwrap();
    let valid = msg.body.validate().is_ok();
    let mut parser = msg.body.parser();
    let same = match (api.as_str(), &shape) {
        ("typed", Shape::Ay(_)) => parser.get::<&[u8]>().map(|v| v == &bytes_v[..]),
        ("typed", Shape::At(_)) => parser.get::<Vec<u64>>().map(|v| v == u64_v),
        ("typed", Shape::As(..)) => parser.get::<Vec<&str>>().map(|v| v == strs),
        _ => parser.get_param().map(|p| p == param()),
    };
    let trailer = match parser.get::<u8>() {
        Ok(0xA5) => "trailer=ok",
        Ok(_) => "trailer=wrong",
        Err(_) => "trailer=err",
    };
    format!("{} validate={} {} left={} same={}", if same.is_ok() { "ok" } else { "err" }, valid, trailer, parser.sigs_left(), same.unwrap_or(false))
}

/// RT of a marshal-only type (wirelib::run_m): the body written through the typed API is rebuilt from its parts and read
/// with the dynamic API: prefix bytes, the value through get_param, the trailer. Same output fields as RT/RP.
fn read_back_dynamic(rest: &str) -> String {
    let mut a = Args::new(rest);
    let byteorder = rbverif::wirelib::bo(&mut a);
    let prefix = a.num() as usize;
    let nfds = a.num() as usize;
    let sig = String::from_utf8(unhex(a.next())).unwrap();
    let buf = unhex(a.next());
    let mut orig = Vec::new();
    while a.rest_len() > 0 {
        orig.push(a.next().to_string());
    }
    let fds: Vec<UnixFd> = (0..nfds).map(|_| UnixFd::new(nix::unistd::dup(2).unwrap())).collect();
    let mut msg = rustbus::message_builder::MarshalledMessage::new();
    msg.body = MarshalledMessageBody::from_parts(buf, 0, fds, sig, byteorder);
    let placed = rbverif::wirelib::place(&mut msg);
    let body = &msg.body;
    let valid = body.validate().is_ok();
    let mut parser = body.parser();
    for _ in 0..prefix {
        if parser.get::<u8>().is_err() {
            return "prefixerr".to_string();
        }
    }
    let got = parser.get_param();
    let mut out = Vec::new();
    let res = match &got {
        Ok(x) => {
            param_tok(x, &mut out, true);
            "ok"
        }
        Err(_) => "err",
    };
    drop(got);
    let trailer = match parser.get::<u8>() {
        Ok(0xA5) => "trailer=ok",
        Ok(_) => "trailer=wrong",
        Err(_) => "trailer=err",
    };
    // descriptors: the typed side prints handles (0 = live), the dynamic side the same
    format!("{} validate={} {} left={} same={} place={} val={}", res, valid, trailer, parser.sigs_left(), orig == out, placed, out.join(" "))
}

fn main() {
    rbverif::line_loop(|line| eval(line));
}
