//! C19 harness: the real PathMatcher::get_match and DispatchConn::run.
//! Same line protocol and output format as ocaml/c19/driver.ml.
//!
//!   m <pattern-hex> <query-hex>              one-entry PathMatcher, get_match(query)
//!   mm <query-hex> <pattern-hex>...          one PathMatcher holding all patterns (handler k = k-th insert, 1-based)
//!   enum <seg,seg,..> <maxseg> <shard> <n>   all patterns x all queries built from <= maxseg segments; prints the
//!                                            matching pairs of the patterns with index % n == shard, then totals
//!   run <routes> <msgs>                      DispatchConn::run over a scripted connection (see checks/c19.py);
//!        msg = serial;kind;object;sender;result;reply body;new routes;flags;destination;body string;byte order l|B;emit
//!        emit = e<k> / p<k>: the handler sends k signals (interface verif.Emit, body "<serial>.<j>") through
//!        env.conn before it returns (e: one lock for all of them, p: lock and unlock around each one).
//!        Output: log=.. replies=.. emits=<body-hex>@<number of other messages written before it>|.. end=..
//!        A run that has not finished RUN_DEADLINE after it started ends as `hang` (what was logged and written
//!        until then is printed); the run lines after a hang in the same process are answered `end=skipped`.
use rbverif::{hex, unhex};
use rustbus::connection::dispatch_conn::{
    DispatchConn, HandleEnvironment, HandleError, HandleFn, HandleResult, Matches, PathMatcher,
};
use rustbus::connection::ll_conn::SendConn;
use rustbus::message_builder::{MarshalledMessage, MessageBuilder};
use std::collections::HashMap;
use std::io::{BufRead, Read, Write};
use std::sync::{Arc, Mutex};

// ------------------------------------------------------------------ hand-written wire codec (little endian)
fn pad(buf: &mut Vec<u8>, a: usize) {
    while buf.len() % a != 0 {
        buf.push(0);
    }
}
fn put_u32(buf: &mut Vec<u8>, v: u32) {
    buf.extend_from_slice(&v.to_le_bytes());
}
/// u32 in the byte order of the message being built
fn put_u32_bo(buf: &mut Vec<u8>, v: u32, big: bool) {
    if big {
        buf.extend_from_slice(&v.to_be_bytes());
    } else {
        buf.extend_from_slice(&v.to_le_bytes());
    }
}
fn field_str(buf: &mut Vec<u8>, code: u8, sig: u8, s: &[u8], big: bool) {
    pad(buf, 8);
    buf.extend_from_slice(&[code, 1, sig, 0]);
    put_u32_bo(buf, s.len() as u32, big);
    buf.extend_from_slice(s);
    buf.push(0);
}
fn field_u32(buf: &mut Vec<u8>, code: u8, v: u32, big: bool) {
    pad(buf, 8);
    buf.extend_from_slice(&[code, 1, b'u', 0]);
    put_u32_bo(buf, v, big);
}
fn field_sig(buf: &mut Vec<u8>, code: u8, s: &[u8]) {
    pad(buf, 8);
    buf.extend_from_slice(&[code, 1, b'g', 0]);
    buf.push(s.len() as u8);
    buf.extend_from_slice(s);
    buf.push(0);
}

struct Incoming {
    serial: u32,
    kind: char, // c call, k call that also carries a REPLY_SERIAL field, s signal, r method return, e error
    object: Option<Vec<u8>>,
    sender: Option<Vec<u8>>,
    flags: u8,
    destination: Option<Vec<u8>>,
    body: Option<Vec<u8>>, // one string parameter (signature "s")
    big_endian: bool,
}

fn encode(m: &Incoming) -> Vec<u8> {
    let big = m.big_endian;
    let mut fields = Vec::new();
    // the fields region starts at offset 16 of the message: same alignment as a fresh buffer
    if let Some(o) = &m.object {
        field_str(&mut fields, 1, b'o', o, big);
    }
    let typ = match m.kind {
        'c' | 'k' => {
            field_str(&mut fields, 3, b's', b"M", big);
            if m.kind == 'k' {
                field_u32(&mut fields, 5, 999, big);
            }
            1
        }
        's' => {
            field_str(&mut fields, 2, b's', b"verif.I", big);
            field_str(&mut fields, 3, b's', b"M", big);
            4
        }
        'e' => {
            field_str(&mut fields, 4, b's', b"verif.Err", big);
            field_u32(&mut fields, 5, 999, big);
            3
        }
        _ => {
            field_u32(&mut fields, 5, 999, big);
            2
        }
    };
    if let Some(d) = &m.destination {
        field_str(&mut fields, 6, b's', d, big);
    }
    if let Some(s) = &m.sender {
        field_str(&mut fields, 7, b's', s, big);
    }
    let mut body = Vec::new();
    if let Some(b) = &m.body {
        field_sig(&mut fields, 8, b"s");
        put_u32_bo(&mut body, b.len() as u32, big);
        body.extend_from_slice(b);
        body.push(0);
    }
    let mut buf = vec![if big { b'B' } else { b'l' }, typ, m.flags, 1];
    put_u32_bo(&mut buf, body.len() as u32, big);
    put_u32_bo(&mut buf, m.serial, big);
    put_u32_bo(&mut buf, fields.len() as u32, big);
    buf.extend_from_slice(&fields);
    pad(&mut buf, 8);
    buf.extend_from_slice(&body);
    buf
}

struct Seen {
    typ: u8,
    interface: Option<Vec<u8>>,
    reply_serial: Option<u32>,
    destination: Option<Vec<u8>>,
    codes: Vec<u8>,
    signature: Vec<u8>,
    body: Vec<u8>,
}

fn get_u32(b: &[u8], at: usize) -> Option<u32> {
    b.get(at..at + 4).map(|x| u32::from_le_bytes([x[0], x[1], x[2], x[3]]))
}

/// decode as many whole messages as the bytes hold; None when they are not well formed
fn decode_all(bytes: &[u8]) -> Option<Vec<Seen>> {
    let mut out = Vec::new();
    let mut pos = 0;
    while pos < bytes.len() {
        let b = &bytes[pos..];
        if b.len() < 16 || b[0] != b'l' || b[3] != 1 {
            return None;
        }
        let body_len = get_u32(b, 4)? as usize;
        let flen = get_u32(b, 12)? as usize;
        let fields_end = 16 + flen;
        let body_start = (fields_end + 7) / 8 * 8;
        if b.len() < body_start + body_len {
            return None;
        }
        let mut seen = Seen {
            typ: b[1],
            interface: None,
            reply_serial: None,
            destination: None,
            codes: Vec::new(),
            signature: Vec::new(),
            body: b[body_start..body_start + body_len].to_vec(),
        };
        let mut p = 16;
        while p < fields_end {
            p = (p + 7) / 8 * 8;
            if p >= fields_end {
                break;
            }
            let code = b[p];
            let siglen = *b.get(p + 1)? as usize;
            let sig = b.get(p + 2..p + 2 + siglen)?.to_vec();
            p += 2 + siglen + 1;
            seen.codes.push(code);
            match sig.as_slice() {
                b"s" | b"o" => {
                    p = (p + 3) / 4 * 4;
                    let l = get_u32(b, p)? as usize;
                    let s = b.get(p + 4..p + 4 + l)?.to_vec();
                    p += 4 + l + 1;
                    if code == 6 {
                        seen.destination = Some(s);
                    } else if code == 2 {
                        seen.interface = Some(s);
                    }
                }
                b"u" => {
                    p = (p + 3) / 4 * 4;
                    let v = get_u32(b, p)?;
                    p += 4;
                    if code == 5 {
                        seen.reply_serial = Some(v);
                    }
                }
                b"g" => {
                    let l = *b.get(p)? as usize;
                    let s = b.get(p + 1..p + 1 + l)?.to_vec();
                    p += 1 + l + 1;
                    if code == 8 {
                        seen.signature = s;
                    }
                }
                _ => return None,
            }
        }
        seen.codes.sort();
        out.push(seen);
        pos += body_start + body_len;
    }
    Some(out)
}

fn show_seen(s: &Seen) -> String {
    // a body of signature "s" is shown as the string it holds
    let body = if s.signature == b"s" && s.body.len() >= 5 {
        let l = get_u32(&s.body, 0).unwrap() as usize;
        if s.body.len() == 4 + l + 1 {
            format!("s:{}", hex(&s.body[4..4 + l]))
        } else {
            format!("raw:{}", hex(&s.body))
        }
    } else if s.body.is_empty() {
        "-".to_string()
    } else {
        format!("raw:{}", hex(&s.body))
    };
    format!(
        "{};{};{};{};{}",
        s.typ,
        s.reply_serial.map(|v| v.to_string()).unwrap_or_else(|| "-".into()),
        s.destination.as_ref().map(|d| hex(d)).unwrap_or_else(|| "-".into()),
        s.codes.iter().map(|c| c.to_string()).collect::<Vec<_>>().join("."),
        body
    )
}

// ------------------------------------------------------------------ matcher
fn show_caps(m: &Matches) -> String {
    let mut v: Vec<String> = m
        .matches
        .iter()
        .map(|(k, v)| format!("{}={}", hex(k.as_bytes()), hex(v.as_bytes())))
        .collect();
    v.sort();
    if v.is_empty() {
        "-".to_string()
    } else {
        v.join(",")
    }
}

type PM = PathMatcher<u32, ()>;

fn id_handler(id: u32) -> Box<HandleFn<u32, ()>> {
    Box::new(
        move |slot: &mut u32, _m: Matches, _msg: &MarshalledMessage, _env: &mut HandleEnvironment<u32, ()>| {
            *slot = id;
            Ok(None)
        },
    )
}

struct Probe {
    send: Arc<Mutex<SendConn>>,
    msg: MarshalledMessage,
    _peer: std::os::unix::net::UnixStream,
}

impl Probe {
    fn new() -> Probe {
        let (conn, peer) = rbverif::conn::connect_pair(false);
        Probe {
            send: Arc::new(Mutex::new(conn.send)),
            msg: MessageBuilder::new().call("M").on("/x").build(),
            _peer: peer,
        }
    }
    /// get_match, then call the handler it returned to learn which one it is
    fn query(&self, pm: &mut PM, q: &str) -> Option<(u32, String)> {
        match pm.get_match(q) {
            None => None,
            Some((matches, handler)) => {
                let caps = show_caps(&matches);
                let mut slot = 0u32;
                let mut env = HandleEnvironment {
                    conn: self.send.clone(),
                    new_dispatches: PathMatcher::new(),
                };
                let _ = handler(&mut slot, Matches::default(), &self.msg, &mut env);
                Some((slot, caps))
            }
        }
    }
}

fn utf8(h: &str) -> String {
    String::from_utf8(unhex(h)).expect("harness input must be UTF-8")
}

fn all_strings(segs: &[String], maxseg: usize) -> Vec<String> {
    let mut out = Vec::new();
    let mut cur: Vec<Vec<usize>> = vec![vec![]];
    for _ in 0..maxseg {
        let mut next = Vec::new();
        for c in &cur {
            for i in 0..segs.len() {
                let mut n = c.clone();
                n.push(i);
                next.push(n);
            }
        }
        for n in &next {
            out.push(n.iter().map(|&i| segs[i].as_str()).collect::<Vec<_>>().join("/"));
        }
        cur = next;
    }
    out
}

fn nontrivial(p: &str, q: &str) -> bool {
    let ps: Vec<&str> = p.split('/').collect();
    let qs: Vec<&str> = q.split('/').collect();
    qs.len() >= ps.len() && ps.iter().any(|s| s.starts_with(':') || *s == "*")
}

// ------------------------------------------------------------------ run
#[derive(Clone)]
struct Behaviour {
    res: char,
    body: String,
    newroutes: Vec<(String, u32)>,
    emit: u32,          // signals sent through env.conn before returning
    emit_relock: bool,  // lock/unlock around each one instead of once around all
}

const EMIT_INTERFACE: &str = "verif.Emit";
const RUN_DEADLINE: std::time::Duration = std::time::Duration::from_secs(20);

/// what the dispatch documentation describes for handlers that want to send something themselves:
/// lock env.conn, send_message(..)?.write_all(), unlock
fn emit_signals(env: &mut HandleEnvironment<Ctx, ()>, serial: u32, b: &Behaviour) -> Result<(), HandleError<()>> {
    let one = |conn: &mut SendConn, j: u32| -> Result<(), HandleError<()>> {
        let mut sig = MessageBuilder::new().signal(EMIT_INTERFACE, "E", "/verif/emit").build();
        sig.body.push_param(format!("{}.{}", serial, j).as_str())?;
        conn.send_message(&sig)?.write_all().map_err(|(_, e)| HandleError::Connection(e))?;
        Ok(())
    };
    if b.emit_relock {
        for j in 0..b.emit {
            let mut conn = env.conn.lock().unwrap();
            one(&mut conn, j)?;
        }
    } else if b.emit > 0 {
        let mut conn = env.conn.lock().unwrap();
        for j in 0..b.emit {
            one(&mut conn, j)?;
        }
    }
    Ok(())
}

struct Ctx {
    script: HashMap<u32, Behaviour>,
    log: Arc<Mutex<Vec<String>>>,
}

fn scripted(id: Option<u32>) -> Box<HandleFn<Ctx, ()>> {
    Box::new(
        move |ctx: &mut Ctx, matches: Matches, msg: &MarshalledMessage, env: &mut HandleEnvironment<Ctx, ()>| -> HandleResult<()> {
            let serial = msg.dynheader.serial.map(|s| s.get()).unwrap_or(0);
            ctx.log.lock().unwrap().push(format!(
                "{};{};{}",
                id.map(|i| i.to_string()).unwrap_or_else(|| "D".into()),
                serial,
                show_caps(&matches)
            ));
            let b = match ctx.script.get(&serial) {
                Some(b) => b.clone(),
                None => return Ok(None),
            };
            for (pat, hid) in &b.newroutes {
                env.new_dispatches.insert(pat, scripted(Some(*hid)));
            }
            emit_signals(env, serial, &b)?;
            match b.res {
                'S' => {
                    let mut r = msg.dynheader.make_response();
                    r.body.push_param(b.body.as_str()).unwrap();
                    Ok(Some(r))
                }
                'N' => Ok(None),
                _ => Err(HandleError::User(())),
            }
        },
    )
}

fn parse_routes(s: &str) -> Vec<(String, u32)> {
    if s == "-" {
        return Vec::new();
    }
    s.split(',')
        .map(|r| {
            let (p, id) = r.split_once(':').unwrap();
            (utf8(p), id.parse().unwrap())
        })
        .collect()
}

fn opt_bytes(s: &str) -> Option<Vec<u8>> {
    if s == "-" {
        None
    } else {
        Some(unhex(s))
    }
}

fn do_run(routes: &str, msgs: &str, hung: &mut bool) -> String {
    let routes = parse_routes(routes);
    let mut incoming = Vec::new();
    let mut script = HashMap::new();
    if msgs != "-" {
        for m in msgs.split('|') {
            let f: Vec<&str> = m.split(';').collect();
            let serial: u32 = f[0].parse().unwrap();
            incoming.push(Incoming {
                serial,
                kind: f[1].chars().next().unwrap(),
                object: opt_bytes(f[2]),
                sender: opt_bytes(f[3]),
                flags: f[7].parse().unwrap(),
                destination: opt_bytes(f[8]),
                body: opt_bytes(f[9]),
                big_endian: f[10] == "B",
            });
            script.insert(
                serial,
                Behaviour {
                    res: f[4].chars().next().unwrap(),
                    body: if f[5] == "-" { String::new() } else { utf8(f[5]) },
                    newroutes: parse_routes(f[6]),
                    emit: f.get(11).map(|e| e[1..].parse().unwrap()).unwrap_or(0),
                    emit_relock: f.get(11).map(|e| e.starts_with('p')).unwrap_or(false),
                },
            );
        }
    }
    let (conn, mut peer) = rbverif::conn::connect_pair(false);
    // everything the peer will ever send is queued before the dispatcher starts, then the peer's
    // writing side is closed: run() ends by itself, no timing involved
    for m in &incoming {
        peer.write_all(&encode(m)).unwrap();
    }
    peer.shutdown(std::net::Shutdown::Write).unwrap();
    let log = Arc::new(Mutex::new(Vec::new()));
    let log2 = log.clone();
    let (done_tx, done_rx) = std::sync::mpsc::channel::<String>();
    std::thread::spawn(move || {
        let ctx = Ctx { script, log: log2 };
        let mut dc = DispatchConn::new(conn, ctx, scripted(None));
        for (p, id) in &routes {
            dc.add_handler(p, scripted(Some(*id)));
        }
        // run() returns at every failing handler; the caller "may choose to just call this function
        // again": do so until the connection is closed, so that what a failed handler left behind
        // (its routes must be gone) is observable on the following messages
        let mut ends = Vec::new();
        loop {
            let e = match dc.run() {
                Ok(()) => "ok",
                Err((None, _)) => "conn",
                Err((Some(_), HandleError::User(()))) => "handler",
                Err((Some(_), _)) => "other",
            };
            ends.push(e);
            if e != "handler" || ends.len() > 64 {
                break;
            }
        }
        let _ = done_tx.send(ends.join(","));
    });
    // hang detector only: a run takes milliseconds. A thread that panicked drops its sender.
    let end = match done_rx.recv_timeout(RUN_DEADLINE) {
        Ok(e) => e,
        Err(std::sync::mpsc::RecvTimeoutError::Disconnected) => "panic".to_string(),
        Err(std::sync::mpsc::RecvTimeoutError::Timeout) => {
            // the dispatcher is stuck (its thread is abandoned) and still holds the connection: there will
            // be no end of stream, so take what has been written so far
            *hung = true;
            peer.set_read_timeout(Some(std::time::Duration::from_millis(500))).unwrap();
            "hang".to_string()
        }
    };
    // the connection is closed now: read what was written until end of stream
    let mut bytes = Vec::new();
    let mut chunk = [0u8; 4096];
    loop {
        match peer.read(&mut chunk) {
            Ok(0) => break,
            Ok(n) => bytes.extend_from_slice(&chunk[..n]),
            Err(e) if e.kind() == std::io::ErrorKind::Interrupted => continue,
            Err(_) => break, // ECONNRESET after the queued data: unread input at close
        }
    }
    // what the handlers sent themselves (marker interface) is listed apart, each with its position among
    // the messages run() wrote
    let mut emits = Vec::new();
    let replies = match decode_all(&bytes) {
        Some(v) => {
            let mut own = Vec::new();
            for s in &v {
                if s.interface.as_deref() == Some(EMIT_INTERFACE.as_bytes()) {
                    let l = get_u32(&s.body, 0).unwrap_or(0) as usize;
                    let txt = s.body.get(4..4 + l).map(hex).unwrap_or_else(|| "?".into());
                    emits.push(format!("{}@{}", txt, own.len()));
                } else {
                    own.push(show_seen(s));
                }
            }
            if own.is_empty() {
                "-".to_string()
            } else {
                own.join("|")
            }
        }
        None => format!("undecodable:{}", hex(&bytes)),
    };
    let log = log.lock().unwrap();
    format!(
        "log={} replies={} emits={} end={}",
        if log.is_empty() { "-".to_string() } else { log.join("|") },
        replies,
        if emits.is_empty() { "-".to_string() } else { emits.join("|") },
        end
    )
}

fn main() {
    std::panic::set_hook(Box::new(|_| {}));
    let stdin = std::io::stdin();
    let stdout = std::io::stdout();
    let mut out = std::io::BufWriter::new(stdout.lock());
    let mut probe: Option<Probe> = None;
    let mut hung = false;
    for line in stdin.lock().lines() {
        let line = line.unwrap();
        let parts: Vec<&str> = line.split(' ').collect();
        match parts.as_slice() {
            ["m", p, q] => {
                let pr = probe.get_or_insert_with(Probe::new);
                let mut pm: PM = PathMatcher::new();
                pm.insert(&utf8(p), id_handler(1));
                let r = match pr.query(&mut pm, &utf8(q)) {
                    Some((_, caps)) => format!("M:{}", caps),
                    None => "N".to_string(),
                };
                writeln!(out, "{} {} {}", p, q, r).unwrap();
            }
            ["mm", q, pats @ ..] => {
                let pr = probe.get_or_insert_with(Probe::new);
                let mut pm: PM = PathMatcher::new();
                for (i, p) in pats.iter().enumerate() {
                    pm.insert(&utf8(p), id_handler(i as u32 + 1));
                }
                let r = match pr.query(&mut pm, &utf8(q)) {
                    Some((id, caps)) => format!("H:{}:{}", id, caps),
                    None => "N".to_string(),
                };
                writeln!(out, "{}", r).unwrap();
            }
            ["enum", segs, maxseg, shard, n] => {
                let pr = probe.get_or_insert_with(Probe::new);
                let segs: Vec<String> = segs.split(',').map(utf8).collect();
                let maxseg: usize = maxseg.parse().unwrap();
                let shard: usize = shard.parse().unwrap();
                let n: usize = n.parse().unwrap();
                let strings = all_strings(&segs, maxseg);
                let (mut total, mut matched, mut nt) = (0u64, 0u64, 0u64);
                for (i, p) in strings.iter().enumerate() {
                    if i % n != shard {
                        continue;
                    }
                    let mut pm: PM = PathMatcher::new();
                    pm.insert(p, id_handler(1));
                    for q in &strings {
                        total += 1;
                        if nontrivial(p, q) {
                            nt += 1;
                        }
                        if let Some((_, caps)) = pr.query(&mut pm, q) {
                            matched += 1;
                            writeln!(out, "{} {} M:{}", hex(p.as_bytes()), hex(q.as_bytes()), caps).unwrap();
                        }
                    }
                }
                writeln!(out, "total {} matched {} nontrivial {}", total, matched, nt).unwrap();
            }
            ["run", routes, msgs] => {
                // one stuck dispatcher is a verdict; do not spend the deadline on every following line
                let r = if hung {
                    "log=- replies=- emits=- end=skipped".to_string()
                } else {
                    do_run(routes, msgs, &mut hung)
                };
                writeln!(out, "{}", r).unwrap();
            }
            _ => writeln!(out, "?").unwrap(),
        }
    }
    out.flush().unwrap();
    rbverif::conn::cleanup_scratch();
}
