//! C11 harness: histories of descriptor / handle / message-body / connection operations against the
//! real crate, with an audit of the process's descriptor table after EVERY operation.
//!
//! stdin line = operations separated by ';' (the syntax ocaml/c11/driver.ml reads):
//!   O  open a new file (alternating: read end of a fresh pipe / fresh unlinked temp file)
//!   K<c> close the caller's descriptor slot c     W<c> UnixFd::new(slot c)      B  new message (native little endian)
//!   Bb new message built with MessageBuilder::with_byteorder(BigEndian): every index the marshallers store in its
//!        body, UNIX_FDS and the whole header are big endian on this little-endian host
//!   P<b>:<shape>:<items>  one push call on body b; items = comma separated h<n> (UnixFd variable n) |
//!        r<n> (&dyn AsRawFd on slot n) | x (an element whose marshal fails); shape:
//!        s push_param(item) | t push_param(tuple: (u64,i) / (i,u64,i) / (i,i,i)) | v push_param(Vec<item>)
//!        | m push_param(HashMap<String,item>) | n push_param(Vec<(u64,item)>) | p push_params(&[item])
//!        | q push_param2..5 | g push_param((&[u8; 300000], item)) | o push_old_param(Param) (single UnixFd)
//!        | w push_variant(item) | z push_param(Vec<Variant<item>>)
//!   R<b> reset   D<b> drop body   S<b>[:hdr|:bnd] conn.send.send_message(&msg), then write_once(Nonblock) while the
//!        peer is not reading, peer reads, write resumed, ... ; the peer reads the message off the raw socket (recvmsg,
//!        room for 253 descriptors per call, EVERY descriptor of every call kept) and keeps it "in flight".
//!        :hdr = send buffer shrunk to the kernel minimum and a 40 kB object path, so the first write ends inside the
//!        header; :bnd = header sized so that the first write ends exactly at the header/body boundary
//!   I<cs>:<idxs>[:b]  the peer crafts a message (signature hhh.., indices idxs) carrying dups of slots cs
//!        (:b = a big-endian frame: header, UNIX_FDS and the `h` indices in big endian)
//!   V  the peer writes the oldest in-flight message (descriptors attached to the first sendmsg) while
//!        conn.recv.get_next_message() runs; the received message becomes a new body
//!   U<b>:<idx>  UnmarshalContext::new(body.get_fds(), ..).read_unixfd via <UnixFd as Unmarshal> on bytes holding idx
//!   A<b>:<j>    the j-th descriptor stored in the body's bytes, through body.parser() and the typed API
//!   G<b>:<k>    the dynamic API: body.parser().get_param() over the leading params holding at most the first k stored
//!               descriptors (rounded down to a param boundary, reported as "slots"); the descriptors are moved out of the
//!               decoded Param trees (arrays, structs, dict entries, variants) into variables of the caller
//!   M<b>        msg.unmarshall_all() (consumes the message; Message.raw_fds is put back into an equal body on success)
//!   Z<f|p>[b]:<cs>  (last op; b = big-endian frame) a frame with descriptors that cannot be delivered (bad header field / non-zero padding),
//!               then the connection is dropped; not part of the model: judged by the audit alone
//!   C<h> clone   Y<h> dup   T<h> take_raw_fd   X<h> drop
//! Operations naming something that does not exist are skipped ("invalid"), as in the model.
//!
//! stdout line = JSON {"ops":[..],"final":{..}}; per operation: result, the permutation a HashMap
//! imposed on the items ("ord"), every close the library performed (verif_hooks shim: real close,
//! logged with its result), every open descriptor that was not open when the history started (and is
//! not an in-flight copy held by the peer) with its fstat identity, and the descriptor numbers behind
//! every caller slot, handle variable, body list (get_fds) plus the indices stored in the body bytes
//! (read back by an independent walker over signature+bytes) and UNIX_FDS as wire::marshal::marshal
//! writes it. "final": after dropping everything the harness still holds, what is still open.
use nix::sys::socket::{recvmsg, sendmsg, ControlMessage, ControlMessageOwned, MsgFlags};
use rustbus::connection::ll_conn::DuplexConn;
use rustbus::connection::Timeout;
use rustbus::message_builder::{MarshalledMessage, MessageBuilder};
use rustbus::params::{Base, Param};
use rustbus::wire::marshal::traits::SignatureBuffer;
use rustbus::wire::marshal::MarshalContext;
use rustbus::wire::unmarshal_context::UnmarshalContext;
use rustbus::wire::UnixFd;
use rustbus::{ByteOrder, Marshal, Signature, Unmarshal};
use std::collections::{BTreeMap, BTreeSet, HashMap, VecDeque};
use std::io::{IoSlice, IoSliceMut};
use std::num::NonZeroU32;
use std::os::unix::io::{AsRawFd, RawFd};
use std::os::unix::net::UnixStream;
use std::sync::{Arc, Mutex};
use std::time::Duration;

const BIG: usize = 300_000;
const HANG: Duration = Duration::from_secs(30);

static CLOSE_LOG: Mutex<Vec<(RawFd, bool)>> = Mutex::new(Vec::new());

fn logging_close(fd: RawFd) -> Result<(), nix::errno::Errno> {
    let r = nix::unistd::close(fd);
    CLOSE_LOG.lock().unwrap().push((fd, r.is_ok()));
    r
}

// ---------------------------------------------------------------- the value that is pushed

struct RawWrap(RawFd);
impl AsRawFd for RawWrap {
    fn as_raw_fd(&self) -> RawFd {
        self.0
    }
}

enum Item<'a> {
    H(&'a UnixFd),
    R(RawWrap),
    Bad,
}
impl Signature for Item<'_> {
    fn signature() -> rustbus::signature::Type {
        UnixFd::signature()
    }
    fn alignment() -> usize {
        UnixFd::alignment()
    }
    fn sig_str(s: &mut SignatureBuffer) {
        UnixFd::sig_str(s)
    }
    fn has_sig(sig: &str) -> bool {
        UnixFd::has_sig(sig)
    }
}
impl Marshal for Item<'_> {
    fn marshal(&self, ctx: &mut MarshalContext) -> Result<(), rustbus::wire::errors::MarshalError> {
        match self {
            Item::H(u) => u.marshal(ctx),
            Item::R(w) => {
                let d: &dyn AsRawFd = w;
                <&dyn AsRawFd as Marshal>::marshal(&d, ctx)
            }
            Item::Bad => {
                // a string with an embedded NUL is refused by the typed marshaller
                "a\0b".marshal(ctx)?;
                Err(rustbus::wire::errors::MarshalError::EmptyUnixFd)
            }
        }
    }
}

#[derive(Clone, Copy, Debug)]
enum It {
    H(usize),
    R(usize),
    Bad,
}

#[derive(Clone, Debug)]
struct ShapeRec {
    shape: char,
    n: usize,
    ord: Vec<usize>, // wire position -> item index (identity unless a map)
}

struct BodyRec {
    msg: MarshalledMessage,
    shapes: Option<Vec<ShapeRec>>, // None: flat "hhh.." body crafted by the peer
}

struct Transit {
    bytes: Vec<u8>,
    fds: Vec<RawFd>,
    shapes: Option<Vec<ShapeRec>>,
    idx: Vec<u32>,
}

struct World {
    conn: Option<DuplexConn>, // None once the history dropped it (Z)
    peer: UnixStream,
    baseline: BTreeSet<RawFd>,
    cfds: Vec<Option<RawFd>>,
    hnd: Vec<Option<UnixFd>>,
    bods: Vec<Option<BodyRec>>,
    wire: VecDeque<Transit>,
    opens: usize,
}

// ---------------------------------------------------------------- audit

fn open_fds() -> BTreeMap<RawFd, String> {
    let mut nums = Vec::new();
    if let Ok(rd) = std::fs::read_dir("/proc/self/fd") {
        for e in rd.flatten() {
            if let Some(n) = e.file_name().to_str().and_then(|s| s.parse::<RawFd>().ok()) {
                nums.push(n);
            }
        }
    }
    // the directory stream's own descriptor is closed by now: fstat fails on it
    let mut out = BTreeMap::new();
    for n in nums {
        if let Ok(st) = nix::sys::stat::fstat(n) {
            out.insert(n, format!("{}:{}", st.st_dev, st.st_ino));
        }
    }
    out
}

fn ident(fd: RawFd) -> String {
    match nix::sys::stat::fstat(fd) {
        Ok(st) => format!("{}:{}", st.st_dev, st.st_ino),
        Err(_) => "closed".to_string(),
    }
}

// ---------------------------------------------------------------- independent reader for the indices

fn align(off: &mut usize, a: usize) {
    let r = *off % a;
    if r != 0 {
        *off += a - r;
    }
}
fn rd_u32(buf: &[u8], off: usize, bo: ByteOrder) -> Option<u32> {
    let b: [u8; 4] = buf.get(off..off + 4)?.try_into().ok()?;
    Some(match bo {
        ByteOrder::LittleEndian => u32::from_le_bytes(b),
        ByteOrder::BigEndian => u32::from_be_bytes(b),
    })
}
fn alignment_of(c: u8) -> usize {
    match c {
        b'y' => 1,
        b't' | b'(' | b'{' => 8,
        b'v' => 1,
        _ => 4,
    }
}
/// end (exclusive) of the single complete type starting at sig[i]
fn type_end(sig: &[u8], i: usize) -> usize {
    match sig[i] {
        b'a' => type_end(sig, i + 1),
        b'(' | b'{' => {
            let mut j = i + 1;
            while sig[j] != b')' && sig[j] != b'}' {
                j = type_end(sig, j);
            }
            j + 1
        }
        _ => i + 1,
    }
}
/// walk one complete type at sig[si..], collecting the u32 stored at every 'h'
fn walk(sig: &[u8], si: usize, buf: &[u8], off: &mut usize, bo: ByteOrder, out: &mut Vec<u32>, offs: &mut Vec<usize>) -> Option<()> {
    match sig[si] {
        b'y' => *off += 1,
        b't' => {
            align(off, 8);
            *off += 8
        }
        b'h' => {
            align(off, 4);
            out.push(rd_u32(buf, *off, bo)?);
            offs.push(*off);
            *off += 4
        }
        b'u' => {
            align(off, 4);
            *off += 4
        }
        b's' => {
            align(off, 4);
            let l = rd_u32(buf, *off, bo)? as usize;
            *off += 4 + l + 1
        }
        b'a' => {
            align(off, 4);
            let l = rd_u32(buf, *off, bo)? as usize;
            *off += 4;
            align(off, alignment_of(sig[si + 1]));
            let end = *off + l;
            if sig[si + 1] == b'y' {
                *off = end;
            } else {
                while *off < end {
                    walk(sig, si + 1, buf, off, bo, out, offs)?;
                }
            }
        }
        b'(' | b'{' => {
            align(off, 8);
            let mut j = si + 1;
            while sig[j] != b')' && sig[j] != b'}' {
                walk(sig, j, buf, off, bo, out, offs)?;
                j = type_end(sig, j);
            }
        }
        b'v' => {
            // signature (u8 length, text, NUL), then the value
            let l = *buf.get(*off)? as usize;
            let inner = buf.get(*off + 1..*off + 1 + l)?.to_vec();
            *off += 1 + l + 1;
            if inner.is_empty() {
                return None;
            }
            walk(&inner, 0, buf, off, bo, out, offs)?;
        }
        _ => return None,
    }
    if *off > buf.len() {
        return None;
    }
    Some(())
}
/// indices stored in the body, start offset of every top-level param, descriptor slots per top-level param
fn body_layout3(msg: &MarshalledMessage) -> Option<(Vec<u32>, Vec<usize>, Vec<usize>)> {
    body_layout4(msg).map(|x| (x.0, x.1, x.2))
}
/// ... and the byte offset of every stored descriptor index
fn body_layout4(msg: &MarshalledMessage) -> Option<(Vec<u32>, Vec<usize>, Vec<usize>, Vec<usize>)> {
    let sig = msg.get_sig().as_bytes();
    let buf = msg.get_buf();
    let bo = msg.body.byteorder();
    let mut out = Vec::new();
    let mut starts = Vec::new();
    let mut per = Vec::new();
    let mut offs = Vec::new();
    let mut off = 0;
    let mut si = 0;
    while si < sig.len() {
        starts.push(off);
        let before = out.len();
        walk(sig, si, buf, &mut off, bo, &mut out, &mut offs)?;
        per.push(out.len() - before);
        si = type_end(sig, si);
    }
    Some((out, starts, per, offs))
}
fn body_layout(msg: &MarshalledMessage) -> Option<(Vec<u32>, Vec<usize>)> {
    let sig = msg.get_sig().as_bytes();
    let buf = msg.get_buf();
    let bo = msg.body.byteorder();
    let mut out = Vec::new();
    let mut starts = Vec::new();
    let mut off = 0;
    let mut si = 0;
    while si < sig.len() {
        starts.push(off);
        walk(sig, si, buf, &mut off, bo, &mut out, &mut Vec::new())?;
        si = type_end(sig, si);
    }
    Some((out, starts))
}
fn body_indices(msg: &MarshalledMessage) -> Option<Vec<u32>> {
    body_layout(msg).map(|x| x.0)
}

/// UNIX_FDS as wire::marshal::marshal writes it for this message (0 = field absent), read back with
/// the crate's own header decoder
fn unix_fds_header(msg: &MarshalledMessage) -> i64 {
    let mut buf = Vec::new();
    if rustbus::wire::marshal::marshal(msg, NonZeroU32::MIN, &mut buf).is_err() {
        return -1;
    }
    header_fds(&buf).unwrap_or(-2)
}
fn header_fds(bytes: &[u8]) -> Option<i64> {
    let mut cur = rustbus::wire::unmarshal_context::Cursor::new(bytes);
    let h = rustbus::wire::unmarshal::unmarshal_header(&mut cur).ok()?;
    let d = rustbus::wire::unmarshal::unmarshal_dynamic_header(&h, &mut cur).ok()?;
    Some(d.num_fds.unwrap_or(0) as i64)
}

// ---------------------------------------------------------------- printing

fn jlist<T, F: Fn(&T) -> String>(v: &[T], f: F) -> String {
    format!("[{}]", v.iter().map(f).collect::<Vec<_>>().join(","))
}

fn snapshot(w: &World) -> String {
    let mut open = open_fds();
    for b in &w.baseline {
        open.remove(b);
    }
    for t in &w.wire {
        for f in &t.fds {
            open.remove(f);
        }
    }
    let open_s = format!(
        "[{}]",
        open.iter().map(|(f, id)| format!("[{},\"{}\"]", f, id)).collect::<Vec<_>>().join(",")
    );
    let cfds = jlist(&w.cfds, |c| match c {
        Some(f) => f.to_string(),
        None => "null".to_string(),
    });
    let hnd = jlist(&w.hnd, |h| match h {
        Some(u) => u.get_raw_fd().unwrap_or(-1).to_string(),
        None => "null".to_string(),
    });
    let bods = jlist(&w.bods, |b| match b {
        Some(br) => {
            let fds = jlist(br.msg.body.get_fds(), |u| u.get_raw_fd().unwrap_or(-1).to_string());
            let idx = match body_indices(&br.msg) {
                Some(v) => jlist(&v, |x| x.to_string()),
                None => "\"unreadable\"".to_string(),
            };
            format!("{{\"fds\":{},\"idx\":{},\"hdr\":{}}}", fds, idx, unix_fds_header(&br.msg))
        }
        None => "null".to_string(),
    });
    let wire = format!(
        "[{}]",
        w.wire
            .iter()
            .map(|t| {
                format!(
                    "{{\"ids\":{},\"idx\":{}}}",
                    jlist(&t.fds, |f| format!("\"{}\"", ident(*f))),
                    jlist(&t.idx, |x| x.to_string())
                )
            })
            .collect::<Vec<_>>()
            .join(",")
    );
    format!("\"open\":{},\"cfds\":{},\"hnd\":{},\"bods\":{},\"wire\":{}", open_s, cfds, hnd, bods, wire)
}

// ---------------------------------------------------------------- operations

fn new_file(w: &mut World) -> RawFd {
    w.opens += 1;
    if w.opens % 2 == 1 {
        let (r, wr) = nix::unistd::pipe().expect("pipe");
        use std::os::fd::IntoRawFd;
        let wr = wr.into_raw_fd();
        let _ = nix::unistd::close(wr);
        r.into_raw_fd()
    } else {
        let dir = rbverif::conn::scratch_dir();
        let p = dir.join(format!("f{}_{}", std::process::id(), w.opens));
        let f = std::fs::File::create(&p).expect("temp file");
        let _ = std::fs::remove_file(&p);
        use std::os::fd::IntoRawFd;
        f.into_raw_fd()
    }
}

fn parse_items(s: &str) -> Option<Vec<It>> {
    let s = s.trim();
    if s == "-" || s.is_empty() {
        return Some(vec![]);
    }
    let mut v = Vec::new();
    for x in s.split(',') {
        let x = x.trim();
        v.push(match x.as_bytes().first()? {
            b'h' => It::H(x[1..].parse().ok()?),
            b'r' => It::R(x[1..].parse().ok()?),
            b'x' => It::Bad,
            _ => return None,
        });
    }
    Some(v)
}

fn parse_nums<T: std::str::FromStr>(s: &str) -> Option<Vec<T>> {
    let s = s.trim();
    if s == "-" || s.is_empty() {
        return Some(vec![]);
    }
    s.split(',').map(|x| x.trim().parse::<T>().ok()).collect()
}

fn do_push(w: &mut World, b: usize, shape: char, its: &[It]) -> String {
    if w.bods.get(b).map(|x| x.is_none()).unwrap_or(true) {
        return "\"res\":\"invalid\"".into();
    }
    for it in its {
        let ok = match *it {
            It::H(h) => w.hnd.get(h).map(|x| x.is_some()).unwrap_or(false),
            It::R(c) => w.cfds.get(c).map(|x| x.is_some()).unwrap_or(false),
            It::Bad => true,
        };
        if !ok {
            return "\"res\":\"invalid\"".into();
        }
    }
    let hnd = &w.hnd;
    let cfds = &w.cfds;
    let mk = |it: &It| -> Item {
        match *it {
            It::H(h) => Item::H(hnd[h].as_ref().unwrap()),
            It::R(c) => Item::R(RawWrap(cfds[c].unwrap())),
            It::Bad => Item::Bad,
        }
    };
    let n = its.len();
    let mut ord: Vec<usize> = (0..n).collect();
    let br = w.bods[b].as_mut().unwrap();
    let body = &mut br.msg.body;
    let before = body.get_fds().len();
    let mut shape = shape;
    let r = match shape {
        's' if n == 1 => body.push_param(mk(&its[0])),
        't' if n == 1 => body.push_param((7u64, mk(&its[0]))),
        't' if n == 2 => body.push_param((mk(&its[0]), 7u64, mk(&its[1]))),
        't' if n == 3 => body.push_param((mk(&its[0]), mk(&its[1]), mk(&its[2]))),
        'g' if n == 1 => {
            let big = vec![0u8; BIG];
            body.push_param((&big[..], mk(&its[0])))
        }
        'o' if n == 1 && matches!(its[0], It::H(_)) => {
            let h = match its[0] {
                It::H(h) => h,
                _ => unreachable!(),
            };
            // the old API owns its values: a clone of the variable (dropped again right after the call)
            let p = Param::Base(Base::UnixFd(hnd[h].as_ref().unwrap().clone()));
            body.push_old_param(&p)
        }
'w' if n == 1 => body.push_variant(mk(&its[0])),
        'z' => {
            let v: Vec<rustbus::wire::marshal::traits::Variant<Item>> =
                its.iter().map(|it| rustbus::wire::marshal::traits::Variant(mk(it))).collect();
            body.push_param(&v)
        }
        'm' => {
            let mut m: HashMap<String, Item> = HashMap::new();
            for (i, it) in its.iter().enumerate() {
                m.insert(format!("k{}", i), mk(it));
            }
            ord = m.keys().map(|k| k[1..].parse::<usize>().unwrap()).collect();
            body.push_param(&m)
        }
        'n' => {
            let v: Vec<(u64, Item)> = its.iter().map(|it| (9u64, mk(it))).collect();
            body.push_param(&v)
        }
        'p' => {
            let v: Vec<Item> = its.iter().map(mk).collect();
            body.push_params(&v)
        }
        'q' if n == 2 => body.push_param2(mk(&its[0]), mk(&its[1])),
        'q' if n == 3 => body.push_param3(mk(&its[0]), mk(&its[1]), mk(&its[2])),
        'q' if n == 4 => body.push_param4(mk(&its[0]), mk(&its[1]), mk(&its[2]), mk(&its[3])),
        'q' if n == 5 => body.push_param5(mk(&its[0]), mk(&its[1]), mk(&its[2]), mk(&its[3]), mk(&its[4])),
        _ => {
            shape = 'v';
            let v: Vec<Item> = its.iter().map(mk).collect();
            body.push_param(&v)
        }
    };
    match r {
        Ok(()) => {
            if let Some(sh) = br.shapes.as_mut() {
                sh.push(ShapeRec { shape, n, ord: ord.clone() });
            }
            let idx = body_indices(&br.msg).unwrap_or_default();
            let added: Vec<String> = idx.iter().skip(idx.len().saturating_sub(n)).map(|x| x.to_string()).collect();
            let _ = before;
            format!(
                "\"res\":\"pushed:{}\",\"ord\":{}",
                added.join(","),
                jlist(&ord, |x| x.to_string())
            )
        }
        Err(_) => format!("\"res\":\"err\",\"ord\":{}", jlist(&ord, |x| x.to_string())),
    }
}

/// `abort`: set by the writing side when it gave up; the reader then stops waiting for more bytes
fn recv_all(peer: &UnixStream, total: usize, abort: Option<&std::sync::atomic::AtomicBool>) -> Result<(Vec<u8>, Vec<RawFd>), String> {
    let mut bytes = Vec::with_capacity(total);
    let mut fds = Vec::new();
    let mut cm = nix::cmsg_space!([RawFd; 253]);
    let mut buf = vec![0u8; 65536];
    peer.set_read_timeout(Some(HANG)).ok();
    while bytes.len() < total {
        if let Some(flag) = abort {
            use std::os::fd::AsFd;
            let mut pfd = [nix::poll::PollFd::new(peer.as_fd(), nix::poll::PollFlags::POLLIN)];
            let ready = nix::poll::poll(&mut pfd, nix::poll::PollTimeout::from(100u8)).unwrap_or(0);
            if ready == 0 {
                if flag.load(std::sync::atomic::Ordering::SeqCst) {
                    for f in fds {
                        let _ = nix::unistd::close(f);
                    }
                    return Err("the writer gave up".into());
                }
                continue;
            }
        }
        let want = std::cmp::min(buf.len(), total - bytes.len());
        cm.clear();
        let mut iov = [IoSliceMut::new(&mut buf[..want])];
        let m = recvmsg::<()>(peer.as_raw_fd(), &mut iov, Some(&mut cm), MsgFlags::empty())
            .map_err(|e| format!("peer recvmsg: {}", e))?;
        let n = m.bytes;
        for c in m.cmsgs() {
            if let ControlMessageOwned::ScmRights(r) = c {
                fds.extend(r);
            }
        }
        if n == 0 {
            return Err("peer: connection closed".into());
        }
        bytes.extend_from_slice(&buf[..n]);
    }
    Ok((bytes, fds))
}

fn send_all(peer: &UnixStream, bytes: &[u8], fds: &[RawFd]) -> Result<(), String> {
    let mut sent = 0;
    peer.set_write_timeout(Some(HANG)).ok();
    while sent < bytes.len() {
        let iov = [IoSlice::new(&bytes[sent..])];
        let n = if sent == 0 && !fds.is_empty() {
            sendmsg::<()>(peer.as_raw_fd(), &iov, &[ControlMessage::ScmRights(fds)], MsgFlags::empty(), None)
        } else {
            sendmsg::<()>(peer.as_raw_fd(), &iov, &[], MsgFlags::empty(), None)
        }
        .map_err(|e| format!("peer sendmsg: {}", e))?;
        sent += n;
    }
    Ok(())
}

/// one recvmsg on the peer's end: whatever is there (at least one byte), with its descriptors
fn recv_some(peer: &UnixStream, max: usize) -> Result<(Vec<u8>, Vec<RawFd>), String> {
    let mut cm = nix::cmsg_space!([RawFd; 253]);
    let mut buf = vec![0u8; max];
    peer.set_read_timeout(Some(HANG)).ok();
    let mut iov = [IoSliceMut::new(&mut buf[..])];
    let m = recvmsg::<()>(peer.as_raw_fd(), &mut iov, Some(&mut cm), MsgFlags::empty())
        .map_err(|e| format!("peer recvmsg: {}", e))?;
    let n = m.bytes;
    let mut fds = Vec::new();
    for c in m.cmsgs() {
        if let ControlMessageOwned::ScmRights(r) = c {
            fds.extend(r);
        }
    }
    if n == 0 {
        return Err("peer: connection closed".into());
    }
    buf.truncate(n);
    Ok((buf, fds))
}

fn sndbuf(fd: RawFd) -> usize {
    let b = unsafe { std::os::fd::BorrowedFd::borrow_raw(fd) };
    nix::sys::socket::getsockopt(&b, nix::sys::socket::sockopt::SndBuf).unwrap_or(0)
}
fn set_sndbuf(fd: RawFd, v: usize) {
    let b = unsafe { std::os::fd::BorrowedFd::borrow_raw(fd) };
    let _ = nix::sys::socket::setsockopt(&b, nix::sys::socket::sockopt::SndBuf, &v);
}

#[derive(Clone, Copy, PartialEq)]
enum SendMode {
    Plain,
    /// the header is made larger than the (shrunk) socket send buffer: the first write_once ends inside
    /// the header while the peer is not reading; every later write is a resumed write
    Header,
    /// like Header, but the header is made exactly as long as what the first write_once gets accepted, so
    /// the first write ends exactly at the header/body boundary
    Boundary,
}

/// what a first nonblocking write gets accepted on the (shrunk) empty socket: a calibration message
/// without descriptors, read and discarded by the peer (not part of the history)
fn calibrate_first_write(w: &mut World) -> Option<usize> {
    let mut m = MessageBuilder::new()
        .signal("io.verif.C11", "Cal", format!("/{}", "c".repeat(100_000)))
        .build();
    m.dynheader.serial = NonZeroU32::new(78);
    let mut hdr = Vec::new();
    rustbus::wire::marshal::marshal(&m, NonZeroU32::new(78).unwrap(), &mut hdr).ok()?;
    let total = hdr.len() + m.get_buf().len();
    let mut ctx = w.conn.as_mut()?.send.send_message(&m).ok()?;
    let first = ctx.write_once(Timeout::Nonblock).ok()?;
    let mut got = 0;
    let mut guard = 0;
    while !ctx.all_bytes_written() {
        guard += 1;
        if guard > 1_000_000 {
            ctx.force_finish();
            return None;
        }
        match ctx.write_once(Timeout::Nonblock) {
            Ok(_) => {}
            Err(rustbus::connection::Error::IoError(e)) if e.kind() == std::io::ErrorKind::WouldBlock => match recv_some(&w.peer, 65536) {
                Ok((b, f)) => {
                    got += b.len();
                    for x in f {
                        let _ = nix::unistd::close(x);
                    }
                }
                Err(_) => {
                    ctx.force_finish();
                    return None;
                }
            },
            Err(_) => {
                ctx.force_finish();
                return None;
            }
        }
    }
    drop(ctx);
    if got < total {
        recv_all(&w.peer, total - got, None).ok()?;
    }
    Some(first)
}

fn do_send(w: &mut World, b: usize, mode: SendMode) -> String {
    if w.bods.get(b).map(|x| x.is_none()).unwrap_or(true) {
        return "\"res\":\"invalid\"".into();
    }
    let Some(conn) = w.conn.as_ref() else { return "\"res\":\"invalid\"".into() };
    let sfd = conn.send.as_raw_fd();
    let old_sndbuf = sndbuf(sfd);
    let old_path = w.bods[b].as_ref().unwrap().msg.dynheader.object.clone();
    if mode != SendMode::Plain {
        set_sndbuf(sfd, 1); // the kernel clamps this to its minimum
        let path_len = if mode == SendMode::Boundary {
            // header length as a function of the path length: measured on this very message
            let first = calibrate_first_write(w);
            let probe = |w: &mut World, n: usize| -> usize {
                let br = w.bods[b].as_mut().unwrap();
                br.msg.dynheader.object = Some(format!("/{}", "p".repeat(n)));
                let mut h = Vec::new();
                let s = br.msg.dynheader.serial.unwrap_or(NonZeroU32::MIN);
                let _ = rustbus::wire::marshal::marshal(&br.msg, s, &mut h);
                h.len()
            };
            match first {
                Some(k) if k >= 1024 => {
                    // the header is padded to 8: try the path lengths around the target until it fits exactly
                    let base = probe(w, 512);
                    let mut found = None;
                    for n in (512 + k.saturating_sub(base)).saturating_sub(16)..(512 + k.saturating_sub(base) + 16) {
                        if probe(w, n) == k {
                            found = Some(n);
                            break;
                        }
                    }
                    found.unwrap_or(40_000)
                }
                _ => 40_000,
            }
        } else {
            40_000
        };
        w.bods[b].as_mut().unwrap().msg.dynheader.object = Some(format!("/{}", "p".repeat(path_len)));
    }
    let r = do_send_inner(w, b);
    if mode != SendMode::Plain {
        w.bods[b].as_mut().unwrap().msg.dynheader.object = old_path;
        set_sndbuf(sfd, old_sndbuf / 2); // the kernel doubles the value it is given
    }
    r
}

fn do_send_inner(w: &mut World, b: usize) -> String {
    let Some(Some(br)) = w.bods.get(b) else { return "\"res\":\"invalid\"".into() };
    let msg = &br.msg;
    let mut hdr = Vec::new();
    let serial = msg.dynheader.serial.unwrap_or(NonZeroU32::MIN);
    if rustbus::wire::marshal::marshal(msg, serial, &mut hdr).is_err() {
        return "\"res\":\"err\"".into();
    }
    let hdrlen = hdr.len();
    let total = hdr.len() + msg.get_buf().len();
    let Some(conn) = w.conn.as_mut() else { return "\"res\":\"invalid\"".into() };
    let send = &mut conn.send;
    let peer = &w.peer;
    // One thread: write_once(Nonblock) while the peer is not reading, until the socket buffer is full;
    // then the peer reads what is there, and the write is resumed; and so on. A message (or a header)
    // larger than the socket buffer therefore takes several sendmsg calls, all but the first resumed.
    // The peer keeps EVERY descriptor any of its recvmsg calls delivers.
    let mut bytes: Vec<u8> = Vec::with_capacity(total);
    let mut fds: Vec<RawFd> = Vec::new();
    let mut first: Option<usize> = None;
    let mut writes = 0usize;
    let wres: Result<(), String> = match send.send_message(msg) {
        Err(e) => Err(format!("{:?}", e)),
        Ok(mut ctx) => {
            let mut r = Ok(());
            let mut spins = 0u32;
            loop {
                match ctx.write_once(Timeout::Nonblock) {
                    Ok(k) => {
                        if first.is_none() {
                            first = Some(k);
                        }
                        if k > 0 {
                            writes += 1;
                        }
                        if ctx.all_bytes_written() {
                            break;
                        }
                    }
                    Err(rustbus::connection::Error::IoError(e)) if e.kind() == std::io::ErrorKind::WouldBlock => {
                        if first.is_none() {
                            first = Some(0);
                        }
                        spins += 1;
                        if bytes.len() >= total || spins > 1_000_000 {
                            r = Err("socket full although the peer has read everything".to_string());
                            break;
                        }
                        match recv_some(peer, std::cmp::min(65536, total - bytes.len())) {
                            Ok((b, f)) => {
                                bytes.extend_from_slice(&b);
                                fds.extend(f);
                            }
                            Err(e) => {
                                r = Err(e);
                                break;
                            }
                        }
                    }
                    Err(e) => {
                        r = Err(format!("{:?}", e));
                        break;
                    }
                }
            }
            if r.is_err() {
                ctx.force_finish();
            }
            r
        }
    };
    let rres = if wres.is_ok() {
        let rest = total - bytes.len();
        match recv_all(peer, rest, None) {
            Ok((b, f)) => {
                bytes.extend_from_slice(&b);
                fds.extend(f);
                Ok((bytes, fds))
            }
            Err(e) => Err(e),
        }
    } else {
        for f in fds.drain(..) {
            let _ = nix::unistd::close(f);
        }
        Err("not sent".to_string())
    };
    let sched = format!(",\"first\":{},\"hdrlen\":{},\"writes\":{}", first.map(|x| x as i64).unwrap_or(-1), hdrlen, writes);
    match (wres, rres) {
        (Ok(()), Ok((bytes, fds))) => {
            let h = header_fds(&bytes).unwrap_or(-2);
            let n = fds.len();
            let idx = body_indices(msg).unwrap_or_default();
            w.wire.push_back(Transit { bytes, fds, shapes: br.shapes.clone(), idx });
            format!("\"res\":\"sent:{}:{}\"{}", h, n, sched)
        }
        (Ok(()), Err(e)) => format!("\"res\":\"HARNESS {}\"", e),
        (Err(e), r) => {
            if let Ok((_, fds)) = r {
                for f in fds {
                    let _ = nix::unistd::close(f);
                }
            }
            format!("\"res\":\"err\",\"detail\":\"{}\"", e.replace('"', "'"))
        }
    }
}

fn bo_of(big: bool) -> ByteOrder {
    if big {
        ByteOrder::BigEndian
    } else {
        ByteOrder::LittleEndian
    }
}

fn do_inject(w: &mut World, cs: &[usize], idxs: &[u32], big: bool) -> String {
    for c in cs {
        if w.cfds.get(*c).map(|x| x.is_none()).unwrap_or(true) {
            return "\"res\":\"invalid\"".into();
        }
    }
    if cs.len() > 253 {
        return "\"res\":\"err\"".into();
    }
    // the peer's own copies travel; the caller keeps its descriptors
    let mut fds = Vec::new();
    for c in cs {
        match nix::unistd::dup(w.cfds[*c].unwrap()) {
            Ok(f) => fds.push(f),
            Err(e) => return format!("\"res\":\"HARNESS dup {}\"", e),
        }
    }
    // a signal whose body is the indices as 'h' values; built with the crate's builder on a scratch
    // body (u32 values under the signature "uuu.."), then re-labelled as descriptors
    let mut m = MessageBuilder::with_byteorder(bo_of(big)).signal("io.verif.C11", "Inj", "/io/verif").build();
    m.dynheader.serial = NonZeroU32::new(77);
    for i in idxs {
        m.body.push_param(*i).unwrap();
    }
    let bo = m.body.byteorder();
    let bodybytes = m.get_buf().to_vec();
    let sig: String = "h".repeat(idxs.len());
    let clones: Vec<UnixFd> = Vec::new();
    m.body = rustbus::message_builder::MarshalledMessageBody::from_parts(bodybytes.clone(), 0, clones, sig, bo);
    m.dynheader.num_fds = None;
    let mut bytes = Vec::new();
    if rustbus::wire::marshal::marshal(&m, NonZeroU32::new(77).unwrap(), &mut bytes).is_err() {
        for f in fds {
            let _ = nix::unistd::close(f);
        }
        return "\"res\":\"HARNESS cannot build injected message\"".into();
    }
    bytes.extend_from_slice(&bodybytes);
    let shapes = Some(idxs.iter().map(|_| ShapeRec { shape: 's', n: 1, ord: vec![0] }).collect());
    w.wire.push_back(Transit { bytes, fds, shapes, idx: idxs.to_vec() });
    "\"res\":\"ok\"".into()
}

fn do_recv(w: &mut World) -> String {
    if w.conn.is_none() {
        return "\"res\":\"invalid\"".into();
    }
    let Some(t) = w.wire.pop_front() else { return "\"res\":\"invalid\"".into() };
    let peer = &w.peer;
    let recv = &mut w.conn.as_mut().unwrap().recv;
    let (sres, rres) = std::thread::scope(|s| {
        let tr = &t;
        let sd = s.spawn(move || send_all(peer, &tr.bytes, &tr.fds));
        let r = recv.get_next_message(Timeout::Duration(HANG));
        let sres = sd.join().unwrap_or_else(|_| Err("panic".into()));
        (sres, r)
    });
    // the peer's copies are no longer needed
    for f in &t.fds {
        let _ = nix::unistd::close(*f);
    }
    if let Err(e) = sres {
        return format!("\"res\":\"HARNESS {}\"", e);
    }
    match rres {
        Ok(msg) => {
            w.bods.push(Some(BodyRec { msg, shapes: t.shapes.clone() }));
            format!("\"res\":\"b:{}\"", w.bods.len() - 1)
        }
        Err(e) => format!("\"res\":\"err\",\"detail\":\"{}\"", format!("{:?}", e).replace('"', "'")),
    }
}

/// Z<f|p>:<cs>  (last operation of a history) the peer sends a frame that carries dups of the caller's
/// descriptors cs and cannot be delivered: f = a header field does not decode (invalid object path:
/// get_next_message fails BEFORE it takes the descriptors out of RecvConn.fds_in), p = non-zero padding
/// between header and body (unmarshal_next_message fails AFTER the descriptors were moved out).
/// Then the connection is dropped (a RecvConn with pending fds_in). Whoever holds the received
/// descriptors has to close them: the audit after this operation sees the result.
fn do_bad_frame(w: &mut World, kind: char, big: bool, cs: &[usize]) -> String {
    if w.conn.is_none() || cs.len() > 253 {
        return "\"res\":\"invalid\"".into();
    }
    for c in cs {
        if w.cfds.get(*c).map(|x| x.is_none()).unwrap_or(true) {
            return "\"res\":\"invalid\"".into();
        }
    }
    let mut bytes = Vec::new();
    let mut bodybytes = Vec::new();
    let mut ok = false;
    // the signature is the last header field: its length decides whether there is padding before the body
    for extra in 0..8usize {
        let mut m = MessageBuilder::with_byteorder(bo_of(big)).signal("io.verif.C11", "Bad", "/io/verif").build();
        m.dynheader.serial = NonZeroU32::new(79);
        for i in 0..cs.len() + extra {
            m.body.push_param(i as u32).unwrap();
        }
        let bo = m.body.byteorder();
        bodybytes = m.get_buf().to_vec();
        if bodybytes.is_empty() {
            continue; // a body is needed (for the padding case)
        }
        let sig: String = "u".repeat(cs.len() + extra);
        m.body = rustbus::message_builder::MarshalledMessageBody::from_parts(bodybytes.clone(), 0, Vec::new(), sig, bo);
        bytes.clear();
        if rustbus::wire::marshal::marshal(&m, NonZeroU32::new(79).unwrap(), &mut bytes).is_err() {
            return "\"res\":\"HARNESS cannot build the frame\"".into();
        }
        let fl = rd_u32(&bytes, 12, bo).unwrap_or(0) as usize;
        let end = 16 + fl;
        if kind == 'p' {
            if end % 8 != 0 && end < bytes.len() {
                bytes[end] = 1; // padding must be zero
                ok = true;
                break;
            }
        } else {
            if let Some(pos) = bytes.windows(9).position(|x| x == b"/io/verif") {
                bytes[pos] = b'x'; // not an object path
                ok = true;
            }
            break;
        }
    }
    if !ok {
        return "\"res\":\"HARNESS cannot corrupt the frame\"".into();
    }
    bytes.extend_from_slice(&bodybytes);
    let mut fds = Vec::new();
    for c in cs {
        match nix::unistd::dup(w.cfds[*c].unwrap()) {
            Ok(f) => fds.push(f),
            Err(e) => return format!("\"res\":\"HARNESS dup {}\"", e),
        }
    }
    let peer = &w.peer;
    let recv = &mut w.conn.as_mut().unwrap().recv;
    let (sres, rres) = std::thread::scope(|s| {
        let (b, f) = (&bytes, &fds);
        let sd = s.spawn(move || send_all(peer, b, f));
        let r = recv.get_next_message(Timeout::Duration(HANG));
        (sd.join().unwrap_or_else(|_| Err("panic".into())), r)
    });
    for f in &fds {
        let _ = nix::unistd::close(*f);
    }
    if let Err(e) = sres {
        return format!("\"res\":\"HARNESS {}\"", e);
    }
    let res = match rres {
        Ok(msg) => {
            w.bods.push(Some(BodyRec { msg, shapes: Some(vec![]) }));
            format!("\"res\":\"b:{}\"", w.bods.len() - 1)
        }
        Err(e) => format!("\"res\":\"err\",\"detail\":\"{}\"", format!("{:?}", e).replace('"', "'")),
    };
    // drop the connection; its own sockets leave the baseline
    let before: BTreeSet<RawFd> = open_fds().keys().cloned().collect();
    w.conn = None;
    let after: BTreeSet<RawFd> = open_fds().keys().cloned().collect();
    let held: BTreeSet<RawFd> = w.wire.iter().flat_map(|t| t.fds.iter().cloned()).collect();
    for f in before.difference(&after) {
        if !held.contains(f) {
            w.baseline.remove(f);
        }
    }
    format!("{},\"arrived\":{}", res, cs.len())
}

fn do_unmarshal(w: &mut World, b: usize, idx: u32) -> String {
    let Some(Some(br)) = w.bods.get(b) else { return "\"res\":\"invalid\"".into() };
    let bo = br.msg.body.byteorder();
    let bytes = match bo {
        ByteOrder::LittleEndian => idx.to_le_bytes(),
        ByteOrder::BigEndian => idx.to_be_bytes(),
    };
    let mut ctx = UnmarshalContext::new(br.msg.body.get_fds(), bo, &bytes, 0);
    match <UnixFd as Unmarshal>::unmarshal(&mut ctx) {
        Ok(u) => {
            w.hnd.push(Some(u));
            format!("\"res\":\"h:{}\"", w.hnd.len() - 1)
        }
        Err(_) => "\"res\":\"err\"".into(),
    }
}

/// all descriptors of one pushed value, in wire order, through the typed Unmarshal impls, starting
/// at the value's offset in the body (what MessageBodyParser::get does after its signature check)
fn parse_shape(msg: &MarshalledMessage, starts: &[usize], pi: usize, sh: &ShapeRec) -> Result<Vec<UnixFd>, String> {
    let e = |x: rustbus::wire::errors::UnmarshalError| format!("{:?}", x);
    let at = |k: usize| -> Result<UnmarshalContext, String> {
        let off = *starts.get(k).ok_or("no such param")?;
        Ok(UnmarshalContext::new(msg.body.get_fds(), msg.body.byteorder(), msg.get_buf(), off))
    };
    Ok(match (sh.shape, sh.n) {
        ('s', _) | ('o', _) => vec![UnixFd::unmarshal(&mut at(pi)?).map_err(e)?],
        ('t', 1) => vec![<(u64, UnixFd)>::unmarshal(&mut at(pi)?).map_err(e)?.1],
        ('t', 2) => {
            let (a, _, c) = <(UnixFd, u64, UnixFd)>::unmarshal(&mut at(pi)?).map_err(e)?;
            vec![a, c]
        }
        ('t', 3) => {
            let (a, b, c) = <(UnixFd, UnixFd, UnixFd)>::unmarshal(&mut at(pi)?).map_err(e)?;
            vec![a, b, c]
        }
        ('g', _) => vec![<(&[u8], UnixFd)>::unmarshal(&mut at(pi)?).map_err(e)?.1],
        ('v', _) => <Vec<UnixFd>>::unmarshal(&mut at(pi)?).map_err(e)?,
        ('w', _) => {
            let v = <rustbus::wire::unmarshal::traits::Variant>::unmarshal(&mut at(pi)?).map_err(e)?;
            vec![v.get::<UnixFd>().map_err(e)?]
        }
        ('z', _) => {
            let vs = <Vec<rustbus::wire::unmarshal::traits::Variant>>::unmarshal(&mut at(pi)?).map_err(e)?;
            let mut out = Vec::new();
            for v in vs {
                out.push(v.get::<UnixFd>().map_err(e)?);
            }
            out
        }
        ('n', _) => <Vec<(u64, UnixFd)>>::unmarshal(&mut at(pi)?).map_err(e)?.into_iter().map(|x| x.1).collect(),
        ('m', _) => {
            let mut m = <HashMap<String, UnixFd>>::unmarshal(&mut at(pi)?).map_err(e)?;
            let mut v = Vec::new();
            for i in &sh.ord {
                v.push(m.remove(&format!("k{}", i)).ok_or("missing key")?);
            }
            v
        }
        ('p', n) | ('q', n) => {
            let mut v = Vec::new();
            for k in 0..n {
                v.push(UnixFd::unmarshal(&mut at(pi + k)?).map_err(e)?);
            }
            v
        }
        _ => return Err("unknown shape".into()),
    })
}

fn do_parse(w: &mut World, b: usize, j: usize) -> String {
    let Some(Some(br)) = w.bods.get(b) else { return "\"res\":\"invalid\"".into() };
    let Some((idx, starts, _, offs)) = body_layout4(&br.msg) else { return "\"res\":\"HARNESS unreadable body\"".into() };
    let nfds = br.msg.body.get_fds().len();
    if j >= idx.len() {
        return "\"res\":\"invalid\"".into();
    }
    let Some(shapes) = &br.shapes else { return "\"res\":\"HARNESS no layout\"".into() };
    // the pushed value that holds slot j and the index of its first top-level param
    let mut seen = 0;
    let mut pi = 0;
    let mut res: Result<UnixFd, String> = Err("slot not found".to_string());
    for sh in shapes {
        if j < seen + sh.n {
            let sibling_bad = (seen..seen + sh.n).any(|x| x != j && idx.get(x).map(|i| *i as usize >= nfds).unwrap_or(false));
            res = if sibling_bad {
                // another descriptor of the same value has an index beyond the list (the sender's descriptor was
                // taken before sending), so the typed container read fails as a whole; the model reads per slot:
                // read this slot alone, at its own offset in the body
                let mut ctx = UnmarshalContext::new(br.msg.body.get_fds(), br.msg.body.byteorder(), br.msg.get_buf(), offs[j]);
                UnixFd::unmarshal(&mut ctx).map_err(|e| format!("{:?}", e))
            } else if sh.shape == 'p' || sh.shape == 'q' {
                // one top-level param per element: read only the one asked for
                let one = ShapeRec { shape: 's', n: 1, ord: vec![0] };
                parse_shape(&br.msg, &starts, pi + (j - seen), &one).map(|mut v| v.swap_remove(0))
            } else {
                parse_shape(&br.msg, &starts, pi, sh).and_then(|mut v| {
                    if j - seen < v.len() {
                        Ok(v.swap_remove(j - seen))
                    } else {
                        Err("value holds fewer descriptors than pushed".to_string())
                    }
                })
            };
            break;
        }
        seen += sh.n;
        pi += if sh.shape == 'p' || sh.shape == 'q' { sh.n } else { 1 };
    }
    match res {
        Ok(u) => {
            w.hnd.push(Some(u));
            format!("\"res\":\"h:{}\"", w.hnd.len() - 1)
        }
        Err(e) => format!("\"res\":\"err\",\"detail\":\"{}\"", e.replace('"', "'")),
    }
}

// ---------------------------------------------------------------- the dynamic Param API

/// move the descriptors out of a decoded Param, in wire order (`ord`: for a top-level dict, the
/// order in which its entries were marshalled; a HashMap does not remember it)
fn take_fds(p: Param<'_, '_>, ord: Option<&[usize]>, out: &mut Vec<UnixFd>) -> Result<(), String> {
    use rustbus::params::Container;
    match p {
        Param::Base(Base::UnixFd(u)) => out.push(u),
        Param::Base(_) => {}
        Param::Container(c) => match c {
            Container::Array(a) => {
                for v in a.values {
                    take_fds(v, None, out)?;
                }
            }
            Container::Struct(v) => {
                for x in v {
                    take_fds(x, None, out)?;
                }
            }
            Container::Variant(v) => take_fds(v.value, None, out)?,
            Container::Dict(mut d) => {
                let ord = ord.ok_or("dict without a recorded order")?;
                for i in ord {
                    let v = d.map.remove(&Base::String(format!("k{}", i))).ok_or("missing dict key")?;
                    take_fds(v, None, out)?;
                }
            }
            _ => return Err("borrowed container in a decoded value".into()),
        },
    }
    Ok(())
}

/// for every top-level param of the body: the marshalling order of a dict's entries, if it is one
fn param_orders(shapes: &[ShapeRec]) -> Vec<Option<Vec<usize>>> {
    let mut v = Vec::new();
    for sh in shapes {
        if sh.shape == 'p' || sh.shape == 'q' {
            for _ in 0..sh.n {
                v.push(None);
            }
        } else if sh.shape == 'm' {
            v.push(Some(sh.ord.clone()));
        } else {
            v.push(None);
        }
    }
    v
}

/// G<b>:<k>: body.parser().get_param() over the leading params that hold at most the first k stored
/// descriptors; every decoded descriptor becomes a variable of the caller
fn do_get_param(w: &mut World, b: usize, k: usize) -> String {
    let Some(Some(br)) = w.bods.get(b) else { return "\"res\":\"invalid\"".into() };
    let Some((_, _, per)) = body_layout3(&br.msg) else { return "\"res\":\"HARNESS unreadable body\"".into() };
    let total: usize = per.iter().sum();
    if k > total {
        return "\"res\":\"invalid\"".into();
    }
    let mut np = 0;
    let mut slots = 0;
    while np < per.len() && slots + per[np] <= k {
        slots += per[np];
        np += 1;
    }
    let orders = param_orders(br.shapes.as_deref().unwrap_or(&[]));
    let mut got: Vec<UnixFd> = Vec::new();
    let mut err: Option<String> = None;
    {
        // (the Param that get_param returns borrows the parser: each one is taken apart before the next call)
        let mut parser = br.msg.body.parser();
        for i in 0..np {
            match parser.get_param() {
                Ok(p) => {
                    if let Err(e) = take_fds(p, orders.get(i).and_then(|x| x.as_deref()), &mut got) {
                        return format!("\"res\":\"HARNESS {}\"", e);
                    }
                }
                Err(e) => {
                    err = Some(format!("{:?}", e));
                    break;
                }
            }
        }
        if err.is_some() {
            got.clear();
        }
        // on Err the values decoded so far are dropped here
    }
    match err {
        None => {
            let first = w.hnd.len();
            let n = got.len();
            for u in got {
                w.hnd.push(Some(u));
            }
            format!(
                "\"res\":\"hs:{}\",\"slots\":{}",
                (first..first + n).map(|x| x.to_string()).collect::<Vec<_>>().join(","),
                slots
            )
        }
        Some(e) => format!("\"res\":\"err\",\"slots\":{},\"detail\":\"{}\"", slots, e.replace('"', "'")),
    }
}

/// M<b>: msg.unmarshall_all() (consumes the message). On success Message.raw_fds (the very handles of
/// the message) goes back into a body with the same bytes, so that body b lives on as in the model;
/// the decoded params give up their descriptors to variables of the caller. On Err the message is gone.
fn do_unmarshall_all(w: &mut World, b: usize) -> String {
    if w.bods.get(b).map(|x| x.is_none()).unwrap_or(true) {
        return "\"res\":\"invalid\"".into();
    }
    let br = w.bods[b].take().unwrap();
    let buf = br.msg.get_buf().to_vec();
    let sig = br.msg.get_sig().to_string();
    let bo = br.msg.body.byteorder();
    let shapes = br.shapes;
    let orders = param_orders(shapes.as_deref().unwrap_or(&[]));
    match br.msg.unmarshall_all() {
        Ok(m) => {
            let mut got = Vec::new();
            let params = m.params;
            let raw_fds = m.raw_fds;
            let mut bad = None;
            for (i, p) in params.into_iter().enumerate() {
                if let Err(e) = take_fds(p, orders.get(i).and_then(|x| x.as_deref()), &mut got) {
                    bad = Some(e);
                }
            }
            let msg = MarshalledMessage {
                body: rustbus::message_builder::MarshalledMessageBody::from_parts(buf, 0, raw_fds, sig, bo),
                dynheader: m.dynheader,
                typ: m.typ,
                flags: m.flags,
            };
            w.bods[b] = Some(BodyRec { msg, shapes });
            if let Some(e) = bad {
                return format!("\"res\":\"HARNESS {}\"", e);
            }
            let first = w.hnd.len();
            let n = got.len();
            for u in got {
                w.hnd.push(Some(u));
            }
            format!("\"res\":\"hs:{}\"", (first..first + n).map(|x| x.to_string()).collect::<Vec<_>>().join(","))
        }
        Err(e) => format!("\"res\":\"err\",\"detail\":\"{}\"", format!("{:?}", e).replace('"', "'")),
    }
}

fn do_op(w: &mut World, op: &str) -> String {
    let op = op.trim();
    let (k, arg) = op.split_at(1);
    let one = || arg.trim().parse::<usize>().ok();
    let inv = || "\"res\":\"invalid\"".to_string();
    match k {
        "O" => {
            let f = new_file(w);
            w.cfds.push(Some(f));
            format!("\"res\":\"cfd:{}\"", w.cfds.len() - 1)
        }
        "K" => match one().and_then(|c| w.cfds.get_mut(c)).and_then(|x| x.take()) {
            Some(f) => {
                let _ = nix::unistd::close(f);
                "\"res\":\"ok\"".into()
            }
            None => inv(),
        },
        "W" => match one().and_then(|c| w.cfds.get_mut(c)).and_then(|x| x.take()) {
            Some(f) => {
                w.hnd.push(Some(UnixFd::new(f)));
                format!("\"res\":\"h:{}\"", w.hnd.len() - 1)
            }
            None => inv(),
        },
        "B" => {
            let big = arg.trim() == "b";
            let m = MessageBuilder::with_byteorder(bo_of(big)).signal("io.verif.C11", "Sig", "/io/verif").build();
            w.bods.push(Some(BodyRec { msg: m, shapes: Some(vec![]) }));
            format!("\"res\":\"b:{}\"", w.bods.len() - 1)
        }
        "P" => {
            let parts: Vec<&str> = arg.split(':').collect();
            if parts.len() != 3 {
                return "\"res\":\"BADOP\"".into();
            }
            let (Some(b), Some(its)) = (parts[0].trim().parse::<usize>().ok(), parse_items(parts[2])) else {
                return "\"res\":\"BADOP\"".into();
            };
            do_push(w, b, parts[1].trim().chars().next().unwrap_or('v'), &its)
        }
        "R" => match one().and_then(|b| w.bods.get_mut(b)).and_then(|x| x.as_mut()) {
            Some(br) => {
                br.msg.body.reset();
                br.shapes = Some(vec![]);
                "\"res\":\"ok\"".into()
            }
            None => inv(),
        },
        "D" => match one().and_then(|b| w.bods.get_mut(b)).and_then(|x| x.take()) {
            Some(br) => {
                drop(br);
                "\"res\":\"ok\"".into()
            }
            None => inv(),
        },
        "S" => {
            let mut it = arg.split(':');
            let Some(b) = it.next().and_then(|x| x.trim().parse::<usize>().ok()) else { return "\"res\":\"BADOP\"".into() };
            let mode = match it.next().map(|x| x.trim()) {
                Some("hdr") => SendMode::Header,
                Some("bnd") => SendMode::Boundary,
                _ => SendMode::Plain,
            };
            do_send(w, b, mode)
        }
        "I" => {
            let parts: Vec<&str> = arg.split(':').collect();
            if parts.len() != 2 && parts.len() != 3 {
                return "\"res\":\"BADOP\"".into();
            }
            let big = parts.get(2).map(|x| x.trim() == "b").unwrap_or(false);
            match (parse_nums::<usize>(parts[0]), parse_nums::<u32>(parts[1])) {
                (Some(cs), Some(ix)) => do_inject(w, &cs, &ix, big),
                _ => "\"res\":\"BADOP\"".into(),
            }
        }
        "V" => do_recv(w),
        "Z" => {
            let parts: Vec<&str> = arg.split(':').collect();
            let kind = parts.first().and_then(|x| x.trim().chars().next()).unwrap_or('f');
            let big = parts.first().map(|x| x.trim().ends_with('b')).unwrap_or(false);
            match parse_nums::<usize>(parts.get(1).copied().unwrap_or("-")) {
                Some(cs) => do_bad_frame(w, kind, big, &cs),
                None => "\"res\":\"BADOP\"".into(),
            }
        }
        "U" => {
            let parts: Vec<&str> = arg.split(':').collect();
            match (parts.first().and_then(|x| x.trim().parse::<usize>().ok()), parts.get(1).and_then(|x| x.trim().parse::<u32>().ok())) {
                (Some(b), Some(i)) => do_unmarshal(w, b, i),
                _ => "\"res\":\"BADOP\"".into(),
            }
        }
        "A" => {
            let parts: Vec<&str> = arg.split(':').collect();
            match (parts.first().and_then(|x| x.trim().parse::<usize>().ok()), parts.get(1).and_then(|x| x.trim().parse::<usize>().ok())) {
                (Some(b), Some(j)) => do_parse(w, b, j),
                _ => "\"res\":\"BADOP\"".into(),
            }
        }
        "G" => {
            let parts: Vec<&str> = arg.split(':').collect();
            match (parts.first().and_then(|x| x.trim().parse::<usize>().ok()), parts.get(1).and_then(|x| x.trim().parse::<usize>().ok())) {
                (Some(b), Some(k)) => do_get_param(w, b, k),
                _ => "\"res\":\"BADOP\"".into(),
            }
        }
        "M" => match one() {
            Some(b) => do_unmarshall_all(w, b),
            None => "\"res\":\"BADOP\"".into(),
        },
        "C" => match one().and_then(|h| w.hnd.get(h)).and_then(|x| x.as_ref()).map(|u| u.clone()) {
            Some(u) => {
                w.hnd.push(Some(u));
                format!("\"res\":\"h:{}\"", w.hnd.len() - 1)
            }
            None => inv(),
        },
        "Y" => match one().and_then(|h| w.hnd.get(h)).and_then(|x| x.as_ref()).map(|u| u.dup()) {
            Some(Ok(u)) => {
                w.hnd.push(Some(u));
                format!("\"res\":\"h:{}\"", w.hnd.len() - 1)
            }
            Some(Err(_)) => "\"res\":\"err\"".into(),
            None => inv(),
        },
        "T" => match one().and_then(|h| w.hnd.get_mut(h)).and_then(|x| x.take()) {
            Some(u) => match u.take_raw_fd() {
                Some(f) => {
                    w.cfds.push(Some(f));
                    format!("\"res\":\"taken:{}\"", w.cfds.len() - 1)
                }
                None => "\"res\":\"taken:none\"".into(),
            },
            None => inv(),
        },
        "X" => match one().and_then(|h| w.hnd.get_mut(h)).and_then(|x| x.take()) {
            Some(u) => {
                drop(u);
                "\"res\":\"ok\"".into()
            }
            None => inv(),
        },
        _ => "\"res\":\"BADOP\"".into(),
    }
}

fn run_history(line: &str) -> String {
    let (conn, peer) = rbverif::conn::connect_pair(true);
    CLOSE_LOG.lock().unwrap().clear();
    let baseline: BTreeSet<RawFd> = open_fds().keys().cloned().collect();
    let mut w = World {
        conn: Some(conn),
        peer,
        baseline,
        cfds: vec![],
        hnd: vec![],
        bods: vec![],
        wire: VecDeque::new(),
        opens: 0,
    };
    let mut out = Vec::new();
    for op in line.split(';') {
        if op.trim().is_empty() {
            continue;
        }
        // a panic inside the library is an observable result of the operation, not the end of the history
        let r = match std::panic::catch_unwind(std::panic::AssertUnwindSafe(|| do_op(&mut w, op))) {
            Ok(r) => r,
            Err(_) => "\"res\":\"panic\"".to_string(),
        };
        let closes: Vec<(RawFd, bool)> = std::mem::take(&mut *CLOSE_LOG.lock().unwrap());
        let cl = jlist(&closes, |(f, ok)| format!("[{},{}]", f, ok));
        out.push(format!("{{{},\"closes\":{},{}}}", r, cl, snapshot(&w)));
    }
    // final: let go of everything the harness still holds; nothing beyond the baseline may remain
    let caller: Vec<RawFd> = w.cfds.iter().flatten().cloned().collect();
    w.hnd.clear();
    w.bods.clear();
    for t in w.wire.drain(..) {
        for f in t.fds {
            let _ = nix::unistd::close(f);
        }
    }
    let closes: Vec<(RawFd, bool)> = std::mem::take(&mut *CLOSE_LOG.lock().unwrap());
    let mut open = open_fds();
    for b in &w.baseline {
        open.remove(b);
    }
    let missing: Vec<RawFd> = caller.iter().filter(|f| !open.contains_key(f)).cloned().collect();
    for f in &caller {
        open.remove(f);
        let _ = nix::unistd::close(*f);
    }
    let leftover: Vec<RawFd> = open.keys().cloned().collect();
    // do not let a leak of this history pollute the next one's numbers more than necessary
    for f in &leftover {
        let _ = nix::unistd::close(*f);
    }
    format!(
        "{{\"ops\":[{}],\"final\":{{\"closes\":{},\"leftover\":{},\"caller_missing\":{}}}}}",
        out.join(","),
        jlist(&closes, |(f, ok)| format!("[{},{}]", f, ok)),
        jlist(&leftover, |f| f.to_string()),
        jlist(&missing, |f| f.to_string())
    )
}

fn main() {
    // room for histories that push a few hundred descriptors
    if let Ok((_soft, hard)) = nix::sys::resource::getrlimit(nix::sys::resource::Resource::RLIMIT_NOFILE) {
        let want = std::cmp::min(hard, 65536);
        let _ = nix::sys::resource::setrlimit(nix::sys::resource::Resource::RLIMIT_NOFILE, want, hard);
    }
    rustbus::verif_hooks::nix_shim::unistd::set_close(Some(Arc::new(logging_close)));
    rbverif::line_loop(|line| run_history(line));
    rbverif::conn::cleanup_scratch();
}
