//! C16 harness: the same value through every API that can build it, every encoding read back by every API.
//! One case per stdin line, one canonical result line per stdout line (fields separated by one space,
//! value tokens inside a field joined by '_').
//!
//!   LIST                                           the struct shapes, enum sets and "other" types compiled in
//!                                                  (slices= / E6= : shapes and an enum set whose arrays are raw slices of the
//!                                                  fixed-size primitives u8 i16 u16 i32 u32 i64 u64 f64: Vec<E>, &[E], [E; N], Cow<[E]>)
//!   ST <shape> <bo> <prefix> <struct value>        tuple (T), derived struct (D), Param (P): encode, decode 3x3
//!   HS <shape> <bo> <other> <value of other>       body holds <other>; get::<D>, get::<T>, get::<other>
//!   EN <set> <bo> <prefix> <case> <payload>        typed Variant (V), derived enum (D), dbus_variant_sig! (S),
//!                                                  dbus_variant_var! (M), Param variant (P): encode, decode 5x5
//!   EO <set> <bo> <prefix> <other> <value>         prefix u8s, variant of <other>, u32 AFTER, trailer u8: the three enums read the variant
//!   EC <kind> <bo> <prefix> <container value>      enum E1 (derived D, dbus_variant_sig! S, dbus_variant_var! M) and params::Variant (Q) in element
//!                                                  position of Vec / HashMap / tuples / a derived struct, and the Param tree (P): encode, decode 5x5
//!   CV <C|R> <base value>                          one Base built through From<T> (C) / From<&T>, &str (R): every TryFrom<&Base>, as_*, into_* that succeeds
//!   CF                                             conversions and constructors that must refuse (empty containers without signature, mixed element types, ...)
//! In ST and EN the Param tree is built three ways: P = enum literals, C = the public conversion API (From<T>/From<&T> for Base
//! and Param, TryFrom for Container, Container::make_* / push / insert), R = the borrowed flavours (StringRef/SignatureRef/
//! ObjectPathRef, ArrayRef/StructRef/DictRef through make_*_ref); decoder X = get_param() read back through
//! TryFrom<&Base> / as_* / into_* / From<&Param> for Type.
//! Type names: D-Bus signatures with `<..>` for a derived struct and `v[..]` for a variant of known content.
use rbverif::hex;
use rbverif::wirelib::*;
use rustbus::message_builder::{MarshalledMessage, MarshalledMessageBody, MessageBodyParser};
use rustbus::params::{Base, Container, Param};
use rustbus::signature;
use rustbus::wire::errors::UnmarshalError;
use rustbus::{dbus_variant_sig, dbus_variant_var};
use rustbus::{Marshal, Signature, Unmarshal};
use std::collections::HashMap;

const TRAILER: u8 = 0xA5;
const AFTER: u32 = 0xC0FF_EE11;

// ------------------------------------------------------------------------------------------------ derived structs
macro_rules! dstruct {
    ($name:ident, $n:expr, $($f:ident : $t:ty),+) => {
        #[derive(Marshal, Unmarshal, Signature, Debug)]
        pub struct $name { $(pub $f: $t),+ }
        impl Tok for $name {
            fn from_tok(a: &mut Args) -> Self {
                assert_eq!(a.next(), "r");
                assert_eq!(a.num(), $n);
                $name { $($f: <$t>::from_tok(a)),+ }
            }
            fn to_tok(&self, out: &mut Vec<String>, s: bool) {
                out.push("r".into());
                out.push($n.to_string());
                $(self.$f.to_tok(out, s);)+
            }
        }
    };
}

dstruct!(SYt, 2, a: u8, b: u64);
// dbus_variant_sig! derives PartialEq/Eq for its enum, so its case types need them
impl PartialEq for SYt {
    fn eq(&self, o: &Self) -> bool {
        self.a == o.a && self.b == o.b
    }
}
impl Eq for SYt {}

/// wirelib::Var with PartialEq/Eq (needed inside a dbus_variant_sig! case): marshals through
/// marshal::traits::Variant<T>, unmarshals through unmarshal::traits::Variant + get::<T>()
#[derive(Debug, PartialEq, Eq)]
pub struct Vr<T>(pub T);
impl<T: Tok + Signature> Tok for Vr<T> {
    fn from_tok(a: &mut Args) -> Self {
        assert_eq!(a.next(), "v");
        let _sig = a.next();
        Vr(T::from_tok(a))
    }
    fn to_tok(&self, out: &mut Vec<String>, s: bool) {
        out.push("v".into());
        out.push(sig_of::<T>());
        self.0.to_tok(out, s);
    }
}
impl<T: Marshal> Signature for Vr<T> {
    fn signature() -> signature::Type {
        Var::<T>::signature()
    }
    fn alignment() -> usize {
        Var::<T>::alignment()
    }
    fn sig_str(s: &mut rustbus::wire::marshal::traits::SignatureBuffer) {
        Var::<T>::sig_str(s)
    }
    fn has_sig(s: &str) -> bool {
        Var::<T>::has_sig(s)
    }
}
impl<T: Marshal> Marshal for Vr<T> {
    fn marshal(&self, ctx: &mut rustbus::wire::marshal::MarshalContext) -> Result<(), rustbus::wire::errors::MarshalError> {
        rustbus::wire::marshal::traits::Variant(&self.0).marshal(ctx)
    }
}
impl<'buf, 'fds, T: Marshal + Unmarshal<'buf, 'fds>> Unmarshal<'buf, 'fds> for Vr<T> {
    fn unmarshal(ctx: &mut rustbus::wire::unmarshal_context::UnmarshalContext<'fds, 'buf>) -> Result<Self, UnmarshalError> {
        let v = rustbus::wire::unmarshal::traits::Variant::unmarshal(ctx)?;
        v.get::<T>().map(Vr)
    }
}
dstruct!(SYsy, 3, a: u8, b: String, c: u8);
dstruct!(STyu, 3, a: u64, b: u8, c: u32);
dstruct!(SU, 1, a: u32);
dstruct!(SS, 1, a: String);
dstruct!(SNested, 2, a: u8, b: SYt); // <y<yt>>
dstruct!(SMixed, 3, a: u8, b: (u8, u64), c: SYsy); // <y(yt)<ysy>>
dstruct!(SVec, 2, a: Vec<u64>, b: u8); // <aty>
dstruct!(SMap, 3, a: u8, b: HashMap<String, u32>, c: u16); // <ya{su}q>
dstruct!(SVar, 2, a: Var<u32>, b: u8); // <v[u]y>
dstruct!(SFour, 4, a: u8, b: Var<(u8, u64)>, c: String, d: i16); // <yv[(yt)]sn>
dstruct!(SFive, 5, a: u8, b: Var<(u8, u64)>, c: String, d: i16, e: u8); // <yv[(yt)]sny>: SFour and one more field (tuples end at 4 fields)
dstruct!(SVecD, 2, a: Vec<SYt>, b: u8); // <a<yt>y>
dstruct!(SBd, 2, a: bool, b: F64); // <bd>
dstruct!(SGt, 3, a: Sig, b: u64, c: Path); // <gto>
dstruct!(SArrS, 2, a: u8, b: Vec<(u8, String)>); // <ya(ys)>
dstruct!(SVarD, 2, a: u8, b: Var<SYt>); // <yv[<yt>]>
dstruct!(SMapD, 2, a: HashMap<u8, SYt>, b: u8); // <a{y<yt>}y>

// Arrays of the fixed-size primitives as RAW slices: the element types are the crate's own u8 i16 u16 i32 u32 i64 u64 f64,
// whose Signature::valid_slice() sends &[E] / [E] / [E; N] / Vec<E> / Cow<[E]> down the memory-copy path when the body
// has the machine's byte order and down the element loop otherwise (u8: always the copy). The Param API has no such
// path, so these shapes compare the two in both byte orders. `<yaX>`: tuple (u8, Vec<E>) against a derived struct whose
// field is written through &[E] and read through Cow<[E]>; `<aXn>`: tuple written through <&[E] as Marshal> against a
// derived struct written through [E; N] / the unsized [E] (both read through Vec<E>).
macro_rules! slice_structs {
    ($($e:ty, $c:ident, $r:ident);+) => {
        $(
            dstruct!($c, 2, a: u8, b: CowA<$e>);
            dstruct!($r, 2, a: ArrN<$e>, b: i16);
        )+
    };
}
slice_structs!(u8, SlCy, SlRy; i16, SlCn, SlRn; u16, SlCq, SlRq; i32, SlCi, SlRi; u32, SlCu, SlRu; i64, SlCx, SlRx; u64, SlCt, SlRt; f64, SlCd, SlRd);
dstruct!(SlNest, 3, a: Vec<CowA<f64>>, b: Vec<Vec<u16>>, c: HashMap<u8, Vec<i32>>); // <aadaaqa{yai}>

/// Vec<f64> with the Eq that dbus_variant_sig! wants of its case types (bit patterns compared); every trait goes
/// straight to the crate's impl for Vec<f64> / &[f64]
#[derive(Debug)]
pub struct Fs(pub Vec<f64>);
impl PartialEq for Fs {
    fn eq(&self, o: &Self) -> bool {
        self.0.len() == o.0.len() && self.0.iter().zip(o.0.iter()).all(|(a, b)| a.to_bits() == b.to_bits())
    }
}
impl Eq for Fs {}
impl Tok for Fs {
    fn from_tok(a: &mut Args) -> Self {
        Fs(Vec::<f64>::from_tok(a))
    }
    fn to_tok(&self, out: &mut Vec<String>, s: bool) {
        self.0.to_tok(out, s)
    }
}
impl Signature for Fs {
    fn signature() -> signature::Type {
        Vec::<f64>::signature()
    }
    fn alignment() -> usize {
        Vec::<f64>::alignment()
    }
    fn sig_str(s: &mut rustbus::wire::marshal::traits::SignatureBuffer) {
        Vec::<f64>::sig_str(s)
    }
    fn has_sig(s: &str) -> bool {
        Vec::<f64>::has_sig(s)
    }
}
impl Marshal for Fs {
    fn marshal(&self, ctx: &mut rustbus::wire::marshal::MarshalContext) -> Result<(), rustbus::wire::errors::MarshalError> {
        self.0.marshal(ctx)
    }
}
impl<'buf, 'fds> Unmarshal<'buf, 'fds> for Fs {
    fn unmarshal(ctx: &mut rustbus::wire::unmarshal_context::UnmarshalContext<'fds, 'buf>) -> Result<Self, UnmarshalError> {
        Vec::<f64>::unmarshal(ctx).map(Fs)
    }
}

// ------------------------------------------------------------------------------------------------ Param trees
fn parse_one_type(s: &str) -> signature::Type {
    let mut v = signature::Type::parse_description(s).unwrap();
    assert_eq!(v.len(), 1);
    v.remove(0)
}
fn base_from(a: &mut Args, tag: &str) -> Base<'static> {
    match tag {
        "y" => Base::Byte(a.num() as u8),
        "b" => Base::Boolean(a.num() != 0),
        "n" => Base::Int16(a.num() as u16 as i16),
        "q" => Base::Uint16(a.num() as u16),
        "i" => Base::Int32(a.num() as u32 as i32),
        "u" => Base::Uint32(a.num() as u32),
        "x" => Base::Int64(a.num() as i64),
        "t" => Base::Uint64(a.num()),
        "d" => Base::Double(a.num()),
        "s" => Base::String(String::from_utf8(rbverif::unhex(a.next())).unwrap()),
        "o" => Base::ObjectPath(String::from_utf8(rbverif::unhex(a.next())).unwrap()),
        "g" => Base::Signature(String::from_utf8(rbverif::unhex(a.next())).unwrap()),
        x => panic!("base tag {}", x),
    }
}
fn param_from(a: &mut Args) -> Param<'static, 'static> {
    let tag = a.next();
    match tag {
        "a" => {
            let esig = parse_one_type(a.next());
            let n = a.num();
            let values = (0..n).map(|_| param_from(a)).collect();
            Param::Container(Container::Array(rustbus::params::Array { element_sig: esig, values }))
        }
        "r" => {
            let n = a.num();
            Param::Container(Container::Struct((0..n).map(|_| param_from(a)).collect()))
        }
        "e" => {
            let k = match parse_one_type(a.next()) {
                signature::Type::Base(b) => b,
                _ => panic!("dict key sig"),
            };
            let vs = parse_one_type(a.next());
            let n = a.num();
            let mut map = HashMap::new();
            for _ in 0..n {
                let kt = a.next();
                let key = base_from(a, kt);
                let val = param_from(a);
                map.insert(key, val);
            }
            Param::Container(Container::Dict(rustbus::params::Dict { key_sig: k, value_sig: vs, map }))
        }
        "v" => {
            let sig = parse_one_type(a.next());
            let value = param_from(a);
            Param::Container(Container::Variant(Box::new(rustbus::params::Variant { sig, value })))
        }
        t => Param::Base(base_from(a, t)),
    }
}
fn sig_str(t: &signature::Type) -> String {
    let mut s = String::new();
    t.to_str(&mut s);
    s
}
fn param_tok(p: &Param, out: &mut Vec<String>) {
    match p {
        Param::Base(b) => base_tok(b, out),
        Param::Container(c) => match c {
            Container::Array(arr) => {
                out.push("a".into());
                out.push(sig_str(&arr.element_sig));
                out.push(arr.values.len().to_string());
                for v in &arr.values {
                    param_tok(v, out);
                }
            }
            Container::Struct(fields) => {
                out.push("r".into());
                out.push(fields.len().to_string());
                for v in fields {
                    param_tok(v, out);
                }
            }
            Container::Dict(d) => {
                out.push("e".into());
                out.push(sig_str(&signature::Type::Base(d.key_sig)));
                out.push(sig_str(&d.value_sig));
                out.push(d.map.len().to_string());
                let mut entries: Vec<Vec<String>> = d
                    .map
                    .iter()
                    .map(|(k, v)| {
                        let mut e = Vec::new();
                        base_tok(k, &mut e);
                        param_tok(v, &mut e);
                        e
                    })
                    .collect();
                entries.sort();
                for e in entries {
                    out.extend(e);
                }
            }
            Container::Variant(v) => {
                out.push("v".into());
                out.push(sig_str(&v.sig));
                param_tok(&v.value, out);
            }
            _ => out.push("REF".into()),
        },
    }
}
fn base_tok(b: &Base, out: &mut Vec<String>) {
    let (t, v) = match b {
        Base::Byte(x) => ("y", (*x as u64).to_string()),
        Base::Boolean(x) => ("b", (*x as u64).to_string()),
        Base::Int16(x) => ("n", (*x as u16 as u64).to_string()),
        Base::Uint16(x) => ("q", (*x as u64).to_string()),
        Base::Int32(x) => ("i", (*x as u32 as u64).to_string()),
        Base::Uint32(x) => ("u", (*x as u64).to_string()),
        Base::Int64(x) => ("x", (*x as u64).to_string()),
        Base::Uint64(x) => ("t", x.to_string()),
        Base::Double(x) => ("d", x.to_string()),
        Base::UnixFd(_) => ("h", "0".to_string()),
        Base::String(s) => ("s", hex(s.as_bytes())),
        Base::ObjectPath(s) => ("o", hex(s.as_bytes())),
        Base::Signature(s) => ("g", hex(s.as_bytes())),
        Base::StringRef(s) => ("s", hex(s.as_bytes())),
        Base::ObjectPathRef(s) => ("o", hex(s.as_bytes())),
        Base::SignatureRef(s) => ("g", hex(s.as_bytes())),
    };
    out.push(t.into());
    out.push(v);
}


// ------------------------------------------------------------------------------------------------ Param trees through the conversion API
fn leak<T>(x: T) -> &'static T {
    Box::leak(Box::new(x))
}
fn leak_str(s: String) -> &'static str {
    Box::leak(s.into_boxed_str())
}
fn leak_slice<T>(v: Vec<T>) -> &'static [T] {
    Box::leak(v.into_boxed_slice())
}

/// builds Param trees through params/conversion.rs and params/container_constructors.rs; `n` rotates between
/// the alternative ways to build the same thing so that every conversion is used
struct Conv {
    mode: char, // 'C' owned values through conversions, 'R' borrowed flavours
    n: usize,
}
macro_rules! conv_num {
    ($self:ident, $v:expr) => {{
        let v = $v;
        if $self.mode == 'R' || $self.tick() % 2 == 0 {
            Base::from(leak(v)) // From<&'a T> for Base<'a>
        } else {
            Base::from(v) // From<T> for Base
        }
    }};
}
impl Conv {
    fn tick(&mut self) -> usize {
        self.n += 1;
        self.n
    }
    fn base(&mut self, a: &mut Args, tag: &str) -> Base<'static> {
        match tag {
            "y" => conv_num!(self, a.num() as u8),
            "b" => conv_num!(self, a.num() != 0),
            "n" => conv_num!(self, a.num() as u16 as i16),
            "q" => conv_num!(self, a.num() as u16),
            "i" => conv_num!(self, a.num() as u32 as i32),
            "u" => conv_num!(self, a.num() as u32),
            "x" => conv_num!(self, a.num() as i64),
            "t" => conv_num!(self, a.num()),
            "d" => conv_num!(self, f64::from_bits(a.num())),
            "s" => {
                let s = String::from_utf8(rbverif::unhex(a.next())).unwrap();
                if self.mode == 'R' {
                    Base::from(leak_str(s)) // From<&'a str>: StringRef
                } else {
                    Base::from(s) // From<String>
                }
            }
            // object paths and signatures have no From impl
            "o" => {
                let s = String::from_utf8(rbverif::unhex(a.next())).unwrap();
                if self.mode == 'R' {
                    Base::ObjectPathRef(leak_str(s))
                } else {
                    Base::ObjectPath(s)
                }
            }
            "g" => {
                let s = String::from_utf8(rbverif::unhex(a.next())).unwrap();
                if self.mode == 'R' {
                    Base::SignatureRef(leak_str(s))
                } else {
                    Base::Signature(s)
                }
            }
            x => panic!("base tag {}", x),
        }
    }
    fn param(&mut self, a: &mut Args) -> Result<Param<'static, 'static>, String> {
        use std::convert::TryFrom;
        let tag = a.next();
        let c: Container<'static, 'static> = match tag {
            "a" => {
                let esig = a.next();
                let n = a.num();
                let mut elems = Vec::new();
                for _ in 0..n {
                    elems.push(self.param(a)?);
                }
                if self.mode == 'R' {
                    if self.tick() % 2 == 0 {
                        Container::make_array_ref(esig, leak_slice(elems)).map_err(|e| format!("{:?}", e))?
                    } else {
                        Container::make_array_ref_with_sig(parse_one_type(esig), leak_slice(elems)).map_err(|e| format!("{:?}", e))?
                    }
                } else {
                    match self.tick() % 5 {
                        0 => Container::make_array(esig, elems.into_iter()).map_err(|e| format!("{:?}", e))?,
                        1 => Container::try_from((parse_one_type(esig), elems)).map_err(|e| format!("{:?}", e))?,
                        2 if !elems.is_empty() => Container::try_from(elems).map_err(|e| format!("{:?}", e))?,
                        3 => Container::make_array_with_sig(parse_one_type(esig), elems.into_iter()).map_err(|e| format!("{:?}", e))?,
                        _ => {
                            let mut c = Container::make_array(esig, std::iter::empty::<Param>()).map_err(|e| format!("{:?}", e))?;
                            for e in elems {
                                c.push(e).map_err(|e| format!("{:?}", e))?;
                            }
                            c
                        }
                    }
                }
            }
            "r" => {
                let n = a.num();
                let mut fields = Vec::new();
                for _ in 0..n {
                    fields.push(self.param(a)?);
                }
                if self.mode == 'R' {
                    Container::make_struct_ref(leak_slice(fields))
                } else {
                    match (self.tick() % 3, fields.len()) {
                        (1, 1) => {
                            let mut it = fields.into_iter();
                            Container::make_struct1(it.next().unwrap())
                        }
                        (1, 2) => {
                            let mut it = fields.into_iter();
                            Container::make_struct2(it.next().unwrap(), it.next().unwrap())
                        }
                        (1, 3) => {
                            let mut it = fields.into_iter();
                            Container::make_struct3(it.next().unwrap(), it.next().unwrap(), it.next().unwrap())
                        }
                        (2, _) => {
                            let mut c = Container::Struct(Vec::new());
                            for f in fields {
                                c.push(f).map_err(|e| format!("{:?}", e))?;
                            }
                            c
                        }
                        _ => Container::make_struct(fields),
                    }
                }
            }
            "e" => {
                let ks = a.next();
                let vs = a.next();
                let n = a.num();
                let mut pairs = Vec::new();
                for _ in 0..n {
                    let kt = a.next();
                    let k = self.base(a, kt);
                    let v = self.param(a)?;
                    pairs.push((k, v));
                }
                let kbase = match parse_one_type(ks) {
                    signature::Type::Base(b) => b,
                    _ => panic!("dict key sig"),
                };
                if self.mode == 'R' {
                    let map: rustbus::params::DictMap = pairs.into_iter().collect();
                    if self.tick() % 2 == 0 {
                        Container::make_dict_ref(ks, vs, leak(map)).map_err(|e| format!("{:?}", e))?
                    } else {
                        Container::make_dict_ref_with_sig(kbase, parse_one_type(vs), leak(map)).map_err(|e| format!("{:?}", e))?
                    }
                } else {
                    match self.tick() % 5 {
                        0 => Container::make_dict(ks, vs, pairs.into_iter()).map_err(|e| format!("{:?}", e))?,
                        1 => {
                            let map: rustbus::params::DictMap = pairs.into_iter().collect();
                            Container::try_from((kbase, parse_one_type(vs), map)).map_err(|e| format!("{:?}", e))?
                        }
                        2 if !pairs.is_empty() => {
                            let map: rustbus::params::DictMap = pairs.into_iter().collect();
                            Container::try_from(map).map_err(|e| format!("{:?}", e))?
                        }
                        3 => Container::make_dict_with_sig(kbase, parse_one_type(vs), pairs.into_iter()).map_err(|e| format!("{:?}", e))?,
                        _ => {
                            let mut c = Container::make_dict(ks, vs, std::iter::empty::<(Base, Param)>()).map_err(|e| format!("{:?}", e))?;
                            for (k, v) in pairs {
                                c.insert(k, v).map_err(|e| format!("{:?}", e))?;
                            }
                            c
                        }
                    }
                }
            }
            "v" => {
                let _sig = a.next();
                let inner = self.param(a)?;
                Container::make_variant(inner)
            }
            t => return Ok(Param::from(self.base(a, t))), // From<B: Into<Base>> for Param
        };
        Ok(Param::from(c)) // From<Container> for Param
    }
}

/// the three ways to print a Param's signature agree: "<sig>" or "DIFF(..)"
fn sigs_of(p: &Param) -> String {
    let mut a = String::new();
    p.make_signature(&mut a);
    let b = sig_str(&p.sig());
    let c = sig_str(&signature::Type::from(p));
    if a == b && b == c {
        a
    } else {
        format!("DIFF({},{},{})", a, b, c)
    }
}

/// a decoded Param printed through the reading side of the conversion API; every inconsistency between the
/// alternative accessors shows up as a CONVBUG token (so the value no longer compares equal)
fn conv_tok(p: &Param, out: &mut Vec<String>) {
    use std::convert::TryFrom;
    macro_rules! chk {
        ($c:expr, $what:expr) => {
            if !$c {
                out.push(format!("CONVBUG:{}", $what));
            }
        };
    }
    if let Some(b) = p.as_base() {
        let kind = signature::Base::from(b); // From<&Base> for signature::Base
        match kind {
            signature::Base::Byte => {
                let v = u8::try_from(b).unwrap();
                chk!(p.as_byte() == Some(&v) && b.as_byte() == Some(&v), "as_byte");
                chk!(p.clone().into_byte().ok() == Some(v) && b.clone().into_byte().ok() == Some(v), "into_byte");
                chk!(u16::try_from(b).is_err() && bool::try_from(b).is_err() && p.clone().into_u16().is_err(), "byte as other");
                out.push("y".into());
                out.push(v.to_string());
            }
            signature::Base::Boolean => {
                let v = bool::try_from(b).unwrap();
                chk!(p.as_bool() == Some(&v) && b.as_bool() == Some(&v), "as_bool");
                chk!(p.clone().into_bool().ok() == Some(v) && b.clone().into_bool().ok() == Some(v), "into_bool");
                chk!(u32::try_from(b).is_err() && p.clone().into_u32().is_err(), "bool as other");
                out.push("b".into());
                out.push((v as u64).to_string());
            }
            signature::Base::Int16 => {
                let v = i16::try_from(b).unwrap();
                chk!(p.as_i16() == Some(&v) && b.as_i16() == Some(&v), "as_i16");
                chk!(p.clone().into_i16().ok() == Some(v) && b.clone().into_i16().ok() == Some(v), "into_i16");
                chk!(u16::try_from(b).is_err() && p.clone().into_u16().is_err() && p.as_u16().is_none(), "i16 as other");
                out.push("n".into());
                out.push((v as u16 as u64).to_string());
            }
            signature::Base::Uint16 => {
                let v = u16::try_from(b).unwrap();
                chk!(p.as_u16() == Some(&v) && b.as_u16() == Some(&v), "as_u16");
                chk!(p.clone().into_u16().ok() == Some(v) && b.clone().into_u16().ok() == Some(v), "into_u16");
                chk!(i16::try_from(b).is_err() && p.clone().into_i16().is_err() && p.as_i16().is_none(), "u16 as other");
                out.push("q".into());
                out.push((v as u64).to_string());
            }
            signature::Base::Int32 => {
                let v = i32::try_from(b).unwrap();
                chk!(p.as_i32() == Some(&v) && b.as_i32() == Some(&v), "as_i32");
                chk!(p.clone().into_i32().ok() == Some(v) && b.clone().into_i32().ok() == Some(v), "into_i32");
                chk!(u32::try_from(b).is_err() && p.clone().into_u32().is_err() && p.as_u32().is_none(), "i32 as other");
                out.push("i".into());
                out.push((v as u32 as u64).to_string());
            }
            signature::Base::Uint32 => {
                let v = u32::try_from(b).unwrap();
                chk!(p.as_u32() == Some(&v) && b.as_u32() == Some(&v), "as_u32");
                chk!(p.clone().into_u32().ok() == Some(v) && b.clone().into_u32().ok() == Some(v), "into_u32");
                chk!(i32::try_from(b).is_err() && p.clone().into_i32().is_err() && p.as_i32().is_none(), "u32 as other");
                out.push("u".into());
                out.push((v as u64).to_string());
            }
            signature::Base::Int64 => {
                let v = i64::try_from(b).unwrap();
                chk!(p.as_i64() == Some(&v) && b.as_i64() == Some(&v), "as_i64");
                chk!(p.clone().into_i64().ok() == Some(v) && b.clone().into_i64().ok() == Some(v), "into_i64");
                chk!(u64::try_from(b).is_err() && f64::try_from(b).is_err() && p.clone().into_u64().is_err(), "i64 as other");
                out.push("x".into());
                out.push((v as u64).to_string());
            }
            signature::Base::Uint64 => {
                let v = u64::try_from(b).unwrap();
                chk!(p.as_u64() == Some(&v) && b.as_u64() == Some(&v), "as_u64");
                chk!(p.clone().into_u64().ok() == Some(v) && b.clone().into_u64().ok() == Some(v), "into_u64");
                chk!(i64::try_from(b).is_err() && f64::try_from(b).is_err() && p.clone().into_f64().is_err(), "u64 as other");
                out.push("t".into());
                out.push(v.to_string());
            }
            signature::Base::Double => {
                let v = f64::try_from(b).unwrap().to_bits();
                chk!(p.clone().into_f64().ok().map(|x| x.to_bits()) == Some(v), "into_f64");
                chk!(b.clone().into_f64().ok().map(|x| x.to_bits()) == Some(v), "Base::into_f64");
                chk!(u64::try_from(b).is_err() && p.clone().into_u64().is_err() && p.as_u64().is_none(), "f64 as other");
                out.push("d".into());
                out.push(v.to_string());
            }
            signature::Base::String => {
                let v = match b {
                    Base::StringRef(_) => <&str>::try_from(b).unwrap().to_owned(),
                    _ => {
                        chk!(<&str>::try_from(b).is_err(), "owned string as &str");
                        String::try_from(b).unwrap()
                    }
                };
                chk!(p.as_str() == Some(v.as_str()) && b.as_str() == Some(v.as_str()), "as_str");
                chk!(p.clone().into_string().ok().or(p.clone().into_str().ok().map(|x| x.to_owned())) == Some(v.clone()), "into_string");
                chk!(u8::try_from(b).is_err(), "string as other");
                out.push("s".into());
                out.push(hex(v.as_bytes()));
            }
            signature::Base::ObjectPath => {
                chk!(String::try_from(b).is_err() && p.as_str().is_none(), "path as string");
                match b {
                    Base::ObjectPath(s) => {
                        out.push("o".into());
                        out.push(hex(s.as_bytes()));
                    }
                    Base::ObjectPathRef(s) => {
                        out.push("o".into());
                        out.push(hex(s.as_bytes()));
                    }
                    _ => out.push("CONVBUG:path kind".into()),
                }
            }
            signature::Base::Signature => {
                chk!(String::try_from(b).is_err() && p.as_str().is_none(), "signature as string");
                match b {
                    Base::Signature(s) => {
                        out.push("g".into());
                        out.push(hex(s.as_bytes()));
                    }
                    Base::SignatureRef(s) => {
                        out.push("g".into());
                        out.push(hex(s.as_bytes()));
                    }
                    _ => out.push("CONVBUG:signature kind".into()),
                }
            }
            signature::Base::UnixFd => out.push("CONVBUG:fd".into()),
        }
        return;
    }
    chk!(p.as_base().is_none() && p.clone().into_container().is_ok(), "into_container");
    let ty = signature::Type::from(p); // From<&Param> for Type
    chk!(ty == p.sig(), "Type::from vs sig()");
    match ty {
        signature::Type::Container(signature::Container::Array(elem)) => {
            let items = p.as_slice().unwrap_or(&[]);
            chk!(p.as_slice().is_some(), "as_slice(array)");
            out.push("a".into());
            out.push(sig_str(&elem));
            out.push(items.len().to_string());
            for x in items {
                conv_tok(x, out);
            }
        }
        signature::Type::Container(signature::Container::Struct(_)) => {
            let items = p.as_slice().unwrap_or(&[]);
            chk!(p.as_slice().is_some(), "as_slice(struct)");
            out.push("r".into());
            out.push(items.len().to_string());
            for x in items {
                conv_tok(x, out);
            }
        }
        signature::Type::Container(signature::Container::Dict(k, v)) => {
            chk!(p.as_slice().is_none(), "as_slice(dict)");
            if let Ok(Container::Dict(d)) = p.clone().into_container() {
                out.push("e".into());
                out.push(sig_str(&signature::Type::Base(k)));
                out.push(sig_str(&v));
                out.push(d.map.len().to_string());
                let mut entries: Vec<Vec<String>> = d
                    .map
                    .iter()
                    .map(|(k, v)| {
                        let mut e = Vec::new();
                        conv_tok(&Param::from(k.clone()), &mut e);
                        conv_tok(v, &mut e);
                        e
                    })
                    .collect();
                entries.sort();
                for e in entries {
                    out.extend(e);
                }
            } else {
                out.push("CONVBUG:dict".into());
            }
        }
        signature::Type::Container(signature::Container::Variant) => {
            if let Ok(Container::Variant(v)) = p.clone().into_container() {
                out.push("v".into());
                out.push(sig_str(&v.sig));
                chk!(v.sig == v.value.sig(), "variant sig");
                conv_tok(&v.value, out);
            } else {
                out.push("CONVBUG:variant".into());
            }
        }
        _ => out.push("CONVBUG:type".into()),
    }
}
fn read_param_conv(p: &mut MessageBodyParser) -> String {
    let r = p.get_param();
    match r {
        Ok(v) => {
            let mut out = Vec::new();
            conv_tok(&v, &mut out);
            drop(v);
            format!("ok,{},{}", trailer(p), out.join("_"))
        }
        Err(e) => err_name(&e).to_string(),
    }
}

/// CV: one Base through From, then everything the reading side offers
fn cv(mode: &str, rest: &str) -> String {
    use std::convert::TryFrom;
    let mut a = Args::new(rest);
    let tag = a.next();
    let mut c = Conv { mode: mode.chars().next().unwrap(), n: 0 };
    let b = c.base(&mut a, tag);
    let p = Param::from(b.clone());
    let mut out = vec![format!("sig={}", sigs_of(&p))];
    macro_rules! t {
        ($name:expr, $e:expr) => {
            if let Some(v) = $e {
                out.push(format!("{}:{}", $name, v));
            }
        };
    }
    t!("try_bool", bool::try_from(&b).ok().map(|x| x as u64));
    t!("try_u8", u8::try_from(&b).ok());
    t!("try_u16", u16::try_from(&b).ok());
    t!("try_u32", u32::try_from(&b).ok());
    t!("try_u64", u64::try_from(&b).ok());
    t!("try_i16", i16::try_from(&b).ok().map(|x| x as u16));
    t!("try_i32", i32::try_from(&b).ok().map(|x| x as u32));
    t!("try_i64", i64::try_from(&b).ok().map(|x| x as u64));
    t!("try_f64", f64::try_from(&b).ok().map(|x| x.to_bits()));
    t!("try_String", String::try_from(&b).ok().map(|x| hex(x.as_bytes())));
    t!("try_str", <&str>::try_from(&b).ok().map(|x| hex(x.as_bytes())));
    t!("as_bool", p.as_bool().map(|x| *x as u64));
    t!("as_byte", p.as_byte());
    t!("as_u16", p.as_u16());
    t!("as_u32", p.as_u32());
    t!("as_u64", p.as_u64());
    t!("as_i16", p.as_i16().map(|x| *x as u16));
    t!("as_i32", p.as_i32().map(|x| *x as u32));
    t!("as_i64", p.as_i64().map(|x| *x as u64));
    t!("as_str", p.as_str().map(|x| hex(x.as_bytes())));
    t!("into_bool", p.clone().into_bool().ok().map(|x| x as u64));
    t!("into_byte", p.clone().into_byte().ok());
    t!("into_u16", p.clone().into_u16().ok());
    t!("into_u32", p.clone().into_u32().ok());
    t!("into_u64", p.clone().into_u64().ok());
    t!("into_i16", p.clone().into_i16().ok().map(|x| x as u16));
    t!("into_i32", p.clone().into_i32().ok().map(|x| x as u32));
    t!("into_i64", p.clone().into_i64().ok().map(|x| x as u64));
    t!("into_f64", p.clone().into_f64().ok().map(|x| x.to_bits()));
    t!("into_string", p.clone().into_string().ok().map(|x| hex(x.as_bytes())));
    t!("into_str", p.clone().into_str().ok().map(|x| hex(x.as_bytes())));
    // the Base-level twins must agree with the Param-level ones
    let twins = b.as_bool().map(|x| *x as u64) == p.as_bool().map(|x| *x as u64)
        && b.as_byte() == p.as_byte()
        && b.as_u16() == p.as_u16()
        && b.as_u32() == p.as_u32()
        && b.as_u64() == p.as_u64()
        && b.as_i16() == p.as_i16()
        && b.as_i32() == p.as_i32()
        && b.as_i64() == p.as_i64()
        && b.as_str() == p.as_str()
        && b.clone().into_f64().ok().map(|x| x.to_bits()) == p.clone().into_f64().ok().map(|x| x.to_bits())
        && b.clone().into_u64().ok() == p.clone().into_u64().ok()
        && b.clone().into_string().ok() == p.clone().into_string().ok()
        && b.clone().into_str().ok() == p.clone().into_str().ok()
        && p.as_base() == Some(&b)
        && p.as_slice().is_none()
        && p.clone().into_container().is_err();
    out.push(format!("twins={}", twins));
    out.join(" ")
}

/// CF: what the constructors and conversions must refuse
fn cf() -> String {
    use rustbus::params::DictMap;
    use std::convert::TryFrom;
    let u = || Param::from(1u32);
    let s = || Param::from("x".to_owned());
    let ty = |x: &str| parse_one_type(x);
    let r = |b: bool| if b { "refused" } else { "ACCEPTED" };
    let mut out = Vec::new();
    out.push(format!("empty_vec={}", r(Container::try_from(Vec::<Param>::new()).is_err())));
    out.push(format!("empty_map={}", r(Container::try_from(DictMap::new()).is_err())));
    out.push(format!("mixed_vec={}", r(Container::try_from(vec![u(), s()]).is_err())));
    out.push(format!("mixed_with_sig={}", r(Container::try_from((ty("u"), vec![u(), s()])).is_err())));
    out.push(format!("wrong_elem_sig={}", r(Container::try_from((ty("s"), vec![u()])).is_err())));
    out.push(format!("make_array_wrong={}", r(Container::make_array("s", vec![u()].into_iter()).is_err())));
    out.push(format!("make_array_two_types={}", r(Container::make_array("us", vec![u()].into_iter()).is_err())));
    out.push(format!("make_array_bad_sig={}", r(Container::make_array("(", vec![u()].into_iter()).is_err())));
    out.push(format!("make_array_ref_wrong={}", r(Container::make_array_ref("s", leak_slice(vec![u()])).is_err())));
    let mut m = DictMap::new();
    m.insert(Base::from(1u8), s());
    out.push(format!("dict_wrong_key={}", r(Container::try_from((signature::Base::String, ty("s"), m.clone())).is_err())));
    out.push(format!("dict_wrong_val={}", r(Container::try_from((signature::Base::Byte, ty("u"), m.clone())).is_err())));
    out.push(format!("make_dict_key_not_base={}", r(Container::make_dict("v", "s", m.clone().into_iter()).is_err())));
    out.push(format!("make_dict_wrong={}", r(Container::make_dict("s", "s", m.clone().into_iter()).is_err())));
    out.push(format!("make_dict_ref_wrong={}", r(Container::make_dict_ref("y", "u", leak(m.clone())).is_err())));
    let mut mixed = DictMap::new();
    mixed.insert(Base::from(1u8), s());
    mixed.insert(Base::from(2u8), u());
    out.push(format!("mixed_map={}", r(Container::try_from(mixed).is_err())));
    let mut arr = Container::make_array("u", vec![u()].into_iter()).unwrap();
    out.push(format!("push_wrong={}", r(arr.push(s()).is_err())));
    out.push(format!("push_right={}", r(arr.push(u()).is_err())));
    out.push(format!("insert_into_array={}", r(arr.insert(1u8, u()).is_err())));
    let mut d = Container::try_from(m).unwrap();
    out.push(format!("insert_wrong_key={}", r(d.insert("k", s()).is_err())));
    out.push(format!("insert_wrong_val={}", r(d.insert(3u8, u()).is_err())));
    out.push(format!("insert_right={}", r(d.insert(3u8, s()).is_err())));
    out.push(format!("push_into_dict={}", r(d.push(u()).is_err())));
    let mut v = Container::make_variant(u());
    out.push(format!("push_into_variant={}", r(v.push(u()).is_err())));
    // accepted things, for contrast: their signatures
    out.push(format!("ok_vec={}", Container::try_from(vec![u(), u()]).map(|c| sigs_of(&Param::from(c))).unwrap_or("ERR".into())));
    out.push(format!("ok_map={}", sigs_of(&Param::from(d))));
    out.push(format!("ok_struct={}", sigs_of(&Param::from(Container::make_struct2(1u8, "x")))));
    out.push(format!("ok_variant={}", sigs_of(&Param::from(v))));
    out.join(" ")
}

// ------------------------------------------------------------------------------------------------ bodies
/// a message whose body has `prefix` u8 parameters (the wrapper gives access to signature and bytes)
fn new_body(bo: rustbus::ByteOrder, prefix: u64) -> MarshalledMessage {
    let mut msg = MarshalledMessage::new();
    msg.body = MarshalledMessageBody::with_byteorder(bo);
    for i in 0..prefix {
        msg.body.push_param((i as u8).wrapping_mul(37).wrapping_add(1)).unwrap();
    }
    msg
}
fn enc_field(name: &str, ok: bool, m: &MarshalledMessage) -> String {
    format!("enc:{}={},{},{}", name, if ok { "ok" } else { "err" }, hex(m.get_sig().as_bytes()), hex(m.get_buf()))
}
fn skip_prefix(p: &mut MessageBodyParser, prefix: u64) {
    for _ in 0..prefix {
        p.get::<u8>().unwrap();
    }
}
fn err_name(e: &UnmarshalError) -> &'static str {
    match e {
        UnmarshalError::WrongSignature => "wrongsig",
        UnmarshalError::EndOfMessage => "end",
        _ => "err",
    }
}
/// the next parameter is the trailer and nothing is left after it
fn trailer(p: &mut MessageBodyParser) -> &'static str {
    match p.get::<u8>() {
        Ok(TRAILER) => {
            if p.sigs_left() == 0 {
                "t1"
            } else {
                "t0"
            }
        }
        _ => "t0",
    }
}
/// the next parameters are AFTER and the trailer
fn after(p: &mut MessageBodyParser) -> &'static str {
    match p.get::<u32>() {
        Ok(AFTER) => {
            if trailer(p) == "t1" {
                "a1"
            } else {
                "a0"
            }
        }
        _ => "a0",
    }
}
fn toks<T: Tok>(v: &T) -> String {
    let mut out = Vec::new();
    v.to_tok(&mut out, true);
    out.join("_")
}
/// get::<T>() then the trailer
fn read_typed<T: Tok + for<'b, 'f> Unmarshal<'b, 'f>>(p: &mut MessageBodyParser) -> String {
    match p.get::<T>() {
        Ok(v) => {
            let t = toks(&v);
            drop(v);
            format!("ok,{},{}", trailer(p), t)
        }
        Err(e) => err_name(&e).to_string(),
    }
}
fn read_param(p: &mut MessageBodyParser) -> String {
    let r = p.get_param();
    match r {
        Ok(v) => {
            let mut out = Vec::new();
            param_tok(&v, &mut out);
            drop(v);
            format!("ok,{},{}", trailer(p), out.join("_"))
        }
        Err(e) => err_name(&e).to_string(),
    }
}

// ------------------------------------------------------------------------------------------------ ST / HS
fn st<T, D>(bo: rustbus::ByteOrder, prefix: u64, rest: &str) -> String
where
    T: Tok + Marshal + for<'b, 'f> Unmarshal<'b, 'f>,
    D: Tok + Marshal + for<'b, 'f> Unmarshal<'b, 'f>,
{
    let mut out = Vec::new();
    for (k, api) in ["T", "D", "P", "C", "R"].iter().enumerate() {
        let api = *api;
        let mut msg = new_body(bo, prefix);
        let ok = match api {
            "T" => msg.body.push_param(&T::from_tok(&mut Args::new(rest))).is_ok(),
            "D" => msg.body.push_param(&D::from_tok(&mut Args::new(rest))).is_ok(),
            "P" => msg.body.push_old_param(&param_from(&mut Args::new(rest))).is_ok(),
            _ => {
                // the rotation of constructor flavours starts at a point that depends on the case
                let mut c = Conv { mode: api.chars().next().unwrap(), n: prefix as usize + k + rest.len() };
                match c.param(&mut Args::new(rest)) {
                    Ok(p) => {
                        out.push(format!("sigs:{}={}", api, sigs_of(&p)));
                        msg.body.push_old_param(&p).is_ok()
                    }
                    Err(e) => {
                        out.push(format!("sigs:{}=CONVERR({})", api, e.replace(' ', "")));
                        false
                    }
                }
            }
        };
        out.push(enc_field(api, ok, &msg));
        if !ok {
            continue;
        }
        msg.body.push_param(TRAILER).unwrap();
        for dec in ["T", "D", "P", "X"] {
            let mut p = msg.body.parser();
            skip_prefix(&mut p, prefix);
            let r = match dec {
                "T" => read_typed::<T>(&mut p),
                "D" => read_typed::<D>(&mut p),
                "X" => read_param_conv(&mut p),
                _ => read_param(&mut p),
            };
            out.push(format!("dec:{}{}={}", api, dec, r));
        }
    }
    out.join(" ")
}

fn hs<T, D, O>(bo: rustbus::ByteOrder, rest: &str) -> String
where
    T: Tok + for<'b, 'f> Unmarshal<'b, 'f>,
    D: Tok + for<'b, 'f> Unmarshal<'b, 'f>,
    O: Tok + Marshal + for<'b, 'f> Unmarshal<'b, 'f>,
{
    let mut msg = new_body(bo, 0);
    let ok = msg.body.push_param(&O::from_tok(&mut Args::new(rest))).is_ok();
    if !ok {
        return enc_field("O", ok, &msg);
    }
    msg.body.push_param(TRAILER).unwrap();
    let mut out = vec![enc_field("O", ok, &msg)];
    out.push(format!("get:D={}", read_typed::<D>(&mut msg.body.parser())));
    out.push(format!("get:T={}", read_typed::<T>(&mut msg.body.parser())));
    out.push(format!("get:O={}", read_typed::<O>(&mut msg.body.parser())));
    out.join(" ")
}

/// "other" types: the content of out-of-list variants (EO) and the bodies the derived structs are asked to match (HS)
macro_rules! with_other {
    ($name:expr, $f:ident, [$($pre:ty),*], ($($arg:expr),*)) => {
        match $name {
            "y" => $f::<$($pre,)* u8>($($arg),*),
            "n" => $f::<$($pre,)* i16>($($arg),*),
            "q" => $f::<$($pre,)* u16>($($arg),*),
            "u" => $f::<$($pre,)* u32>($($arg),*),
            "x" => $f::<$($pre,)* i64>($($arg),*),
            "t" => $f::<$($pre,)* u64>($($arg),*),
            "b" => $f::<$($pre,)* bool>($($arg),*),
            "d" => $f::<$($pre,)* F64>($($arg),*),
            "s" => $f::<$($pre,)* String>($($arg),*),
            "o" => $f::<$($pre,)* Path>($($arg),*),
            "g" => $f::<$($pre,)* Sig>($($arg),*),
            "ay" => $f::<$($pre,)* Vec<u8>>($($arg),*),
            "at" => $f::<$($pre,)* Vec<u64>>($($arg),*),
            "as" => $f::<$($pre,)* Vec<String>>($($arg),*),
            "a(yt)" => $f::<$($pre,)* Vec<(u8, u64)>>($($arg),*),
            "aat" => $f::<$($pre,)* Vec<Vec<u64>>>($($arg),*),
            "a{su}" => $f::<$($pre,)* HashMap<String, u32>>($($arg),*),
            "a{sv[u]}" => $f::<$($pre,)* HashMap<String, Var<u32>>>($($arg),*),
            "v[y]" => $f::<$($pre,)* Var<u8>>($($arg),*),
            "v[v[s]]" => $f::<$($pre,)* Var<Var<String>>>($($arg),*),
            "(y)" => $f::<$($pre,)* (u8,)>($($arg),*),
            "(t)" => $f::<$($pre,)* (u64,)>($($arg),*),
            "(yt)" => $f::<$($pre,)* (u8, u64)>($($arg),*),
            "(ty)" => $f::<$($pre,)* (u64, u8)>($($arg),*),
            "(yu)" => $f::<$($pre,)* (u8, u32)>($($arg),*),
            "(uu)" => $f::<$($pre,)* (u32, u32)>($($arg),*),
            "(yty)" => $f::<$($pre,)* (u8, u64, u8)>($($arg),*),
            "(y(t))" => $f::<$($pre,)* (u8, (u64,))>($($arg),*),
            "((yt))" => $f::<$($pre,)* ((u8, u64),)>($($arg),*),
            "((y)t)" => $f::<$($pre,)* ((u8,), u64)>($($arg),*),
            "(ysy)" => $f::<$($pre,)* (u8, String, u8)>($($arg),*),
            "(ys)" => $f::<$($pre,)* (u8, String)>($($arg),*),
            "(ysyy)" => $f::<$($pre,)* (u8, String, u8, u8)>($($arg),*),
            "(sy)" => $f::<$($pre,)* (String, u8)>($($arg),*),
            "(tyu)" => $f::<$($pre,)* (u64, u8, u32)>($($arg),*),
            "(tyuy)" => $f::<$($pre,)* (u64, u8, u32, u8)>($($arg),*),
            "(y(yt))" => $f::<$($pre,)* (u8, (u8, u64))>($($arg),*),
            "(y(ty))" => $f::<$($pre,)* (u8, (u64, u8))>($($arg),*),
            "(yyt)" => $f::<$($pre,)* (u8, u8, u64)>($($arg),*),
            "(aty)" => $f::<$($pre,)* (Vec<u64>, u8)>($($arg),*),
            "(ayy)" => $f::<$($pre,)* (Vec<u8>, u8)>($($arg),*),
            "(u)" => $f::<$($pre,)* (u32,)>($($arg),*),
            "(s)" => $f::<$($pre,)* (String,)>($($arg),*),
            "(n)" => $f::<$($pre,)* (i16,)>($($arg),*),
            "(tv[u])" => $f::<$($pre,)* (u64, Var<u32>)>($($arg),*),
            "(v[u]y)" => $f::<$($pre,)* (Var<u32>, u8)>($($arg),*),
            "(v[y]y)" => $f::<$($pre,)* (Var<u8>, u8)>($($arg),*),
            "<yt>" => $f::<$($pre,)* SYt>($($arg),*),
            "<ysy>" => $f::<$($pre,)* SYsy>($($arg),*),
            "<yv[(yt)]sny>" => $f::<$($pre,)* SFive>($($arg),*),
            "(yv[(yt)]s)" => $f::<$($pre,)* (u8, Var<(u8, u64)>, String)>($($arg),*),
            "(atyy)" => $f::<$($pre,)* (Vec<u64>, u8, u8)>($($arg),*),
            x => format!("BAD other type {}", x),
        }
    };
}
const OTHERS: &[&str] = &[
    "y", "n", "q", "u", "x", "t", "b", "d", "s", "o", "g", "ay", "at", "as", "a(yt)", "aat", "a{su}", "a{sv[u]}", "v[y]", "v[v[s]]",
    "(y)", "(t)", "(yt)", "(ty)", "(yu)", "(uu)", "(yty)", "(y(t))", "((yt))", "((y)t)", "(ysy)", "(ys)", "(ysyy)", "(sy)", "(tyu)",
    "(tyuy)", "(y(yt))", "(y(ty))", "(yyt)", "(aty)", "(ayy)", "(u)", "(s)", "(n)", "(tv[u])", "(v[u]y)", "(v[y]y)", "<yt>", "<ysy>",
    // one field more / one field fewer than the 4-field shape <yv[(yt)]sn> (every tuple arity 1..4 needs both among the others)
    "<yv[(yt)]sny>", "(yv[(yt)]s)", "(atyy)",
];

macro_rules! with_shape {
    ($name:expr, $m:ident, ($($arg:tt)*)) => {
        match $name {
            "<yt>" => $m!((u8, u64), SYt, $($arg)*),
            "<ysy>" => $m!((u8, String, u8), SYsy, $($arg)*),
            "<tyu>" => $m!((u64, u8, u32), STyu, $($arg)*),
            "<u>" => $m!((u32,), SU, $($arg)*),
            "<s>" => $m!((String,), SS, $($arg)*),
            "<y<yt>>" => $m!((u8, (u8, u64)), SNested, $($arg)*),
            "<y(yt)<ysy>>" => $m!((u8, (u8, u64), (u8, String, u8)), SMixed, $($arg)*),
            "<aty>" => $m!((Vec<u64>, u8), SVec, $($arg)*),
            "<ya{su}q>" => $m!((u8, HashMap<String, u32>, u16), SMap, $($arg)*),
            "<v[u]y>" => $m!((Var<u32>, u8), SVar, $($arg)*),
            "<yv[(yt)]sn>" => $m!((u8, Var<(u8, u64)>, String, i16), SFour, $($arg)*),
            "<a<yt>y>" => $m!((Vec<(u8, u64)>, u8), SVecD, $($arg)*),
            "<bd>" => $m!((bool, F64), SBd, $($arg)*),
            "<gto>" => $m!((Sig, u64, Path), SGt, $($arg)*),
            "<ya(ys)>" => $m!((u8, Vec<(u8, String)>), SArrS, $($arg)*),
            "<yv[<yt>]>" => $m!((u8, Var<(u8, u64)>), SVarD, $($arg)*),
            "<a{y<yt>}y>" => $m!((HashMap<u8, (u8, u64)>, u8), SMapD, $($arg)*),
            x => format!("BAD shape {}", x),
        }
    };
}
const SHAPES: &[&str] = &[
    "<yt>", "<ysy>", "<tyu>", "<u>", "<s>", "<y<yt>>", "<y(yt)<ysy>>", "<aty>", "<ya{su}q>", "<v[u]y>", "<yv[(yt)]sn>", "<a<yt>y>",
    "<bd>", "<gto>", "<ya(ys)>", "<yv[<yt>]>", "<a{y<yt>}y>",
];
/// the raw-slice shapes (ST only; see slice_structs! above)
macro_rules! with_slice_shape {
    ($name:expr, $m:ident, ($($arg:tt)*)) => {
        match $name {
            "<yay>" => $m!((u8, Vec<u8>), SlCy, $($arg)*),
            "<yan>" => $m!((u8, Vec<i16>), SlCn, $($arg)*),
            "<yaq>" => $m!((u8, Vec<u16>), SlCq, $($arg)*),
            "<yai>" => $m!((u8, Vec<i32>), SlCi, $($arg)*),
            "<yau>" => $m!((u8, Vec<u32>), SlCu, $($arg)*),
            "<yax>" => $m!((u8, Vec<i64>), SlCx, $($arg)*),
            "<yat>" => $m!((u8, Vec<u64>), SlCt, $($arg)*),
            "<yad>" => $m!((u8, Vec<f64>), SlCd, $($arg)*),
            "<ayn>" => $m!((SliceR<u8>, i16), SlRy, $($arg)*),
            "<ann>" => $m!((SliceR<i16>, i16), SlRn, $($arg)*),
            "<aqn>" => $m!((SliceR<u16>, i16), SlRq, $($arg)*),
            "<ain>" => $m!((SliceR<i32>, i16), SlRi, $($arg)*),
            "<aun>" => $m!((SliceR<u32>, i16), SlRu, $($arg)*),
            "<axn>" => $m!((SliceR<i64>, i16), SlRx, $($arg)*),
            "<atn>" => $m!((SliceR<u64>, i16), SlRt, $($arg)*),
            "<adn>" => $m!((SliceR<f64>, i16), SlRd, $($arg)*),
            "<aadaaqa{yai}>" => $m!((Vec<Vec<f64>>, Vec<Vec<u16>>, HashMap<u8, Vec<i32>>), SlNest, $($arg)*),
            x => format!("BAD slice shape {}", x),
        }
    };
}
const SLICES: &[&str] = &[
    "<yay>", "<yan>", "<yaq>", "<yai>", "<yau>", "<yax>", "<yat>", "<yad>", "<ayn>", "<ann>", "<aqn>", "<ain>", "<aun>", "<axn>",
    "<atn>", "<adn>", "<aadaaqa{yai}>",
];
macro_rules! call_st {
    ($T:ty, $D:ty, $bo:expr, $prefix:expr, $rest:expr) => {
        st::<$T, $D>($bo, $prefix, $rest)
    };
}
macro_rules! call_hs {
    ($T:ty, $D:ty, $bo:expr, $other:expr, $rest:expr) => {
        with_other!($other, hs, [$T, $D], ($bo, $rest))
    };
}

// ------------------------------------------------------------------------------------------------ enums
#[derive(Marshal, Unmarshal, Signature, Debug)]
pub enum E1D {
    A(u32),
    B(String),
    C(u8, u64),
    D { x: Vec<u64>, y: u8 },
}
pub type E1C = (u8, u64);
pub type E1Dt = (Vec<u64>, u8);
dbus_variant_sig!(E1S, A => u32; B => String; C => E1C; D => E1Dt);
dbus_variant_var!(E1M, A => u32; B => String; C => E1C; D => E1Dt);
const E1_DESC: &str = "1:u|1:s|m:yt|n:aty";

#[derive(Marshal, Unmarshal, Signature, Debug)]
pub enum E2D {
    A(u8),
    B(Vec<u64>),
    C(String, u8),
    D { a: u64, b: Vr<u32> },
    E(SYt),
    F { only: i16 },
    G(HashMap<String, u32>),
}
pub type E2B = Vec<u64>;
pub type E2C = (String, u8);
pub type E2Dt = (u64, Vr<u32>);
pub type E2F = (i16,);
pub type E2G = HashMap<String, u32>;
dbus_variant_sig!(E2S, A => u8; B => E2B; C => E2C; D => E2Dt; E => SYt; F => E2F; G => E2G);
dbus_variant_var!(E2M, A => u8; B => E2B; C => E2C; D => E2Dt; E => SYt; F => E2F; G => E2G);
const E2_DESC: &str = "1:y|1:at|m:sy|n:tv[u]|1:<yt>|n:n|1:a{su}";

/// result of reading an enum: "c<i>,<variant tokens>" or "catch,<sig>[,<inner tokens>]"
fn case_str<T: Tok + Signature>(i: usize, payload: &T) -> String {
    format!("c{},v_{}_{}", i, sig_of::<T>(), toks(payload))
}

trait EnumSet {
    /// push the case `i` with the payload given by `rest` through API `api` (V, D, S, M)
    fn push(api: &str, i: usize, rest: &str, body: &mut MarshalledMessageBody) -> bool;
    /// get::<Var<T_i>>()
    fn read_v(i: usize, p: &mut MessageBodyParser) -> String;
    /// get::<the enum of kind `api`>(); `inner` reads the content of dbus_variant_var!'s Catchall
    fn read_enum(api: &str, p: &mut MessageBodyParser, inner: &dyn Fn(&rustbus::wire::unmarshal::traits::Variant) -> String) -> Result<String, UnmarshalError>;
}

macro_rules! push_case {
    ($api:expr, $rest:expr, $body:expr, $T:ty, $mkd:expr, $mks:expr, $mkm:expr) => {{
        match $api {
            "V" => $body.push_param(&Var(<$T>::from_tok(&mut Args::new($rest)))).is_ok(),
            "W" => $body.push_variant(<$T>::from_tok(&mut Args::new($rest))).is_ok(),
            "D" => {
                let f: fn($T) -> _ = $mkd;
                $body.push_param(&f(<$T>::from_tok(&mut Args::new($rest)))).is_ok()
            }
            "S" => {
                let f: fn($T) -> _ = $mks;
                $body.push_param(&f(<$T>::from_tok(&mut Args::new($rest)))).is_ok()
            }
            _ => {
                let f: fn($T) -> _ = $mkm;
                $body.push_param(&f(<$T>::from_tok(&mut Args::new($rest)))).is_ok()
            }
        }
    }};
}

struct Set1;
impl EnumSet for Set1 {
    fn push(api: &str, i: usize, rest: &str, body: &mut MarshalledMessageBody) -> bool {
        match i {
            0 => push_case!(api, rest, body, u32, |x| E1D::A(x), |x| E1S::A(x), |x| E1M::A(x)),
            1 => push_case!(api, rest, body, String, |x| E1D::B(x), |x| E1S::B(x), |x| E1M::B(x)),
            2 => push_case!(api, rest, body, E1C, |x| E1D::C(x.0, x.1), |x| E1S::C(x), |x| E1M::C(x)),
            3 => push_case!(api, rest, body, E1Dt, |x| E1D::D { x: x.0, y: x.1 }, |x| E1S::D(x), |x| E1M::D(x)),
            _ => panic!("case"),
        }
    }
    fn read_v(i: usize, p: &mut MessageBodyParser) -> String {
        match i {
            0 => read_typed::<Var<u32>>(p),
            1 => read_typed::<Var<String>>(p),
            2 => read_typed::<Var<E1C>>(p),
            3 => read_typed::<Var<E1Dt>>(p),
            _ => panic!("case"),
        }
    }
    fn read_enum(api: &str, p: &mut MessageBodyParser, inner: &dyn Fn(&rustbus::wire::unmarshal::traits::Variant) -> String) -> Result<String, UnmarshalError> {
        Ok(match api {
            "D" => match p.get::<E1D>()? {
                E1D::A(x) => case_str(0, &x),
                E1D::B(x) => case_str(1, &x),
                E1D::C(a, b) => case_str(2, &(a, b)),
                E1D::D { x, y } => case_str(3, &(x, y)),
            },
            "S" => match p.get::<E1S>()? {
                E1S::A(x) => case_str(0, &x),
                E1S::B(x) => case_str(1, &x),
                E1S::C(x) => case_str(2, &x),
                E1S::D(x) => case_str(3, &x),
                E1S::Catchall(t) => format!("catch,{}", sig_str(&t)),
            },
            _ => match p.get::<E1M>()? {
                E1M::A(x) => case_str(0, &x),
                E1M::B(x) => case_str(1, &x),
                E1M::C(x) => case_str(2, &x),
                E1M::D(x) => case_str(3, &x),
                E1M::Catchall(v) => format!("catch,{},{}", sig_str(v.get_value_sig()), inner(&v)),
            },
        })
    }
}

struct Set2;
impl EnumSet for Set2 {
    fn push(api: &str, i: usize, rest: &str, body: &mut MarshalledMessageBody) -> bool {
        match i {
            0 => push_case!(api, rest, body, u8, |x| E2D::A(x), |x| E2S::A(x), |x| E2M::A(x)),
            1 => push_case!(api, rest, body, E2B, |x| E2D::B(x), |x| E2S::B(x), |x| E2M::B(x)),
            2 => push_case!(api, rest, body, E2C, |x| E2D::C(x.0, x.1), |x| E2S::C(x), |x| E2M::C(x)),
            3 => push_case!(api, rest, body, E2Dt, |x| E2D::D { a: x.0, b: x.1 }, |x| E2S::D(x), |x| E2M::D(x)),
            4 => push_case!(api, rest, body, SYt, |x| E2D::E(x), |x| E2S::E(x), |x| E2M::E(x)),
            5 => push_case!(api, rest, body, E2F, |x| E2D::F { only: x.0 }, |x| E2S::F(x), |x| E2M::F(x)),
            6 => push_case!(api, rest, body, E2G, |x| E2D::G(x), |x| E2S::G(x), |x| E2M::G(x)),
            _ => panic!("case"),
        }
    }
    fn read_v(i: usize, p: &mut MessageBodyParser) -> String {
        match i {
            0 => read_typed::<Var<u8>>(p),
            1 => read_typed::<Var<E2B>>(p),
            2 => read_typed::<Var<E2C>>(p),
            3 => read_typed::<Var<E2Dt>>(p),
            4 => read_typed::<Var<SYt>>(p),
            5 => read_typed::<Var<E2F>>(p),
            6 => read_typed::<Var<E2G>>(p),
            _ => panic!("case"),
        }
    }
    fn read_enum(api: &str, p: &mut MessageBodyParser, inner: &dyn Fn(&rustbus::wire::unmarshal::traits::Variant) -> String) -> Result<String, UnmarshalError> {
        Ok(match api {
            "D" => match p.get::<E2D>()? {
                E2D::A(x) => case_str(0, &x),
                E2D::B(x) => case_str(1, &x),
                E2D::C(a, b) => case_str(2, &(a, b)),
                E2D::D { a, b } => case_str(3, &(a, b)),
                E2D::E(x) => case_str(4, &x),
                E2D::F { only } => case_str(5, &(only,)),
                E2D::G(x) => case_str(6, &x),
            },
            "S" => match p.get::<E2S>()? {
                E2S::A(x) => case_str(0, &x),
                E2S::B(x) => case_str(1, &x),
                E2S::C(x) => case_str(2, &x),
                E2S::D(x) => case_str(3, &x),
                E2S::E(x) => case_str(4, &x),
                E2S::F(x) => case_str(5, &x),
                E2S::G(x) => case_str(6, &x),
                E2S::Catchall(t) => format!("catch,{}", sig_str(&t)),
            },
            _ => match p.get::<E2M>()? {
                E2M::A(x) => case_str(0, &x),
                E2M::B(x) => case_str(1, &x),
                E2M::C(x) => case_str(2, &x),
                E2M::D(x) => case_str(3, &x),
                E2M::E(x) => case_str(4, &x),
                E2M::F(x) => case_str(5, &x),
                E2M::G(x) => case_str(6, &x),
                E2M::Catchall(v) => format!("catch,{},{}", sig_str(v.get_value_sig()), inner(&v)),
            },
        })
    }
}


// ---- E3: case signatures at and beyond the 255 bytes a variant's signature may have
pub type A1 = (String, String, String, String); // (ssss): 6
pub type A2 = (A1, A1, A1, A1); // 26
pub type A3 = (A2, A2, A2, A2); // 106
pub type Big = (A3, A3, A3); // 320
pub type D11 = Vec<Vec<Vec<Vec<Vec<Vec<Vec<Vec<Vec<Vec<Vec<String>>>>>>>>>>>; // a^11 s: 12
pub type D12 = Vec<D11>; // 13
pub type D13 = Vec<D12>; // 14
pub type T255 = (A3, A3, (A2, D12)); // 2 + 106 + 106 + (2 + 26 + 13) = 255
pub type T256 = (A3, A3, (A2, D13)); // 256
pub type Bm41 = (A2, D11, u8); // 2 + 26 + 12 + 1 = 41
pub type Bm42 = (A2, D12, u8);
pub type Bn41 = (A2, D11, bool);
pub type Bn42 = (A2, D12, bool);
pub type M255 = (A3, A3, Bm41); // as one tuple: what the macro enums hold for the multi-field cases
pub type M256 = (A3, A3, Bm42);
pub type N255 = (A3, A3, Bn41);
pub type N256 = (A3, A3, Bn42);
#[derive(Marshal, Unmarshal, Signature, Debug)]
pub enum E3D {
    S255(T255),
    S256(T256),
    SBig(Big),
    M255(A3, A3, Bm41),
    M256(A3, A3, Bm42),
    N255 { a: A3, b: A3, c: Bn41 },
    N256 { a: A3, b: A3, c: Bn42 },
    MBig(A3, A3, A3),
    NBig { a: A3, b: A3, c: A3 },
}
dbus_variant_sig!(E3S, S255 => T255; S256 => T256; SBig => Big; M255 => M255; M256 => M256; N255 => N255; N256 => N256; MBig => Big; NBig => Big);
dbus_variant_var!(E3M, S255 => T255; S256 => T256; SBig => Big; M255 => M255; M256 => M256; N255 => N255; N256 => N256; MBig => Big; NBig => Big);
fn e3_desc() -> String {
    let a1 = "(ssss)".to_string();
    let a2 = format!("({})", a1.repeat(4));
    let a3 = format!("({})", a2.repeat(4));
    let d = |n: usize| format!("{}s", "a".repeat(n));
    let inner = |x: String| format!("{}{}{}", a3, a3, x);
    [
        format!("1:({})", inner(format!("({}{})", a2, d(12)))),
        format!("1:({})", inner(format!("({}{})", a2, d(13)))),
        format!("1:({})", inner(a3.clone())),
        format!("m:{}", inner(format!("({}{}y)", a2, d(11)))),
        format!("m:{}", inner(format!("({}{}y)", a2, d(12)))),
        format!("n:{}", inner(format!("({}{}b)", a2, d(11)))),
        format!("n:{}", inner(format!("({}{}b)", a2, d(12)))),
        format!("m:{}", inner(a3.clone())),
        format!("n:{}", inner(a3.clone())),
    ]
    .join("|")
}
struct Set3;
impl EnumSet for Set3 {
    fn push(api: &str, i: usize, rest: &str, body: &mut MarshalledMessageBody) -> bool {
        match i {
            0 => push_case!(api, rest, body, T255, |x| E3D::S255(x), |x| E3S::S255(x), |x| E3M::S255(x)),
            1 => push_case!(api, rest, body, T256, |x| E3D::S256(x), |x| E3S::S256(x), |x| E3M::S256(x)),
            2 => push_case!(api, rest, body, Big, |x| E3D::SBig(x), |x| E3S::SBig(x), |x| E3M::SBig(x)),
            3 => push_case!(api, rest, body, M255, |x| E3D::M255(x.0, x.1, x.2), |x| E3S::M255(x), |x| E3M::M255(x)),
            4 => push_case!(api, rest, body, M256, |x| E3D::M256(x.0, x.1, x.2), |x| E3S::M256(x), |x| E3M::M256(x)),
            5 => push_case!(api, rest, body, N255, |x| E3D::N255 { a: x.0, b: x.1, c: x.2 }, |x| E3S::N255(x), |x| E3M::N255(x)),
            6 => push_case!(api, rest, body, N256, |x| E3D::N256 { a: x.0, b: x.1, c: x.2 }, |x| E3S::N256(x), |x| E3M::N256(x)),
            7 => push_case!(api, rest, body, Big, |x| E3D::MBig(x.0, x.1, x.2), |x| E3S::MBig(x), |x| E3M::MBig(x)),
            8 => push_case!(api, rest, body, Big, |x| E3D::NBig { a: x.0, b: x.1, c: x.2 }, |x| E3S::NBig(x), |x| E3M::NBig(x)),
            _ => panic!("case"),
        }
    }
    fn read_v(i: usize, p: &mut MessageBodyParser) -> String {
        match i {
            0 => read_typed::<Var<T255>>(p),
            1 => read_typed::<Var<T256>>(p),
            3 => read_typed::<Var<M255>>(p),
            4 => read_typed::<Var<M256>>(p),
            5 => read_typed::<Var<N255>>(p),
            6 => read_typed::<Var<N256>>(p),
            _ => read_typed::<Var<Big>>(p),
        }
    }
    fn read_enum(api: &str, p: &mut MessageBodyParser, inner: &dyn Fn(&rustbus::wire::unmarshal::traits::Variant) -> String) -> Result<String, UnmarshalError> {
        Ok(match api {
            "D" => match p.get::<E3D>()? {
                E3D::S255(x) => case_str(0, &x),
                E3D::S256(x) => case_str(1, &x),
                E3D::SBig(x) => case_str(2, &x),
                E3D::M255(a, b, c) => case_str(3, &(a, b, c)),
                E3D::M256(a, b, c) => case_str(4, &(a, b, c)),
                E3D::N255 { a, b, c } => case_str(5, &(a, b, c)),
                E3D::N256 { a, b, c } => case_str(6, &(a, b, c)),
                E3D::MBig(a, b, c) => case_str(7, &(a, b, c)),
                E3D::NBig { a, b, c } => case_str(8, &(a, b, c)),
            },
            "S" => match p.get::<E3S>()? {
                E3S::S255(x) => case_str(0, &x),
                E3S::S256(x) => case_str(1, &x),
                E3S::SBig(x) => case_str(2, &x),
                E3S::M255(x) => case_str(3, &x),
                E3S::M256(x) => case_str(4, &x),
                E3S::N255(x) => case_str(5, &x),
                E3S::N256(x) => case_str(6, &x),
                E3S::MBig(x) => case_str(7, &x),
                E3S::NBig(x) => case_str(8, &x),
                E3S::Catchall(t) => format!("catch,{}", sig_str(&t)),
            },
            _ => match p.get::<E3M>()? {
                E3M::S255(x) => case_str(0, &x),
                E3M::S256(x) => case_str(1, &x),
                E3M::SBig(x) => case_str(2, &x),
                E3M::M255(x) => case_str(3, &x),
                E3M::M256(x) => case_str(4, &x),
                E3M::N255(x) => case_str(5, &x),
                E3M::N256(x) => case_str(6, &x),
                E3M::MBig(x) => case_str(7, &x),
                E3M::NBig(x) => case_str(8, &x),
                E3M::Catchall(v) => format!("catch,{},{}", sig_str(v.get_value_sig()), inner(&v)),
            },
        })
    }
}


// ---- E4: several cases with the same signature: the first one answers
#[derive(Marshal, Unmarshal, Signature, Debug)]
pub enum E4D {
    A(u32),
    B(u32),
    C(u8, u64),
    D { x: u8, y: u64 },
    E((u8, u64)),
    F(String),
    G(String),
}
pub type E4C = (u8, u64);
dbus_variant_sig!(E4S, A => u32; B => u32; C => E4C; D => E4C; E => E4C; F => String; G => String);
dbus_variant_var!(E4M, A => u32; B => u32; C => E4C; D => E4C; E => E4C; F => String; G => String);
const E4_DESC: &str = "1:u|1:u|m:yt|n:yt|1:(yt)|1:s|1:s";
struct Set4;
impl EnumSet for Set4 {
    fn push(api: &str, i: usize, rest: &str, body: &mut MarshalledMessageBody) -> bool {
        match i {
            0 => push_case!(api, rest, body, u32, |x| E4D::A(x), |x| E4S::A(x), |x| E4M::A(x)),
            1 => push_case!(api, rest, body, u32, |x| E4D::B(x), |x| E4S::B(x), |x| E4M::B(x)),
            2 => push_case!(api, rest, body, E4C, |x| E4D::C(x.0, x.1), |x| E4S::C(x), |x| E4M::C(x)),
            3 => push_case!(api, rest, body, E4C, |x| E4D::D { x: x.0, y: x.1 }, |x| E4S::D(x), |x| E4M::D(x)),
            4 => push_case!(api, rest, body, E4C, |x| E4D::E(x), |x| E4S::E(x), |x| E4M::E(x)),
            5 => push_case!(api, rest, body, String, |x| E4D::F(x), |x| E4S::F(x), |x| E4M::F(x)),
            6 => push_case!(api, rest, body, String, |x| E4D::G(x), |x| E4S::G(x), |x| E4M::G(x)),
            _ => panic!("case"),
        }
    }
    fn read_v(i: usize, p: &mut MessageBodyParser) -> String {
        match i {
            0 | 1 => read_typed::<Var<u32>>(p),
            2 | 3 | 4 => read_typed::<Var<E4C>>(p),
            _ => read_typed::<Var<String>>(p),
        }
    }
    fn read_enum(api: &str, p: &mut MessageBodyParser, inner: &dyn Fn(&rustbus::wire::unmarshal::traits::Variant) -> String) -> Result<String, UnmarshalError> {
        Ok(match api {
            "D" => match p.get::<E4D>()? {
                E4D::A(x) => case_str(0, &x),
                E4D::B(x) => case_str(1, &x),
                E4D::C(a, b) => case_str(2, &(a, b)),
                E4D::D { x, y } => case_str(3, &(x, y)),
                E4D::E(x) => case_str(4, &x),
                E4D::F(x) => case_str(5, &x),
                E4D::G(x) => case_str(6, &x),
            },
            "S" => match p.get::<E4S>()? {
                E4S::A(x) => case_str(0, &x),
                E4S::B(x) => case_str(1, &x),
                E4S::C(x) => case_str(2, &x),
                E4S::D(x) => case_str(3, &x),
                E4S::E(x) => case_str(4, &x),
                E4S::F(x) => case_str(5, &x),
                E4S::G(x) => case_str(6, &x),
                E4S::Catchall(t) => format!("catch,{}", sig_str(&t)),
            },
            _ => match p.get::<E4M>()? {
                E4M::A(x) => case_str(0, &x),
                E4M::B(x) => case_str(1, &x),
                E4M::C(x) => case_str(2, &x),
                E4M::D(x) => case_str(3, &x),
                E4M::E(x) => case_str(4, &x),
                E4M::F(x) => case_str(5, &x),
                E4M::G(x) => case_str(6, &x),
                E4M::Catchall(v) => format!("catch,{},{}", sig_str(v.get_value_sig()), inner(&v)),
            },
        })
    }
}

// ---- E5: short signatures at and beyond the nesting limits (32 arrays, 32 structs)
pub type W1 = Vec<u8>;
pub type W2 = Vec<W1>;
pub type W3 = Vec<W2>;
pub type W4 = Vec<W3>;
pub type W5 = Vec<W4>;
pub type W6 = Vec<W5>;
pub type W7 = Vec<W6>;
pub type W8 = Vec<W7>;
pub type W9 = Vec<W8>;
pub type W10 = Vec<W9>;
pub type W11 = Vec<W10>;
pub type W12 = Vec<W11>;
pub type W13 = Vec<W12>;
pub type W14 = Vec<W13>;
pub type W15 = Vec<W14>;
pub type W16 = Vec<W15>;
pub type W17 = Vec<W16>;
pub type W18 = Vec<W17>;
pub type W19 = Vec<W18>;
pub type W20 = Vec<W19>;
pub type W21 = Vec<W20>;
pub type W22 = Vec<W21>;
pub type W23 = Vec<W22>;
pub type W24 = Vec<W23>;
pub type W25 = Vec<W24>;
pub type W26 = Vec<W25>;
pub type W27 = Vec<W26>;
pub type W28 = Vec<W27>;
pub type W29 = Vec<W28>;
pub type W30 = Vec<W29>;
pub type W31 = Vec<W30>;
pub type W32 = Vec<W31>;
pub type W33 = Vec<W32>;
pub type U1 = (u8,);
pub type U2 = (U1,);
pub type U3 = (U2,);
pub type U4 = (U3,);
pub type U5 = (U4,);
pub type U6 = (U5,);
pub type U7 = (U6,);
pub type U8 = (U7,);
pub type U9 = (U8,);
pub type U10 = (U9,);
pub type U11 = (U10,);
pub type U12 = (U11,);
pub type U13 = (U12,);
pub type U14 = (U13,);
pub type U15 = (U14,);
pub type U16 = (U15,);
pub type U17 = (U16,);
pub type U18 = (U17,);
pub type U19 = (U18,);
pub type U20 = (U19,);
pub type U21 = (U20,);
pub type U22 = (U21,);
pub type U23 = (U22,);
pub type U24 = (U23,);
pub type U25 = (U24,);
pub type U26 = (U25,);
pub type U27 = (U26,);
pub type U28 = (U27,);
pub type U29 = (U28,);
pub type U30 = (U29,);
pub type U31 = (U30,);
pub type U32 = (U31,);
pub type U33 = (U32,);
pub type E5E = (W32, u8);
pub type E5F = (W33, u8);
pub type E5G = (U31,);
pub type E5H = (U32,);
#[derive(Marshal, Unmarshal, Signature, Debug)]
pub enum E5D {
    A(W32),
    B(W33),
    C(U32),
    D(U33),
    E(W32, u8),
    F(W33, u8),
    G { a: U31 },
    H { a: U32 },
}
dbus_variant_sig!(E5S, A => W32; B => W33; C => U32; D => U33; E => E5E; F => E5F; G => E5G; H => E5H);
dbus_variant_var!(E5M, A => W32; B => W33; C => U32; D => U33; E => E5E; F => E5F; G => E5G; H => E5H);
fn e5_desc() -> String {
    let w = |n: usize| format!("{}y", "a".repeat(n));
    let u = |n: usize| format!("{}y{}", "(".repeat(n), ")".repeat(n));
    [
        format!("1:{}", w(32)),
        format!("1:{}", w(33)),
        format!("1:{}", u(32)),
        format!("1:{}", u(33)),
        format!("m:{}y", w(32)),
        format!("m:{}y", w(33)),
        format!("n:{}", u(31)),
        format!("n:{}", u(32)),
    ]
    .join("|")
}
struct Set5;
impl EnumSet for Set5 {
    fn push(api: &str, i: usize, rest: &str, body: &mut MarshalledMessageBody) -> bool {
        match i {
            0 => push_case!(api, rest, body, W32, |x| E5D::A(x), |x| E5S::A(x), |x| E5M::A(x)),
            1 => push_case!(api, rest, body, W33, |x| E5D::B(x), |x| E5S::B(x), |x| E5M::B(x)),
            2 => push_case!(api, rest, body, U32, |x| E5D::C(x), |x| E5S::C(x), |x| E5M::C(x)),
            3 => push_case!(api, rest, body, U33, |x| E5D::D(x), |x| E5S::D(x), |x| E5M::D(x)),
            4 => push_case!(api, rest, body, E5E, |x| E5D::E(x.0, x.1), |x| E5S::E(x), |x| E5M::E(x)),
            5 => push_case!(api, rest, body, E5F, |x| E5D::F(x.0, x.1), |x| E5S::F(x), |x| E5M::F(x)),
            6 => push_case!(api, rest, body, E5G, |x| E5D::G { a: x.0 }, |x| E5S::G(x), |x| E5M::G(x)),
            7 => push_case!(api, rest, body, E5H, |x| E5D::H { a: x.0 }, |x| E5S::H(x), |x| E5M::H(x)),
            _ => panic!("case"),
        }
    }
    fn read_v(i: usize, p: &mut MessageBodyParser) -> String {
        match i {
            0 => read_typed::<Var<W32>>(p),
            1 => read_typed::<Var<W33>>(p),
            2 => read_typed::<Var<U32>>(p),
            3 => read_typed::<Var<U33>>(p),
            4 => read_typed::<Var<E5E>>(p),
            5 => read_typed::<Var<E5F>>(p),
            6 => read_typed::<Var<E5G>>(p),
            _ => read_typed::<Var<E5H>>(p),
        }
    }
    fn read_enum(api: &str, p: &mut MessageBodyParser, inner: &dyn Fn(&rustbus::wire::unmarshal::traits::Variant) -> String) -> Result<String, UnmarshalError> {
        Ok(match api {
            "D" => match p.get::<E5D>()? {
                E5D::A(x) => case_str(0, &x),
                E5D::B(x) => case_str(1, &x),
                E5D::C(x) => case_str(2, &x),
                E5D::D(x) => case_str(3, &x),
                E5D::E(a, b) => case_str(4, &(a, b)),
                E5D::F(a, b) => case_str(5, &(a, b)),
                E5D::G { a } => case_str(6, &(a,)),
                E5D::H { a } => case_str(7, &(a,)),
            },
            "S" => match p.get::<E5S>()? {
                E5S::A(x) => case_str(0, &x),
                E5S::B(x) => case_str(1, &x),
                E5S::C(x) => case_str(2, &x),
                E5S::D(x) => case_str(3, &x),
                E5S::E(x) => case_str(4, &x),
                E5S::F(x) => case_str(5, &x),
                E5S::G(x) => case_str(6, &x),
                E5S::H(x) => case_str(7, &x),
                E5S::Catchall(t) => format!("catch,{}", sig_str(&t)),
            },
            _ => match p.get::<E5M>()? {
                E5M::A(x) => case_str(0, &x),
                E5M::B(x) => case_str(1, &x),
                E5M::C(x) => case_str(2, &x),
                E5M::D(x) => case_str(3, &x),
                E5M::E(x) => case_str(4, &x),
                E5M::F(x) => case_str(5, &x),
                E5M::G(x) => case_str(6, &x),
                E5M::H(x) => case_str(7, &x),
                E5M::Catchall(v) => format!("catch,{},{}", sig_str(v.get_value_sig()), inner(&v)),
            },
        })
    }
}

// ---- E6: raw-slice arrays of every fixed-size primitive as case payloads (see slice_structs!)
pub type E6A = Vec<u8>;
pub type E6B = Vec<i16>;
pub type E6C = Vec<u16>;
pub type E6Dt = Vec<i32>;
pub type E6E = Vec<u32>;
pub type E6F = Vec<i64>;
pub type E6G = Vec<u64>;
pub type E6I = (u8, Fs);
pub type E6J = (Vec<i32>, u16);
#[derive(Marshal, Unmarshal, Signature, Debug)]
pub enum E6D {
    A(Vec<u8>),
    B(Vec<i16>),
    C(Vec<u16>),
    D(Vec<i32>),
    E(Vec<u32>),
    F(Vec<i64>),
    G(Vec<u64>),
    H(Vec<f64>),
    I(u8, Vec<f64>),
    J { a: Vec<i32>, b: u16 },
}
dbus_variant_sig!(E6S, A => E6A; B => E6B; C => E6C; D => E6Dt; E => E6E; F => E6F; G => E6G; H => Fs; I => E6I; J => E6J);
dbus_variant_var!(E6M, A => E6A; B => E6B; C => E6C; D => E6Dt; E => E6E; F => E6F; G => E6G; H => Fs; I => E6I; J => E6J);
const E6_DESC: &str = "1:ay|1:an|1:aq|1:ai|1:au|1:ax|1:at|1:ad|m:yad|n:aiq";
struct Set6;
impl EnumSet for Set6 {
    fn push(api: &str, i: usize, rest: &str, body: &mut MarshalledMessageBody) -> bool {
        match i {
            0 => push_case!(api, rest, body, E6A, |x| E6D::A(x), |x| E6S::A(x), |x| E6M::A(x)),
            1 => push_case!(api, rest, body, E6B, |x| E6D::B(x), |x| E6S::B(x), |x| E6M::B(x)),
            2 => push_case!(api, rest, body, E6C, |x| E6D::C(x), |x| E6S::C(x), |x| E6M::C(x)),
            3 => push_case!(api, rest, body, E6Dt, |x| E6D::D(x), |x| E6S::D(x), |x| E6M::D(x)),
            4 => push_case!(api, rest, body, E6E, |x| E6D::E(x), |x| E6S::E(x), |x| E6M::E(x)),
            5 => push_case!(api, rest, body, E6F, |x| E6D::F(x), |x| E6S::F(x), |x| E6M::F(x)),
            6 => push_case!(api, rest, body, E6G, |x| E6D::G(x), |x| E6S::G(x), |x| E6M::G(x)),
            7 => push_case!(api, rest, body, Fs, |x| E6D::H(x.0), |x| E6S::H(x), |x| E6M::H(x)),
            8 => push_case!(api, rest, body, E6I, |x| E6D::I(x.0, (x.1).0), |x| E6S::I(x), |x| E6M::I(x)),
            9 => push_case!(api, rest, body, E6J, |x| E6D::J { a: x.0, b: x.1 }, |x| E6S::J(x), |x| E6M::J(x)),
            _ => panic!("case"),
        }
    }
    fn read_v(i: usize, p: &mut MessageBodyParser) -> String {
        match i {
            0 => read_typed::<Var<E6A>>(p),
            1 => read_typed::<Var<E6B>>(p),
            2 => read_typed::<Var<E6C>>(p),
            3 => read_typed::<Var<E6Dt>>(p),
            4 => read_typed::<Var<E6E>>(p),
            5 => read_typed::<Var<E6F>>(p),
            6 => read_typed::<Var<E6G>>(p),
            7 => read_typed::<Var<Vec<f64>>>(p),
            8 => read_typed::<Var<(u8, Vec<f64>)>>(p),
            _ => read_typed::<Var<E6J>>(p),
        }
    }
    fn read_enum(api: &str, p: &mut MessageBodyParser, inner: &dyn Fn(&rustbus::wire::unmarshal::traits::Variant) -> String) -> Result<String, UnmarshalError> {
        Ok(match api {
            "D" => match p.get::<E6D>()? {
                E6D::A(x) => case_str(0, &x),
                E6D::B(x) => case_str(1, &x),
                E6D::C(x) => case_str(2, &x),
                E6D::D(x) => case_str(3, &x),
                E6D::E(x) => case_str(4, &x),
                E6D::F(x) => case_str(5, &x),
                E6D::G(x) => case_str(6, &x),
                E6D::H(x) => case_str(7, &x),
                E6D::I(a, b) => case_str(8, &(a, b)),
                E6D::J { a, b } => case_str(9, &(a, b)),
            },
            "S" => match p.get::<E6S>()? {
                E6S::A(x) => case_str(0, &x),
                E6S::B(x) => case_str(1, &x),
                E6S::C(x) => case_str(2, &x),
                E6S::D(x) => case_str(3, &x),
                E6S::E(x) => case_str(4, &x),
                E6S::F(x) => case_str(5, &x),
                E6S::G(x) => case_str(6, &x),
                E6S::H(x) => case_str(7, &x),
                E6S::I(x) => case_str(8, &x),
                E6S::J(x) => case_str(9, &x),
                E6S::Catchall(t) => format!("catch,{}", sig_str(&t)),
            },
            _ => match p.get::<E6M>()? {
                E6M::A(x) => case_str(0, &x),
                E6M::B(x) => case_str(1, &x),
                E6M::C(x) => case_str(2, &x),
                E6M::D(x) => case_str(3, &x),
                E6M::E(x) => case_str(4, &x),
                E6M::F(x) => case_str(5, &x),
                E6M::G(x) => case_str(6, &x),
                E6M::H(x) => case_str(7, &x),
                E6M::I(x) => case_str(8, &x),
                E6M::J(x) => case_str(9, &x),
                E6M::Catchall(v) => format!("catch,{},{}", sig_str(v.get_value_sig()), inner(&v)),
            },
        })
    }
}

// ---- EC: enums in element position
/// an enum value in token syntax: v <case signature> <payload>; reading picks the first case with that signature
impl Tok for E1D {
    fn from_tok(a: &mut Args) -> Self {
        assert_eq!(a.next(), "v");
        match a.next() {
            "u" => E1D::A(u32::from_tok(a)),
            "s" => E1D::B(String::from_tok(a)),
            "(yt)" => {
                let x = E1C::from_tok(a);
                E1D::C(x.0, x.1)
            }
            "(aty)" => {
                let x = E1Dt::from_tok(a);
                E1D::D { x: x.0, y: x.1 }
            }
            s => panic!("E1 case {}", s),
        }
    }
    fn to_tok(&self, out: &mut Vec<String>, s: bool) {
        match self {
            E1D::A(x) => Var(*x).to_tok(out, s),
            E1D::B(x) => Var(x.clone()).to_tok(out, s),
            E1D::C(a, b) => Var((*a, *b)).to_tok(out, s),
            E1D::D { x, y } => Var((x.clone(), *y)).to_tok(out, s),
        }
    }
}
impl Tok for E1S {
    fn from_tok(a: &mut Args) -> Self {
        assert_eq!(a.next(), "v");
        match a.next() {
            "u" => E1S::A(u32::from_tok(a)),
            "s" => E1S::B(String::from_tok(a)),
            "(yt)" => E1S::C(E1C::from_tok(a)),
            "(aty)" => E1S::D(E1Dt::from_tok(a)),
            s => panic!("E1 case {}", s),
        }
    }
    fn to_tok(&self, out: &mut Vec<String>, s: bool) {
        match self {
            E1S::A(x) => Var(*x).to_tok(out, s),
            E1S::B(x) => Var(x.clone()).to_tok(out, s),
            E1S::C(x) => Var(*x).to_tok(out, s),
            E1S::D(x) => Var(x.clone()).to_tok(out, s),
            E1S::Catchall(t) => out.push(format!("CATCH:{}", sig_str(t))),
        }
    }
}
impl<'f, 'b> Tok for E1M<'f, 'b> {
    fn from_tok(a: &mut Args) -> Self {
        assert_eq!(a.next(), "v");
        match a.next() {
            "u" => E1M::A(u32::from_tok(a)),
            "s" => E1M::B(String::from_tok(a)),
            "(yt)" => E1M::C(E1C::from_tok(a)),
            "(aty)" => E1M::D(E1Dt::from_tok(a)),
            s => panic!("E1 case {}", s),
        }
    }
    fn to_tok(&self, out: &mut Vec<String>, s: bool) {
        match self {
            E1M::A(x) => Var(*x).to_tok(out, s),
            E1M::B(x) => Var(x.clone()).to_tok(out, s),
            E1M::C(x) => Var(*x).to_tok(out, s),
            E1M::D(x) => Var(x.clone()).to_tok(out, s),
            E1M::Catchall(v) => out.push(format!("CATCH:{}", sig_str(v.get_value_sig()))),
        }
    }
}
/// params::Variant as a typed element (its own Signature / Marshal / Unmarshal impls); kept as tokens
#[derive(Debug)]
pub struct PV(Vec<String>);
impl Tok for PV {
    fn from_tok(a: &mut Args) -> Self {
        let p = param_from(a);
        let mut out = Vec::new();
        param_tok(&p, &mut out);
        PV(out)
    }
    fn to_tok(&self, out: &mut Vec<String>, _s: bool) {
        out.extend(self.0.iter().cloned());
    }
}
impl Signature for PV {
    fn signature() -> signature::Type {
        rustbus::params::Variant::signature()
    }
    fn alignment() -> usize {
        rustbus::params::Variant::alignment()
    }
    fn sig_str(s: &mut rustbus::wire::marshal::traits::SignatureBuffer) {
        rustbus::params::Variant::sig_str(s)
    }
    fn has_sig(s: &str) -> bool {
        rustbus::params::Variant::has_sig(s)
    }
}
impl Marshal for PV {
    fn marshal(&self, ctx: &mut rustbus::wire::marshal::MarshalContext) -> Result<(), rustbus::wire::errors::MarshalError> {
        let line = self.0.join(" ");
        match param_from(&mut Args::new(&line)) {
            Param::Container(Container::Variant(v)) => v.marshal(ctx),
            _ => panic!("PV holds a variant"),
        }
    }
}
// params::Variant<'a, 'e> needs 'e: 'a and its Container needs the converse, so its Unmarshal impl exists for one lifetime only
impl<'a> Unmarshal<'a, 'a> for PV {
    fn unmarshal(ctx: &mut rustbus::wire::unmarshal_context::UnmarshalContext<'a, 'a>) -> Result<Self, UnmarshalError> {
        let v = <rustbus::params::Variant<'a, 'a> as Unmarshal<'a, 'a>>::unmarshal(ctx)?;
        let mut out = Vec::new();
        param_tok(&Param::Container(Container::Variant(Box::new(v))), &mut out);
        Ok(PV(out))
    }
}
#[derive(Marshal, Unmarshal, Signature, Debug)]
pub struct SE1D {
    pub a: u8,
    pub e: E1D,
    pub b: u64,
}
#[derive(Marshal, Unmarshal, Signature, Debug)]
pub struct SE1S {
    pub a: u8,
    pub e: E1S,
    pub b: u64,
}
macro_rules! se_tok {
    ($S:ident, $E:ty) => {
        impl Tok for $S {
            fn from_tok(a: &mut Args) -> Self {
                assert_eq!(a.next(), "r");
                assert_eq!(a.num(), 3);
                $S { a: u8::from_tok(a), e: <$E>::from_tok(a), b: u64::from_tok(a) }
            }
            fn to_tok(&self, out: &mut Vec<String>, s: bool) {
                out.push("r".into());
                out.push("3".into());
                self.a.to_tok(out, s);
                self.e.to_tok(out, s);
                self.b.to_tok(out, s);
            }
        }
    };
}
se_tok!(SE1D, E1D);
se_tok!(SE1S, E1S);

/// get::<T>() with the lifetimes inferred at the call (dbus_variant_var! enums borrow from the body), then the trailer
macro_rules! read_as {
    ($p:expr, $T:ty) => {
        match $p.get::<$T>() {
            Ok(v) => {
                let t = toks(&v);
                drop(v);
                format!("ok,{},{}", trailer($p), t)
            }
            Err(e) => err_name(&e).to_string(),
        }
    };
}
/// one container kind: the container types over E1D, E1S, E1M (or none) and PV
macro_rules! ec_kind {
    ($bo:expr, $prefix:expr, $rest:expr, $CD:ty, $CS:ty, [$($CM:ty)?], [$($CQ:ty)?]) => {{
        let mut out = Vec::new();
        let apis: Vec<&str> = {
            let mut v = vec!["D", "S"];
            $(let _ = std::marker::PhantomData::<$CM>; v.push("M");)?
            $(let _ = std::marker::PhantomData::<$CQ>; v.push("Q");)?
            v.push("P");
            v
        };
        for api in apis.iter() {
            let mut msg = new_body($bo, $prefix);
            let ok = match *api {
                "D" => msg.body.push_param(&<$CD>::from_tok(&mut Args::new($rest))).is_ok(),
                "S" => msg.body.push_param(&<$CS>::from_tok(&mut Args::new($rest))).is_ok(),
                $("M" => msg.body.push_param(&<$CM>::from_tok(&mut Args::new($rest))).is_ok(),)?
                $("Q" => msg.body.push_param(&<$CQ>::from_tok(&mut Args::new($rest))).is_ok(),)?
                _ => msg.body.push_old_param(&param_from(&mut Args::new($rest))).is_ok(),
            };
            out.push(enc_field(api, ok, &msg));
            if !ok {
                continue;
            }
            msg.body.push_param(TRAILER).unwrap();
            // a body this crate marshalled must pass its own validation
            out.push(format!("valid:{}={}", api, msg.body.validate().is_ok()));
            for dec in apis.iter() {
                let mut p = msg.body.parser();
                skip_prefix(&mut p, $prefix);
                let r = match *dec {
                    "D" => read_as!(&mut p, $CD),
                    "S" => read_as!(&mut p, $CS),
                    $("M" => read_as!(&mut p, $CM),)?
                    $("Q" => read_as!(&mut p, $CQ),)?
                    _ => read_param(&mut p),
                };
                out.push(format!("dec:{}{}={}", api, dec, r));
            }
        }
        out.join(" ")
    }};
}
const KINDS: &[&str] = &["aE", "a{sE}", "(yEy)", "a(yE)", "(Et)", "(yaEq)", "<yEt>"];
fn ec(kind: &str, bo: rustbus::ByteOrder, prefix: u64, rest: &str) -> String {
    match kind {
        "aE" => ec_kind!(bo, prefix, rest, Vec<E1D>, Vec<E1S>, [Vec<E1M>], [Vec<PV>]),
        "a{sE}" => ec_kind!(bo, prefix, rest, HashMap<String, E1D>, HashMap<String, E1S>, [HashMap<String, E1M>], [HashMap<String, PV>]),
        "(yEy)" => ec_kind!(bo, prefix, rest, (u8, E1D, u8), (u8, E1S, u8), [(u8, E1M, u8)], [(u8, PV, u8)]),
        "a(yE)" => ec_kind!(bo, prefix, rest, Vec<(u8, E1D)>, Vec<(u8, E1S)>, [Vec<(u8, E1M)>], [Vec<(u8, PV)>]),
        "(Et)" => ec_kind!(bo, prefix, rest, (E1D, u64), (E1S, u64), [(E1M, u64)], [(PV, u64)]),
        "(yaEq)" => ec_kind!(bo, prefix, rest, (u8, Vec<E1D>, u16), (u8, Vec<E1S>, u16), [(u8, Vec<E1M>, u16)], [(u8, Vec<PV>, u16)]),
        // a derived struct with an enum field (the derive can express neither dbus_variant_var!'s two lifetimes nor
        // params::Variant's single one)
        "<yEt>" => ec_kind!(bo, prefix, rest, SE1D, SE1S, [], []),
        x => format!("BAD kind {}", x),
    }
}

fn no_inner(_: &rustbus::wire::unmarshal::traits::Variant) -> String {
    "-".to_string()
}

fn en<E: EnumSet>(bo: rustbus::ByteOrder, prefix: u64, case: usize, rest: &str) -> String {
    let mut out = Vec::new();
    for (k, api) in ["V", "W", "D", "S", "M", "P", "C", "R"].iter().enumerate() {
        let api = *api;
        let mut msg = new_body(bo, prefix);
        let ok = if api == "P" {
            // the Param variant: v <sig> <payload>
            let p = param_from(&mut Args::new(rest));
            let var = Param::Container(Container::Variant(Box::new(rustbus::params::Variant { sig: p.sig(), value: p })));
            msg.body.push_old_param(&var).is_ok()
        } else if api == "C" || api == "R" {
            let mut c = Conv { mode: api.chars().next().unwrap(), n: prefix as usize + k + rest.len() };
            match c.param(&mut Args::new(rest)) {
                Ok(p) => {
                    let inner = sigs_of(&p);
                    let var = Param::from(Container::make_variant(p));
                    out.push(format!("sigs:{}={}/{}", api, sigs_of(&var), inner));
                    msg.body.push_old_param(&var).is_ok()
                }
                Err(e) => {
                    out.push(format!("sigs:{}=CONVERR({})", api, e.replace(' ', "")));
                    false
                }
            }
        } else {
            E::push(api, case, rest, &mut msg.body)
        };
        out.push(enc_field(api, ok, &msg));
        if !ok {
            continue;
        }
        msg.body.push_param(TRAILER).unwrap();
        for dec in ["V", "D", "S", "M", "P", "X"] {
            let mut p = msg.body.parser();
            skip_prefix(&mut p, prefix);
            let r = match dec {
                "V" => E::read_v(case, &mut p),
                "P" => read_param(&mut p),
                "X" => read_param_conv(&mut p),
                _ => match E::read_enum(dec, &mut p, &no_inner) {
                    Ok(s) => format!("ok,{},{}", trailer(&mut p), s),
                    Err(e) => err_name(&e).to_string(),
                },
            };
            out.push(format!("dec:{}{}={}", api, dec, r));
        }
    }
    out.join(" ")
}

fn eo<E: EnumSet, O>(bo: rustbus::ByteOrder, prefix: u64, rest: &str) -> String
where
    O: Tok + Marshal + for<'b, 'f> Unmarshal<'b, 'f>,
{
    let mut msg = new_body(bo, prefix);
    let ok = msg.body.push_param(&Var(O::from_tok(&mut Args::new(rest)))).is_ok();
    if !ok {
        return enc_field("V", ok, &msg);
    }
    msg.body.push_param(AFTER).unwrap();
    msg.body.push_param(TRAILER).unwrap();
    let mut out = vec![enc_field("V", ok, &msg)];
    let inner = |v: &rustbus::wire::unmarshal::traits::Variant| match v.get::<O>() {
        Ok(x) => format!("ok_{}", toks(&x)),
        Err(_) => "err".to_string(),
    };
    for dec in ["D", "S", "M"] {
        let mut p = msg.body.parser();
        skip_prefix(&mut p, prefix);
        let r = match E::read_enum(dec, &mut p, &inner) {
            Ok(s) => format!("ok,{},{}", after(&mut p), s),
            Err(e) => {
                // the parser must stand where it stood: the typed Variant of the right type, AFTER and the trailer follow
                let next = match p.get::<Var<O>>() {
                    Ok(v) => {
                        let t = toks(&v);
                        format!("next=ok,{},{}", after(&mut p), t)
                    }
                    Err(e2) => format!("next={}", err_name(&e2)),
                };
                format!("{},{}", err_name(&e), next)
            }
        };
        out.push(format!("read:{}={}", dec, r));
    }
    out.join(" ")
}

fn split_rest(line: &str, n: usize) -> (Vec<&str>, String) {
    let toks: Vec<&str> = line.split(' ').filter(|t| !t.is_empty()).collect();
    let head = toks[..n].to_vec();
    let rest = toks[n..].join(" ");
    (head, rest)
}
fn bo_of(s: &str) -> rustbus::ByteOrder {
    match s {
        "le" => rustbus::ByteOrder::LittleEndian,
        "be" => rustbus::ByteOrder::BigEndian,
        x => panic!("byte order {}", x),
    }
}

fn eval(line: &str) -> String {
    let op = line.split(' ').next().unwrap_or("");
    match op {
        "LIST" => format!(
            "shapes={} others={} E1={} E2={} E3={} E4={} E5={} kinds={} slices={} E6={}",
            SHAPES.join(","),
            OTHERS.join(","),
            E1_DESC,
            E2_DESC,
            e3_desc(),
            E4_DESC,
            e5_desc(),
            KINDS.join(","),
            SLICES.join(","),
            E6_DESC
        ),
        "EC" => {
            let (h, rest) = split_rest(line, 4);
            let bo = bo_of(h[2]);
            let prefix: u64 = h[3].parse().unwrap();
            ec(h[1], bo, prefix, &rest)
        }
        "CV" => {
            let (h, rest) = split_rest(line, 2);
            cv(h[1], &rest)
        }
        "CF" => cf(),
        "ST" => {
            let (h, rest) = split_rest(line, 4);
            let bo = bo_of(h[2]);
            let prefix: u64 = h[3].parse().unwrap();
            if SLICES.contains(&h[1]) {
                with_slice_shape!(h[1], call_st, (bo, prefix, &rest))
            } else {
                with_shape!(h[1], call_st, (bo, prefix, &rest))
            }
        }
        "HS" => {
            let (h, rest) = split_rest(line, 4);
            let bo = bo_of(h[2]);
            let other = h[3];
            with_shape!(h[1], call_hs, (bo, other, &rest))
        }
        "EN" => {
            let (h, rest) = split_rest(line, 5);
            let bo = bo_of(h[2]);
            let prefix: u64 = h[3].parse().unwrap();
            let case: usize = h[4].parse().unwrap();
            match h[1] {
                "E1" => en::<Set1>(bo, prefix, case, &rest),
                "E2" => en::<Set2>(bo, prefix, case, &rest),
                "E3" => en::<Set3>(bo, prefix, case, &rest),
                "E4" => en::<Set4>(bo, prefix, case, &rest),
                "E5" => en::<Set5>(bo, prefix, case, &rest),
                "E6" => en::<Set6>(bo, prefix, case, &rest),
                x => format!("BAD set {}", x),
            }
        }
        "EO" => {
            let (h, rest) = split_rest(line, 5);
            let bo = bo_of(h[2]);
            let prefix: u64 = h[3].parse().unwrap();
            let other = h[4];
            match h[1] {
                "E1" => with_other!(other, eo, [Set1], (bo, prefix, &rest)),
                "E2" => with_other!(other, eo, [Set2], (bo, prefix, &rest)),
                x => format!("BAD set {}", x),
            }
        }
        _ => "?".to_string(),
    }
}

fn main() {
    rbverif::line_loop(|line| eval(line));
}
