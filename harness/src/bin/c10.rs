//! C10 harness: the real send path (SendConn::send_message, SendMessageContext::{write_once, write,
//! write_all, into_progress, resume}) on a real AF_UNIX socket pair whose send buffer is shrunk so
//! that the kernel produces short writes and EAGAIN. The peer end is drained in scripted amounts.
//!
//! stdin, one case per line:
//!   case sndbuf=<n> pre=<k> | <msg> | <msg> ...
//!   <msg> := [api=wall (send_message_write_all with a draining thread; the script is ignored, log is M:ok)] bo=<l|B> hv=<0..5> plen=<n> flags=<n> preset=<n|-> nfds=<n> pay=<len> seed=<n> mode=<push|parts> off=<n> script=<op,op,...>
//!   ops: w (write_once Nonblock)  d<n> (peer reads up to n bytes)  s (into_progress)  r (resume)
//!        W (write(Nonblock))  T (write(Duration 1ms))  F (finish: write(Nonblock)/drain loop; logged as F:over and
//!          given up when the peer has already read 1 MiB more than the message has and the send is not complete)
//!        A (finish: write_all with a draining thread)
//!        X (give up: drop the context; panics by design after a partial write)  Q (give up: force_finish)
//!   fill=1: the harness fills the socket with bytes of its own first, so that the first sendmsg gets EAGAIN at zero bytes
//!   hv=6: a message that send_message refuses while marshalling the header (legal interface, illegal member)
//! stdout, one line per case:
//!   pre=<serials> | <result> | <result> ...
//!   <result> := serial=<reported|-> total=<bytes_total> typ=<n> hdr=<hex of wire::marshal::marshal(msg, serial)>
//!               prefix=<hex of get_buf() before the payload> bodylen=<n> bodycrc=<crc32 of get_buf()>
//!               log=<op results (w:<k>! = all_bytes_written after it), each followed by @<bytes accepted so far>>
//!               peer_len=<n> peer_crc=<crc32> peer_hdr=<hex of the first total-bodylen bytes> mismatch=<offset|->
//!               fds=<indices of the received descriptors among the sent ones, by st_dev/st_ino> ctrunc=<0|1> extra=<n>
use nix::sys::socket::{recvmsg, setsockopt, sockopt, ControlMessageOwned, MsgFlags, SockaddrStorage};
use rbverif::conn::connect_pair;
use rbverif::hex;
use rustbus::connection::ll_conn::{SendMessageContext, SendMessageState};
use rustbus::connection::Timeout;
use rustbus::message_builder::{DynamicHeader, MarshalledMessage, MarshalledMessageBody, MessageType};
use rustbus::wire::UnixFd;
use rustbus::ByteOrder;
use std::collections::HashMap;
use std::io::IoSliceMut;
use std::num::NonZeroU32;
use std::os::fd::{AsRawFd, BorrowedFd, FromRawFd, OwnedFd, RawFd};
use std::os::unix::net::UnixStream;

fn crc32(data: &[u8]) -> u32 {
    let mut table = [0u32; 256];
    for i in 0..256u32 {
        let mut c = i;
        for _ in 0..8 {
            c = if c & 1 != 0 { 0xEDB88320 ^ (c >> 1) } else { c >> 1 };
        }
        table[i as usize] = c;
    }
    let mut c = 0xFFFFFFFFu32;
    for b in data {
        c = table[((c ^ (*b as u32)) & 0xff) as usize] ^ (c >> 8);
    }
    c ^ 0xFFFFFFFF
}

/// position dependent pseudo-random payload; the same formula is in ocaml/c10/driver.ml
fn payload(len: usize, seed: u64) -> Vec<u8> {
    (0..len as u64)
        .map(|i| {
            let x = (i.wrapping_mul(2654435761).wrapping_add(seed.wrapping_mul(40503))) & 0xFFFF_FFFF;
            (((x >> 11) ^ (x >> 23)) & 0xff) as u8
        })
        .collect()
}

fn ident(fd: RawFd) -> (u64, u64) {
    let st = nix::sys::stat::fstat(fd).unwrap();
    (st.st_dev as u64, st.st_ino as u64)
}

struct Peer {
    stream: UnixStream,
    bytes: Vec<u8>,
    fds: Vec<(u64, u64)>,
    ctrunc: bool,
    /// bytes the harness itself put into the socket to fill it (they precede the message, are discarded)
    junk: usize,
    /// memory guard: once more than `cap` bytes are stored (a send that repeats bytes without end), further bytes
    /// are counted in `dropped` but not kept; such a message has already failed the comparison (extra > 0)
    cap: usize,
    dropped: usize,
}

impl Peer {
    /// one recvmsg of at most `max` bytes; None on EAGAIN / EOF
    fn recv_once(&mut self, max: usize, flags: MsgFlags) -> Option<(usize, usize)> {
        let mut buf = vec![0u8; max.min(1 << 20).max(1)];
        let mut cmsg = nix::cmsg_space!([RawFd; 253]);
        let (n, newfds, trunc) = {
            let mut iov = [IoSliceMut::new(&mut buf)];
            let r = recvmsg::<SockaddrStorage>(self.stream.as_raw_fd(), &mut iov, Some(&mut cmsg), flags);
            let msg = match r {
                Ok(m) => m,
                Err(_) => return None,
            };
            let mut newfds = Vec::new();
            for c in msg.cmsgs() {
                if let ControlMessageOwned::ScmRights(fds) = c {
                    newfds.extend(fds);
                }
            }
            (msg.bytes, newfds, msg.flags.contains(MsgFlags::MSG_CTRUNC))
        };
        if trunc {
            self.ctrunc = true;
        }
        let nf = newfds.len();
        for fd in newfds {
            self.fds.push(ident(fd));
            drop(unsafe { OwnedFd::from_raw_fd(fd) });
        }
        if n == 0 && nf == 0 {
            return None;
        }
        let j = self.junk.min(n);
        self.junk -= j;
        let keep = (n - j).min(self.cap.saturating_sub(self.bytes.len()));
        self.bytes.extend_from_slice(&buf[j..j + keep]);
        self.dropped += n - j - keep;
        Some((n - j, nf))
    }

    /// read up to `max` bytes without blocking
    fn drain(&mut self, max: usize) -> (usize, usize) {
        let (mut got, mut gotfds) = (0, 0);
        while got < max {
            match self.recv_once(max - got, MsgFlags::MSG_DONTWAIT) {
                Some((n, f)) => {
                    got += n;
                    gotfds += f;
                }
                None => break,
            }
        }
        (got, gotfds)
    }

    /// message bytes the kernel has accepted so far: read by the peer or still queued (without the filler)
    fn acc(&self) -> usize {
        self.bytes.len() + self.dropped + self.inq() - self.junk
    }

    /// message bytes read so far
    fn got(&self) -> usize {
        self.bytes.len() + self.dropped
    }

    /// bytes queued at the peer and not yet read
    fn inq(&self) -> usize {
        let mut n: nix::libc::c_int = 0;
        let r = unsafe { nix::libc::ioctl(self.stream.as_raw_fd(), nix::libc::FIONREAD, &mut n) };
        assert!(r == 0);
        n as usize
    }
}

/// run `f` (a blocking send) while another thread keeps emptying the peer's queue
fn with_drain<R: Send>(peer: &mut Peer, f: impl FnOnce() -> R + Send) -> R {
    let stop = std::sync::Arc::new(std::sync::atomic::AtomicBool::new(false));
    let stop2 = stop.clone();
    std::thread::scope(|sc| {
        let h = sc.spawn(move || {
            let mut pfd = [nix::poll::PollFd::new(
                unsafe { BorrowedFd::borrow_raw(peer.stream.as_raw_fd()) },
                nix::poll::PollFlags::POLLIN,
            )];
            loop {
                let fin = stop2.load(std::sync::atomic::Ordering::SeqCst);
                let n = nix::poll::poll(&mut pfd, 20u16).unwrap_or(0);
                if n > 0 {
                    peer.drain(usize::MAX);
                } else if fin {
                    break;
                }
            }
        });
        let r = f();
        stop.store(true, std::sync::atomic::Ordering::SeqCst);
        h.join().unwrap();
        r
    })
}

fn build_msg(kv: &HashMap<&str, &str>, pipes: &[(OwnedFd, OwnedFd)]) -> (MarshalledMessage, Vec<u8>) {
    let bo = if kv["bo"] == "B" { ByteOrder::BigEndian } else { ByteOrder::LittleEndian };
    let hv: u32 = kv["hv"].parse().unwrap();
    let flags: u8 = kv["flags"].parse().unwrap();
    let nfds: usize = kv["nfds"].parse().unwrap();
    let pay: usize = kv["pay"].parse().unwrap();
    let seed: u64 = kv["seed"].parse().unwrap();
    let off: usize = kv["off"].parse().unwrap();
    let data = payload(pay, seed);
    let mut dh = DynamicHeader::default();
    let typ = match hv {
        0 => {
            dh.member = Some("Ab".into());
            dh.object = Some("/a/b".into());
            MessageType::Call
        }
        1 => {
            dh.member = Some("LongerMemberName".into());
            dh.object = Some("/org/example/Object".into());
            dh.interface = Some("org.example.Iface".into());
            dh.destination = Some("org.example.Dest".into());
            MessageType::Call
        }
        2 => {
            dh.member = Some("Changed".into());
            dh.object = Some("/s".into());
            dh.interface = Some("org.example.Sig".into());
            MessageType::Signal
        }
        6 => {
            // refused while the header is being marshalled: the interface is fine and already in the buffer
            // when the member name is found to be illegal
            dh.interface = Some("org.example.Iface".into());
            dh.member = Some("not a member!".into());
            dh.object = Some("/a/b".into());
            MessageType::Call
        }
        5 => {
            // a header longer than one socket buffer chunk: the object path has plen characters
            let plen: usize = kv["plen"].parse().unwrap();
            let mut p = String::from("/p");
            while p.len() < plen {
                p.push_str("/abcdefghijklmnopqrstuvwxyz0123456789");
            }
            dh.member = Some("M".into());
            dh.object = Some(p);
            MessageType::Call
        }
        3 => {
            dh.response_serial = NonZeroU32::new(0x01020304);
            dh.destination = Some(":1.7".into());
            MessageType::Reply
        }
        _ => {
            dh.error_name = Some("org.example.Error.Failed".into());
            dh.response_serial = NonZeroU32::new(5);
            dh.destination = Some(":1.9".into());
            dh.sender = Some(":1.3".into());
            MessageType::Error
        }
    };
    if kv["preset"] != "-" {
        dh.serial = NonZeroU32::new(kv["preset"].parse().unwrap());
    }
    let (body, prefix) = if kv["mode"] == "push" {
        let mut body = MarshalledMessageBody::with_byteorder(bo);
        for i in 0..nfds {
            let fd: &dyn AsRawFd = &pipes[i].1;
            body.push_param(fd).unwrap();
        }
        if pay > 0 {
            body.push_param(&data[..]).unwrap();
        }
        (body, 4 * nfds + if pay > 0 { 4 } else { 0 })
    } else {
        let mut buf = vec![0xEEu8; off];
        buf.extend_from_slice(&data);
        let fds: Vec<UnixFd> = (0..nfds)
            .map(|i| UnixFd::new(nix::unistd::dup(pipes[i].1.as_raw_fd()).unwrap()))
            .collect();
        let sig = if pay > 0 { "ay".to_string() } else { String::new() };
        (MarshalledMessageBody::from_parts(buf, off, fds, sig, bo), 0)
    };
    let msg = MarshalledMessage { body, dynheader: dh, typ, flags };
    let prefix_bytes = msg.get_buf()[..prefix].to_vec();
    (msg, prefix_bytes)
}

fn is_again(e: &rustbus::connection::Error) -> bool {
    match e {
        rustbus::connection::Error::TimedOut => true,
        rustbus::connection::Error::IoError(io) => {
            matches!(io.kind(), std::io::ErrorKind::WouldBlock | std::io::ErrorKind::TimedOut)
        }
        _ => false,
    }
}

fn run_case(line: &str) -> String {
    let parts: Vec<&str> = line.split('|').map(|s| s.trim()).collect();
    let head: HashMap<&str, &str> = parts[0].split(' ').filter_map(|t| t.split_once('=')).collect();
    let sndbuf: usize = head["sndbuf"].parse().unwrap();
    let pre: usize = head["pre"].parse().unwrap();
    // a failure to set the connection up (scratch directory wiped by someone else, fd limit) is not the send path's
    let (mut conn, peer_stream) = match std::panic::catch_unwind(|| connect_pair(true)) {
        Ok(p) => p,
        Err(_) => return "SETUPFAIL".to_string(),
    };
    let sfd = conn.send.as_raw_fd();
    if sndbuf > 0 {
        let b = unsafe { BorrowedFd::borrow_raw(sfd) };
        setsockopt(&b, sockopt::SndBuf, &sndbuf).unwrap();
    }
    let mut peer = Peer { stream: peer_stream, bytes: Vec::new(), fds: Vec::new(), ctrunc: false, junk: 0, cap: usize::MAX, dropped: 0 };
    let mut out = Vec::new();
    let pre_serials: Vec<String> = (0..pre).map(|_| conn.send.alloc_serial().get().to_string()).collect();
    out.push(format!("pre={}", if pre_serials.is_empty() { "-".to_string() } else { pre_serials.join(",") }));

    for spec in &parts[1..] {
        let kv: HashMap<&str, &str> = spec.split(' ').filter_map(|t| t.split_once('=')).collect();
        let nfds: usize = kv["nfds"].parse().unwrap();
        let pipes: Vec<(OwnedFd, OwnedFd)> = (0..nfds).map(|_| nix::unistd::pipe().unwrap()).collect();
        let sent_ids: Vec<(u64, u64)> = pipes.iter().map(|p| ident(p.1.as_raw_fd())).collect();
        let (msg, prefix) = build_msg(&kv, &pipes);
        let body = msg.get_buf().to_vec();
        peer.bytes.clear();
        peer.fds.clear();
        peer.dropped = 0;
        peer.cap = body.len() + (4 << 20); // header + body + 2 MiB at least; more is never kept in memory

        if kv.get("fill").map(|f| *f == "1").unwrap_or(false) {
            // fill the socket with bytes of our own so that the first sendmsg of the message is refused (EAGAIN at zero bytes)
            let chunk = [0xABu8; 512];
            loop {
                let r = unsafe {
                    nix::libc::send(sfd, chunk.as_ptr() as *const nix::libc::c_void, chunk.len(), nix::libc::MSG_DONTWAIT)
                };
                if r <= 0 {
                    break;
                }
                peer.junk += r as usize;
            }
        }
        let mut abandoned = false;
        let mut log: Vec<String> = Vec::new();
        let mut reported: Option<u32> = None;
        let mut total = 0usize;
        let mut expected_hdr: Vec<u8> = Vec::new();
        let mut send_err = false;
        {
            // Only one context exists at any time (the previous one is consumed before the next is made),
            // but a single variable holding contexts from different borrows needs a raw pointer.
            let send_ptr: *mut rustbus::connection::ll_conn::SendConn = &mut conn.send;
            let mut active: Option<SendMessageContext> = None;
            let mut suspended: Option<SendMessageState> = None;
            let wall = kv.get("api").map(|a| *a == "wall").unwrap_or(false);
            let mut wall_refused = false;
            if wall {
                // the public wrapper send_message_write_all: blocking, the kernel still cuts the message into
                // short writes because the send buffer is small and the peer is emptied concurrently
                let sc = unsafe { &mut *send_ptr };
                let mref = &msg;
                let r = with_drain(&mut peer, move || sc.send_message_write_all(mref));
                match r {
                    Ok(s) => {
                        reported = Some(s.get());
                        rustbus::wire::marshal::marshal(&msg, s, &mut expected_hdr).unwrap();
                        total = expected_hdr.len() + body.len();
                        log.push(format!("M:ok@{}", peer.acc()));
                    }
                    Err(rustbus::connection::Error::MarshalError(_)) => {
                        wall_refused = true;
                    }
                    Err(e) => {
                        log.push(format!("M:X{:?}@{}", e, peer.acc()).replace([' ', ','], "_"));
                    }
                }
                send_err = true; // nothing more to do for this message: skip the script
            } else {
            match unsafe { &mut *send_ptr }.send_message(&msg) {
                Ok(ctx) => {
                    total = ctx.bytes_total();
                    let s = ctx.serial();
                    rustbus::wire::marshal::marshal(&msg, s, &mut expected_hdr).unwrap();
                    active = Some(ctx);
                }
                Err(_) => {
                    send_err = true;
                }
            }
            }
            let skip_script = send_err;
            if wall {
                send_err = wall_refused;
            }
            let mut ops: Vec<&str> = kv["script"].split(',').filter(|s| !s.is_empty()).collect();
            if !ops.iter().any(|o| *o == "F" || *o == "A" || *o == "X" || *o == "Q") {
                ops.push("F");
            }
            let mut acc_before = 0usize;
            for op in ops {
                if skip_script {
                    break;
                }
                let done = reported.is_some() || abandoned;
                let entry: String = match op.as_bytes()[0] {
                    b'd' => {
                        let n: usize = op[1..].parse().unwrap();
                        let (g, f) = peer.drain(n);
                        format!("d:{}:{}", g, f)
                    }
                    _ if done => "-".to_string(),
                    b'w' => match active.as_mut() {
                        Some(ctx) => match ctx.write_once(Timeout::Nonblock) {
                            Ok(k) => {
                                let fin = ctx.all_bytes_written();
                                if fin {
                                    let c = active.take().unwrap();
                                    reported = Some(c.serial().get());
                                    drop(c);
                                }
                                format!("w:{}{}", k, if fin { "!" } else { "" })
                            }
                            Err(e) => {
                                if is_again(&e) {
                                    "w:E".to_string()
                                } else {
                                    format!("w:X{:?}", e).replace([' ', ','], "_")
                                }
                            }
                        },
                        None => "-".to_string(),
                    },
                    b's' => match active.take() {
                        Some(ctx) => {
                            suspended = Some(ctx.into_progress());
                            "s".to_string()
                        }
                        None => "-".to_string(),
                    },
                    b'r' => match suspended.take() {
                        Some(p) => {
                            active = Some(SendMessageContext::resume(unsafe { &mut *send_ptr }, &msg, p));
                            "r".to_string()
                        }
                        None => "-".to_string(),
                    },
                    b'W' | b'T' => match active.take() {
                        Some(ctx) => {
                            let t = if op == "W" {
                                Timeout::Nonblock
                            } else {
                                Timeout::Duration(std::time::Duration::from_millis(1))
                            };
                            match ctx.write(t) {
                                Ok(s) => {
                                    reported = Some(s.get());
                                    format!("{}:ok", op)
                                }
                                Err((ctx, e)) => {
                                    let r = if is_again(&e) {
                                        format!("{}:E", op)
                                    } else {
                                        format!("{}:X{:?}", op, e).replace([' ', ','], "_")
                                    };
                                    active = Some(ctx);
                                    r
                                }
                            }
                        }
                        None => "-".to_string(),
                    },
                    b'X' | b'Q' => {
                        // the caller gives the message up: X drops the context (legal when nothing was sent, a panic
                        // by design after a partial write), Q is force_finish
                        if let Some(p) = suspended.take() {
                            active = Some(SendMessageContext::resume(unsafe { &mut *send_ptr }, &msg, p));
                            log.push(format!("r@{}", peer.acc()));
                        }
                        match active.take() {
                            Some(ctx) => {
                                abandoned = true;
                                if op == "Q" {
                                    ctx.force_finish();
                                    "Q".to_string()
                                } else {
                                    match std::panic::catch_unwind(std::panic::AssertUnwindSafe(move || drop(ctx))) {
                                        Ok(()) => "X:ok".to_string(),
                                        Err(_) => "X:panic".to_string(),
                                    }
                                }
                            }
                            None => "-".to_string(),
                        }
                    }
                    b'F' | b'A' => {
                        if let Some(p) = suspended.take() {
                            active = Some(SendMessageContext::resume(unsafe { &mut *send_ptr }, &msg, p));
                            log.push(format!("r@{}", peer.acc()));
                        }
                        let ctx0 = active.take().unwrap();
                        if op == "A" {
                            // blocking write_all while another thread empties the peer's queue
                            let res = with_drain(&mut peer, move || ctx0.write_all());
                            match res {
                                Ok(s) => {
                                    reported = Some(s.get());
                                    "A:ok".to_string()
                                }
                                Err((ctx, e)) => {
                                    ctx.force_finish();
                                    format!("A:X{:?}", e).replace([' ', ','], "_")
                                }
                            }
                        } else {
                            let mut ctx = ctx0;
                            let mut rounds = 0usize;
                            let r;
                            loop {
                                match ctx.write(Timeout::Nonblock) {
                                    Ok(s) => {
                                        reported = Some(s.get());
                                        r = "F:ok".to_string();
                                        break;
                                    }
                                    Err((c, e)) => {
                                        if !is_again(&e) || rounds > 1_000_000 {
                                            c.force_finish();
                                            r = format!("F:X{:?}", e).replace([' ', ','], "_");
                                            break;
                                        }
                                        if peer.got() > total + (1 << 20) {
                                            // far more bytes than the message has went out and the send still is not
                                            // complete: stop here (the comparison below reports the surplus)
                                            c.force_finish();
                                            r = "F:over".to_string();
                                            break;
                                        }
                                        ctx = c;
                                        peer.drain(usize::MAX);
                                        rounds += 1;
                                    }
                                }
                            }
                            r
                        }
                    }
                    _ => "?".to_string(),
                };
                let acc = peer.acc();
                let _ = acc_before;
                acc_before = acc;
                log.push(format!("{}@{}", entry, acc));
            }
            if let Some(ctx) = active.take() {
                ctx.force_finish();
            }
        }
        // everything that is still queued, then compare
        peer.drain(usize::MAX);
        let mut expected = expected_hdr.clone();
        expected.extend_from_slice(&body);
        let hlen = expected_hdr.len();
        let cmp_len = expected.len().min(peer.bytes.len());
        let mut mismatch: Option<usize> = None;
        for i in 0..cmp_len {
            if expected[i] != peer.bytes[i] {
                mismatch = Some(i);
                break;
            }
        }
        if mismatch.is_none() && expected.len() != peer.bytes.len() && !(abandoned && peer.bytes.len() < expected.len()) {
            mismatch = Some(cmp_len);
        }
        let extra = peer.got().saturating_sub(expected.len());
        let fds: Vec<String> = peer
            .fds
            .iter()
            .map(|id| match sent_ids.iter().position(|s| s == id) {
                Some(i) => i.to_string(),
                None => "?".to_string(),
            })
            .collect();
        let typ = match msg.typ {
            MessageType::Call => 1,
            MessageType::Reply => 2,
            MessageType::Error => 3,
            MessageType::Signal => 4,
            MessageType::Invalid => 0,
        };
        out.push(format!(
            "serial={} total={} typ={} hdr={} prefix={} bodylen={} bodycrc={} log={} peer_len={} peer_crc={} peer_hdr={} mismatch={} fds={} ctrunc={} extra={} senderr={} abandoned={}",
            reported.map(|s| s.to_string()).unwrap_or("-".into()),
            total,
            typ,
            hex(&expected_hdr),
            hex(&prefix),
            body.len(),
            crc32(&body),
            if log.is_empty() { "-".to_string() } else { log.join(",") },
            peer.got(),
            crc32(&peer.bytes),
            hex(&peer.bytes[..hlen.min(peer.bytes.len())]),
            mismatch.map(|m| m.to_string()).unwrap_or("-".into()),
            if fds.is_empty() { "-".to_string() } else { fds.join(".") },
            peer.ctrunc as u8,
            extra,
            send_err as u8,
            abandoned as u8,
        ));
        drop(msg);
        drop(pipes);
    }
    out.join(" | ")
}

fn main() {
    // Every case runs in its own thread with a deadline: a send that never terminates is reported as
    // HANG and the process exits (the driver re-runs the remaining lines in a fresh process).
    use std::io::{BufRead, Write};
    std::panic::set_hook(Box::new(|_| {}));
    let deadline = std::env::var("VERIF_C10_DEADLINE_S").ok().and_then(|s| s.parse().ok()).unwrap_or(60u64);
    let stdin = std::io::stdin();
    let stdout = std::io::stdout();
    for line in stdin.lock().lines() {
        let line = line.unwrap();
        let (tx, rx) = std::sync::mpsc::channel();
        let l2 = line.clone();
        std::thread::spawn(move || {
            let r = std::panic::catch_unwind(|| run_case(&l2));
            let s = match r {
                Ok(s) => s,
                Err(e) => {
                    let msg = if let Some(s) = e.downcast_ref::<&str>() {
                        s.to_string()
                    } else if let Some(s) = e.downcast_ref::<String>() {
                        s.clone()
                    } else {
                        "?".to_string()
                    };
                    format!("PANIC {}", msg.replace('\n', " "))
                }
            };
            let _ = tx.send(s);
        });
        let mut out = stdout.lock();
        match rx.recv_timeout(std::time::Duration::from_secs(deadline)) {
            Ok(s) => {
                writeln!(out, "{}", s).unwrap();
                out.flush().unwrap();
            }
            Err(_) => {
                writeln!(out, "HANG").unwrap();
                out.flush().unwrap();
                rbverif::conn::cleanup_scratch();
                std::process::exit(3);
            }
        }
    }
    rbverif::conn::cleanup_scratch();
}
