//! C12 — deterministic schedule controller for `rustbus::wire::UnixFd`.
//!
//! One input line = `fd0;prog|prog|...;sched`
//!   prog  = comma separated operations `T<h>` take_raw_fd, `G<h>` get_raw_fd, `D<h>` dup,
//!           `E<h>` / `N<h>` dup whose dup(2) call fails with EMFILE / ENFILE, `C<h>` clone,
//!           `X<h>` drop, on thread-local handle numbers: every thread starts with handle 0 = a
//!           clone of the one `UnixFd::new(fd0)`; every `C` and every `D` in the program is given
//!           the next number for the handle it creates (`D`: the UnixFd returned by dup, "just
//!           another UnixFd"); if it creates none at run time (dup reported the descriptor as
//!           gone, or the operation was itself skipped) operations on that number are skipped
//!           (`if let Ok(d) = h.dup() { .. }`), which takes one scheduling step; `-` = empty program
//!   sched = comma separated thread ids, `-` = empty
//!
//! Real OS threads execute the real `UnixFd` methods. Under the feature `verif_hooks` the atomic
//! cell of unixfd.rs is `verif_hooks::atomic_shim::AtomicI32`: every load / store /
//! compare_exchange / swap / fetch_* on it is itself a point named after the operation
//! (`atomic.load`, `atomic.compare_exchange`, ...), and dup/close, the Arc decrement and the Arc
//! increment have a point in front of them. A controlled thread blocks at each of these until the
//! controller grants it one step, performs the one shared-memory access or system call and runs on
//! to its next point (or to the end of its program). So one schedule entry = one atomic operation
//! = one `step` of coq/Fd/Concurrent.v, and a read-modify-write that is not ONE atomic operation
//! is a different, longer sequence that the schedules interleave. The label points `take.load`,
//! `take.cas`, `get.load` in unixfd.rs do not block when the atomic shim is present.
//! (Legacy mode, `--mode legacy` or when the probe finds no atomic shim in the crate: the label
//! points block instead and "one point = one atomic operation" is assumed, not enforced.) Entries naming a
//! finished or non-existing thread do nothing. When the schedule is exhausted thread 0 is run
//! until it has finished, then thread 1, ... (`completion` in the model).
//! `dup`/`close` go to a simulated descriptor table through `verif_hooks::nix_shim`, so nothing
//! real is closed and every call is logged in global order.
//!
//! Output line = `r|r|...;syscalls;open;steps` with r = per-thread results (`T=100`, `T=none`, `G=100`,
//! `G=none`, `D=101`, `D=gone`, `D=err`, `C`, `X`, `S` skipped), syscalls =
//! `dup(100)=101@2,dup(100)=ERR@0,close(100)@1` (`@thread`), open = the descriptors open in the
//! simulated table at the end (before the handles the programs did not drop are released), steps =
//! for every granted step in order `t.i:name` (thread, operation index, name of the point the
//! thread was released from) followed by `t:dup(..)=..` / `t:close(..)` if the step made that
//! system call. `HANG ...` if a step does not complete within the watchdog time,
//! `BADLINE ...` for unparsable input or a program that uses a handle it does not own.

use rustbus::verif_hooks;
use rustbus::wire::UnixFd;
use std::cell::RefCell;
use std::collections::BTreeSet;
use std::sync::{Arc, Condvar, Mutex};
use std::time::{Duration, Instant};

fn watchdog() -> Duration {
    // generous hang detector only; the check re-runs a HANG line alone with a longer deadline
    let s = std::env::var("C12_WATCHDOG_S").ok().and_then(|v| v.parse::<u64>().ok()).unwrap_or(30);
    Duration::from_secs(s)
}
const UNCONTROLLED: usize = usize::MAX;

#[derive(Clone, Copy, Debug)]
enum Op {
    Take(usize),
    Get(usize),
    Dup(usize),
    DupFail(usize, nix::errno::Errno),
    Clone(usize),
    Drop(usize),
}

struct Sched {
    grant: Vec<bool>,     // the controller allows thread t one step
    arrivals: Vec<u64>,   // how often thread t reached a point or its end
    finished: Vec<bool>,
}

struct Table {
    open: BTreeSet<i32>,
    next: i64, // the number the next successful dup returns (fd0 + 1, fd0 + 2, ..; fd0 may be i32::MAX)
    log: Vec<String>,
    points: Vec<String>, // "t.i:name" for every granted step
}

struct Case {
    sched: Mutex<Sched>,
    cv: Condvar,
    table: Mutex<Table>,
}

thread_local! {
    // (thread id or UNCONTROLLED, the case this thread belongs to)
    static CTX: RefCell<Option<(usize, Arc<Case>)>> = RefCell::new(None);
    // index of the operation this (worker) thread is executing
    static OPIDX: std::cell::Cell<usize> = std::cell::Cell::new(0);
    // the next dup(2) of this thread fails with this errno (operations E / N)
    static FAIL_DUP: std::cell::Cell<Option<nix::errno::Errno>> = std::cell::Cell::new(None);
}

fn ctx() -> Option<(usize, Arc<Case>)> {
    CTX.with(|c| c.borrow().clone())
}

/// run `f` with scheduling points switched off for this thread (bookkeeping calls of the harness)
fn uncontrolled<R>(f: impl FnOnce() -> R) -> R {
    let old = CTX.with(|c| c.borrow_mut().as_mut().map(|x| std::mem::replace(&mut x.0, UNCONTROLLED)));
    let r = f();
    if let Some(t) = old {
        CTX.with(|c| {
            if let Some(x) = c.borrow_mut().as_mut() {
                x.0 = t
            }
        });
    }
    r
}

/// true = the crate's atomic cell is the shim (every shared-memory access is a point)
static SHIM: std::sync::atomic::AtomicBool = std::sync::atomic::AtomicBool::new(false);
/// points seen by the probe
static PROBE: Mutex<Vec<&'static str>> = Mutex::new(Vec::new());

fn is_label(name: &str) -> bool {
    matches!(name, "take.load" | "take.cas" | "get.load")
}

fn on_point(name: &'static str) {
    let Some((tid, case)) = ctx() else {
        PROBE.lock().unwrap().push(name);
        return;
    };
    if tid == UNCONTROLLED {
        return;
    }
    // with the atomic shim the labels in front of the atomics are only labels
    if SHIM.load(std::sync::atomic::Ordering::SeqCst) && is_label(name) {
        return;
    }
    let mut s = case.sched.lock().unwrap();
    s.arrivals[tid] += 1;
    case.cv.notify_all();
    while !s.grant[tid] {
        s = case.cv.wait(s).unwrap();
    }
    s.grant[tid] = false;
    drop(s);
    // only the granted thread runs now, so the order of these entries is the order of the steps
    let i = OPIDX.with(|c| c.get());
    case.table.lock().unwrap().points.push(format!("{}.{}:{}", tid, i, name));
}

fn sim_dup(fd: i32) -> Result<i32, nix::errno::Errno> {
    let Some((tid, case)) = ctx() else { return Err(nix::errno::Errno::ENOSYS) };
    let mut t = case.table.lock().unwrap();
    let who = if tid == UNCONTROLLED { "main".to_string() } else { tid.to_string() };
    if let Some(e) = FAIL_DUP.with(|c| c.get()) {
        t.log.push(format!("dup({})=ERR@{}", fd, who));
        t.points.push(format!("{}:dup({})=ERR", who, fd));
        return Err(e);
    }
    if !t.open.contains(&fd) {
        t.log.push(format!("dup({})=EBADF@{}", fd, who));
        t.points.push(format!("{}:dup({})=EBADF", who, fd));
        return Err(nix::errno::Errno::EBADF);
    }
    if t.next > i32::MAX as i64 {
        // the table is full (the check never generates fd0 + number of dups > i32::MAX)
        t.log.push(format!("dup({})=ERR@{}", fd, who));
        t.points.push(format!("{}:dup({})=ERR", who, fd));
        return Err(nix::errno::Errno::EMFILE);
    }
    let n = t.next as i32;
    t.next += 1;
    t.open.insert(n);
    t.log.push(format!("dup({})={}@{}", fd, n, who));
    t.points.push(format!("{}:dup({})={}", who, fd, n));
    Ok(n)
}

fn sim_close(fd: i32) -> Result<(), nix::errno::Errno> {
    let Some((tid, case)) = ctx() else { return Err(nix::errno::Errno::ENOSYS) };
    let mut t = case.table.lock().unwrap();
    let who = if tid == UNCONTROLLED { "main".to_string() } else { tid.to_string() };
    if !t.open.remove(&fd) {
        t.log.push(format!("close({})=EBADF@{}", fd, who));
        t.points.push(format!("{}:close({})=EBADF", who, fd));
        return Err(nix::errno::Errno::EBADF);
    }
    t.log.push(format!("close({})@{}", fd, who));
    t.points.push(format!("{}:close({})", who, fd));
    Ok(())
}

fn parse_prog(s: &str) -> Result<Vec<Op>, String> {
    let s = s.trim();
    if s == "-" || s.is_empty() {
        return Ok(vec![]);
    }
    let mut v = Vec::new();
    for item in s.split(',') {
        let item = item.trim();
        if item.len() < 2 {
            return Err(format!("bad op '{}'", item));
        }
        let h: usize = item[1..].parse().map_err(|_| format!("bad op '{}'", item))?;
        v.push(match &item[..1] {
            "T" => Op::Take(h),
            "G" => Op::Get(h),
            "D" => Op::Dup(h),
            "E" => Op::DupFail(h, nix::errno::Errno::EMFILE),
            "N" => Op::DupFail(h, nix::errno::Errno::ENFILE),
            "C" => Op::Clone(h),
            "X" => Op::Drop(h),
            _ => return Err(format!("bad op '{}'", item)),
        });
    }
    Ok(v)
}

/// ownership: every operation names a handle the thread owns at that time, counting on every
/// clone and dup to create the handle it is given a number for (`own_ok` in the model)
fn owns_ok(p: &[Op]) -> bool {
    let mut live: BTreeSet<usize> = BTreeSet::new();
    live.insert(0);
    let mut next = 1;
    for op in p {
        match *op {
            Op::Take(h) | Op::Drop(h) => {
                if !live.remove(&h) {
                    return false;
                }
            }
            Op::Get(h) | Op::DupFail(h, _) => {
                if !live.contains(&h) {
                    return false;
                }
            }
            Op::Clone(h) | Op::Dup(h) => {
                if !live.contains(&h) {
                    return false;
                }
                live.insert(next);
                next += 1;
            }
        }
    }
    true
}

struct ThreadOut {
    results: Vec<String>,
    leftover: Vec<UnixFd>, // handles the program never dropped: kept alive until the output is written
}

fn worker(tid: usize, case: Arc<Case>, first: UnixFd, prog: Vec<Op>, out: Arc<Mutex<Option<ThreadOut>>>) {
    CTX.with(|c| *c.borrow_mut() = Some((tid, case.clone())));
    let mut results = Vec::new();
    // handle number -> the UnixFd, None = consumed (take/drop) or never created (dead)
    let mut live: Vec<Option<UnixFd>> = vec![Some(first)];
    let r = std::panic::catch_unwind(std::panic::AssertUnwindSafe(|| {
        for (i, op) in prog.into_iter().enumerate() {
            OPIDX.with(|c| c.set(i));
            let h = match op {
                Op::Take(h) | Op::Get(h) | Op::Dup(h) | Op::DupFail(h, _) | Op::Clone(h) | Op::Drop(h) => h,
            };
            if live.get(h).map(|x| x.is_none()).unwrap_or(true) {
                // the handle was never created (owns_ok excludes consumed ones): skip, one step
                verif_hooks::point("skip");
                if matches!(op, Op::Clone(_) | Op::Dup(_)) {
                    live.push(None);
                }
                results.push("S".to_string());
                continue;
            }
            match op {
                Op::Get(h) => {
                    let r = live[h].as_ref().unwrap().get_raw_fd();
                    results.push(match r {
                        Some(v) => format!("G={}", v),
                        None => "G=none".to_string(),
                    });
                }
                Op::Take(h) => {
                    let fd = live[h].take().unwrap();
                    let r = fd.take_raw_fd();
                    results.push(match r {
                        Some(v) => format!("T={}", v),
                        None => "T=none".to_string(),
                    });
                }
                Op::Dup(h) | Op::DupFail(h, _) => {
                    if let Op::DupFail(_, e) = op {
                        FAIL_DUP.with(|c| c.set(Some(e)));
                    }
                    let r = live[h].as_ref().unwrap().dup();
                    FAIL_DUP.with(|c| c.set(None));
                    let creates = matches!(op, Op::Dup(_));
                    match r {
                        Ok(newfd) => {
                            let n = uncontrolled(|| newfd.get_raw_fd());
                            results.push(match n {
                                Some(v) => format!("D={}", v),
                                None => "D=?".to_string(),
                            });
                            // the returned UnixFd is the thread's next handle
                            live.push(Some(newfd));
                        }
                        // DupError lives in a private module: tell the variants apart by Debug
                        Err(e) => {
                            let d = format!("{:?}", e);
                            results.push(if d == "AlreadyTaken" {
                                "D=gone".to_string()
                            } else if d.starts_with("Io(") {
                                "D=err".to_string()
                            } else {
                                format!("D=?{}", d)
                            });
                            if creates {
                                live.push(None);
                            }
                        }
                    }
                }
                Op::Clone(h) => {
                    // derived Clone = Arc::clone = one atomic increment; the library has no point
                    // here (a derive cannot carry one), so the harness supplies it
                    verif_hooks::point("clone.inc");
                    let c = live[h].as_ref().unwrap().clone();
                    live.push(Some(c));
                    results.push("C".to_string());
                }
                Op::Drop(h) => {
                    let fd = live[h].take().unwrap();
                    drop(fd);
                    results.push("X".to_string());
                }
            }
        }
    }));
    if r.is_err() {
        results.push("PANIC".to_string());
    }
    // from here on this thread is no longer scheduled
    CTX.with(|c| {
        if let Some(x) = c.borrow_mut().as_mut() {
            x.0 = UNCONTROLLED
        }
    });
    let leftover: Vec<UnixFd> = live.into_iter().flatten().collect();
    *out.lock().unwrap() = Some(ThreadOut { results, leftover });
    let mut s = case.sched.lock().unwrap();
    s.finished[tid] = true;
    s.arrivals[tid] += 1;
    case.cv.notify_all();
}

/// wait until thread t has arrived (at a point or at its end) more than `before` times
fn wait_arrival(case: &Case, t: usize, before: u64) -> bool {
    let deadline = Instant::now() + watchdog();
    let mut s = case.sched.lock().unwrap();
    while s.arrivals[t] <= before {
        let now = Instant::now();
        if now >= deadline {
            return false;
        }
        let (g, _) = case.cv.wait_timeout(s, deadline - now).unwrap();
        s = g;
    }
    true
}

/// one schedule entry; Ok(false) = no-op entry
fn grant_step(case: &Case, t: usize, n: usize) -> Result<bool, String> {
    let before;
    {
        let mut s = case.sched.lock().unwrap();
        if t >= n || s.finished[t] {
            return Ok(false);
        }
        before = s.arrivals[t];
        s.grant[t] = true;
        case.cv.notify_all();
    }
    if wait_arrival(case, t, before) {
        Ok(true)
    } else {
        Err(format!("thread {} did not reach its next point", t))
    }
}

fn run_case(line: &str) -> String {
    let parts: Vec<&str> = line.split(';').collect();
    if parts.len() != 3 {
        return "BADLINE expected fd0;progs;sched".to_string();
    }
    let fd0: i32 = match parts[0].trim().parse() {
        Ok(v) if v >= 0 => v,
        _ => return "BADLINE fd0".to_string(),
    };
    let mut progs = Vec::new();
    for p in parts[1].split('|') {
        match parse_prog(p) {
            Ok(v) => progs.push(v),
            Err(e) => return format!("BADLINE {}", e),
        }
    }
    if progs.is_empty() || progs.len() > 64 {
        return "BADLINE number of threads".to_string();
    }
    for p in &progs {
        if !owns_ok(p) {
            return "BADLINE program uses a handle it does not own".to_string();
        }
    }
    let mut sched = Vec::new();
    let st = parts[2].trim();
    if st != "-" && !st.is_empty() {
        for x in st.split(',') {
            match x.trim().parse::<usize>() {
                Ok(v) => sched.push(v),
                Err(_) => return "BADLINE schedule".to_string(),
            }
        }
    }
    let n = progs.len();
    let case = Arc::new(Case {
        sched: Mutex::new(Sched { grant: vec![false; n], arrivals: vec![0; n], finished: vec![false; n] }),
        cv: Condvar::new(),
        table: Mutex::new(Table { open: [fd0].into_iter().collect(), next: fd0 as i64 + 1, log: Vec::new(), points: Vec::new() }),
    });
    CTX.with(|c| *c.borrow_mut() = Some((UNCONTROLLED, case.clone())));

    // UnixFd::new(fd0), one clone per thread, the original dropped: strong count = n
    let original = UnixFd::new(fd0);
    let clones: Vec<UnixFd> = (0..n).map(|_| original.clone()).collect();
    drop(original);

    let outs: Vec<Arc<Mutex<Option<ThreadOut>>>> = (0..n).map(|_| Arc::new(Mutex::new(None))).collect();
    for (tid, (h, p)) in clones.into_iter().zip(progs.into_iter()).enumerate() {
        let case2 = case.clone();
        let out = outs[tid].clone();
        std::thread::Builder::new()
            .name(format!("c12-{}", tid))
            .spawn(move || worker(tid, case2, h, p, out))
            .expect("spawn");
    }
    // every thread reaches its first point (or its end)
    for t in 0..n {
        if !wait_arrival(&case, t, 0) {
            return format!("HANG thread {} did not start", t);
        }
    }
    for &t in &sched {
        if let Err(e) = grant_step(&case, t, n) {
            return format!("HANG {}", e);
        }
    }
    // run-to-completion: lowest thread id first, one at a time
    for t in 0..n {
        loop {
            match grant_step(&case, t, n) {
                Ok(true) => {}
                Ok(false) => break,
                Err(e) => return format!("HANG {}", e),
            }
        }
    }
    let mut res = Vec::new();
    let mut keep = Vec::new();
    for o in &outs {
        let to = o.lock().unwrap().take().expect("thread output");
        res.push(if to.results.is_empty() { "-".to_string() } else { to.results.join(",") });
        keep.push(to);
    }
    let (log, open, points) = {
        let t = case.table.lock().unwrap();
        (
            if t.log.is_empty() { "-".to_string() } else { t.log.join(",") },
            if t.open.is_empty() { "-".to_string() } else { t.open.iter().map(|x| x.to_string()).collect::<Vec<_>>().join(",") },
            if t.points.is_empty() { "-".to_string() } else { t.points.join(",") },
        )
    };
    let line = format!("{};{};{};{}", res.join("|"), log, open, points);
    // release what the harness still holds (simulated closes, no longer observed)
    drop(keep);
    CTX.with(|c| *c.borrow_mut() = None);
    line
}

/// does the crate under test route its atomic cell through verif_hooks::atomic_shim?
fn probe_shim() -> bool {
    PROBE.lock().unwrap().clear();
    let fd = UnixFd::new(0);
    let _ = fd.get_raw_fd();
    let _ = fd.take_raw_fd(); // taken: the library does not close it
    let seen = PROBE.lock().unwrap().clone();
    seen.iter().any(|n| n.starts_with("atomic."))
}

/// A plain stress stream, no controller (a TEST, not part of the proof): `rounds` times two real
/// threads spin until released and then call take_raw_fd on clones of a fresh UnixFd; a third
/// clone is dropped afterwards. Judged directly: at most one Some per round, it is the
/// descriptor, and the (simulated) close is called iff nobody took it. Prints
/// `rounds=.. double_take=.. wrong_value=.. bad_close=..`.
fn stress(rounds: usize) -> String {
    use std::sync::atomic::{AtomicUsize, Ordering};
    verif_hooks::set_controller(None);
    let closes = Arc::new(AtomicUsize::new(0));
    let c2 = closes.clone();
    verif_hooks::nix_shim::unistd::set_close(Some(Arc::new(move |_fd| {
        c2.fetch_add(1, Ordering::SeqCst);
        Ok(())
    })));
    struct Slot {
        round: AtomicUsize,
        fd: Mutex<Option<UnixFd>>,
        got: Mutex<Option<Option<i32>>>,
        done: AtomicUsize,
    }
    let slots: Vec<Arc<Slot>> = (0..2)
        .map(|_| Arc::new(Slot { round: AtomicUsize::new(0), fd: Mutex::new(None), got: Mutex::new(None), done: AtomicUsize::new(0) }))
        .collect();
    let go = Arc::new(AtomicUsize::new(0));
    let mut joins = Vec::new();
    for s in &slots {
        let s = s.clone();
        let go = go.clone();
        joins.push(std::thread::spawn(move || {
            let mut r = 0usize;
            loop {
                r += 1;
                while s.round.load(Ordering::Acquire) < r {
                    std::hint::spin_loop();
                }
                let fd = s.fd.lock().unwrap().take();
                let Some(fd) = fd else { return };
                while go.load(Ordering::Acquire) < r {
                    std::hint::spin_loop();
                }
                let v = fd.take_raw_fd();
                *s.got.lock().unwrap() = Some(v);
                s.done.store(r, Ordering::Release);
            }
        }));
    }
    let (mut double_take, mut wrong_value, mut bad_close) = (0usize, 0usize, 0usize);
    for r in 1..=rounds {
        // numbers over the whole range of RawFd (a value-dependent defect shows as wrong_value)
        const NUMS: [i32; 9] = [1000, 0, 2, 255, 256, 65535, 65536, 1 << 24, i32::MAX];
        let fdnum = NUMS[r % NUMS.len()];
        let before = closes.load(Ordering::SeqCst);
        let orig = UnixFd::new(fdnum);
        for s in &slots {
            *s.fd.lock().unwrap() = Some(orig.clone());
            s.round.store(r, Ordering::Release);
        }
        go.store(r, Ordering::Release);
        for s in &slots {
            while s.done.load(Ordering::Acquire) < r {
                std::hint::spin_loop();
            }
        }
        let got: Vec<Option<i32>> = slots.iter().map(|s| s.got.lock().unwrap().take().unwrap()).collect();
        drop(orig);
        let some = got.iter().filter(|g| g.is_some()).count();
        if some > 1 {
            double_take += 1;
        }
        if got.iter().any(|g| matches!(g, Some(v) if *v != fdnum)) {
            wrong_value += 1;
        }
        let closed = closes.load(Ordering::SeqCst) - before;
        if (some >= 1 && closed != 0) || (some == 0 && closed != 1) {
            bad_close += 1;
        }
    }
    for s in &slots {
        *s.fd.lock().unwrap() = None;
        s.round.store(rounds + 1, Ordering::Release);
    }
    for j in joins {
        let _ = j.join();
    }
    format!("rounds={} double_take={} wrong_value={} bad_close={}", rounds, double_take, wrong_value, bad_close)
}

fn main() {
    let args: Vec<String> = std::env::args().collect();
    verif_hooks::set_controller(Some(Arc::new(on_point)));
    verif_hooks::nix_shim::unistd::set_dup(Some(Arc::new(sim_dup)));
    verif_hooks::nix_shim::unistd::set_close(Some(Arc::new(sim_close)));
    let present = probe_shim();
    if args.iter().any(|a| a == "--probe") {
        println!("{}", if present { "shim" } else { "legacy" });
        return;
    }
    if let Some(k) = args.iter().position(|a| a == "--stress") {
        let n: usize = args.get(k + 1).and_then(|x| x.parse().ok()).unwrap_or(100000);
        println!("{}", stress(n));
        return;
    }
    let mode = args.iter().position(|a| a == "--mode").and_then(|k| args.get(k + 1).cloned());
    let shim = match mode.as_deref() {
        Some("legacy") => false,
        Some("shim") => true,
        _ => present,
    };
    SHIM.store(shim, std::sync::atomic::Ordering::SeqCst);
    rbverif::line_loop(|line| run_case(line));
}
