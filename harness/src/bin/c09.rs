//! C09 harness: the real RecvConn (get_next_message / read_once) against a peer that writes a byte
//! stream in chosen chunks with descriptors attached (sendmsg + SCM_RIGHTS) to chosen writes.
//!
//! stdin lines -> one stdout line each:
//!   build <spec>|<spec>...          spec = typ,bo,arraylen,nfds,serial,tag[,u]   (typ c|s|r|e ; bo l|B ;
//!                                   arraylen -1 = no byte array in the body ; u = the descriptors are attached
//!                                   but not referenced by the body, which may then be empty)
//!        -> <framehex>#<canon>|...  messages built with MessageBuilder and marshalled by the crate
//!   run <streamhex> <n0.n1...> <events>   stream = all frames concatenated; ni = descriptor count of
//!                                   message i; events (comma separated):
//!        w<len>        peer writes the next <len> bytes of the stream
//!        w<len>f<i>    ... with the descriptors of message i attached to this sendmsg
//!        g | t | r     client: get_next_message(Nonblock) | get_next_message(Duration(1ms)) |
//!                      read_once(Nonblock)
//!        T | i         client: get_next_message(Duration(5 s)) | get_next_message(Infinite); only scheduled
//!                      when a complete message is already queued
//!        z | Z         get_next_message(Duration(0)) | get_next_message(Duration(1 ns)): the deadline has passed
//!                      at the first look at the clock (time-out unless the buffer already holds a whole message)
//!        R | j | q     read_once(Duration(5 s)) | read_once(Infinite) (only when a read can be made at once) |
//!                      read_once(Duration(1 ns))
//!   every `run` case has a deadline (C09_CASE_MS, default 3000 ms; a hang detector only: no operation of a
//!   schedule waits for anything that is not already there): on expiry the result is HANG <results so far are
//!   lost> and the next case runs on a fresh connection; after 3 such cases the rest of the input is SKIPPED
//!        -> one result per client op (comma separated):  M<canon>~<fd labels> | T | K | E<variant>
//!           fd label = <msg index>.<position> found by fstat (dev, ino); ? when unknown
//!   giant <spec>|<spec>... <cuts> <chunk> <ops>   frames of up to MAX_MESSAGE_LEN bytes built here from short
//!        descriptors, written by a peer thread, received with Infinite calls (see fn giant)
//!   kprobe <hex:nfds;hex:nfds...> <req.req...>    raw socketpair: write the segments, then one
//!        nonblocking recvmsg per request size -> <bytes>:<nfds> or A (EAGAIN), comma separated
use nix::sys::socket::{recvmsg, sendmsg, ControlMessage, ControlMessageOwned, MsgFlags};
use rbverif::{hex, unhex};
use rustbus::connection::Timeout;
use rustbus::message_builder::{DynamicHeader, MarshalledMessage, MarshalledMessageBody};
use rustbus::wire::UnixFd;
use rustbus::{ByteOrder, MessageBuilder, MessageType};
use std::io::{IoSlice, IoSliceMut};
use std::num::NonZeroU32;
use std::os::unix::io::{AsRawFd, RawFd};
use std::os::unix::net::UnixStream;

fn opt(s: &Option<String>) -> String {
    match s {
        Some(x) => hex(x.as_bytes()),
        None => "_".to_string(),
    }
}

pub fn canon(msg: &MarshalledMessage, serial: Option<NonZeroU32>) -> String {
    format!("{};{}", canon_head(msg, serial), hex(msg.get_buf()))
}

/// every decoded header field (all of `canon` but the body bytes)
pub fn canon_head(msg: &MarshalledMessage, serial: Option<NonZeroU32>) -> String {
    let d = &msg.dynheader;
    let typ = match msg.typ {
        MessageType::Call => "c",
        MessageType::Reply => "r",
        MessageType::Error => "e",
        MessageType::Signal => "s",
        MessageType::Invalid => "i",
    };
    let bo = match msg.body.byteorder() {
        ByteOrder::LittleEndian => "l",
        ByteOrder::BigEndian => "B",
    };
    let ser = serial.or(d.serial).map(|s| s.get()).unwrap_or(0);
    // UNIX_FDS is written by the marshaller from the body of a message that is being built (serial given);
    // for a received message it is what the header said
    let nf = if serial.is_some() {
        msg.body.get_fds().len()
    } else {
        d.num_fds.unwrap_or(0) as usize
    };
    format!(
        "{};{};{};{};{};{};{};{};{};{};{};{};{}",
        typ,
        msg.flags,
        ser,
        bo,
        opt(&d.interface),
        opt(&d.member),
        opt(&d.object),
        opt(&d.destination),
        opt(&d.sender),
        hex(msg.get_sig().as_bytes()),
        opt(&d.error_name),
        d.response_serial.map(|s| s.get()).unwrap_or(0),
        nf
    )
}

fn devnull() -> RawFd {
    use std::os::unix::io::IntoRawFd;
    std::fs::File::open("/dev/null").unwrap().into_raw_fd()
}

fn build_one(spec: &str) -> String {
    let p: Vec<&str> = spec.split(',').collect();
    let bo = if p[1] == "B" {
        ByteOrder::BigEndian
    } else {
        ByteOrder::LittleEndian
    };
    let alen: i64 = p[2].parse().unwrap();
    let nfds: usize = p[3].parse().unwrap();
    let serial = NonZeroU32::new(p[4].parse().unwrap()).unwrap();
    let tag = p[5];
    // a further field p<len>: the object path (calls, signals) is padded to <len> characters, so that the array of
    // header fields itself is as long as wanted (64 KiB and more: a length that does not fit 16 bits)
    let plen: usize = p.iter().skip(6).find(|x| x.starts_with('p')).map(|x| x[1..].parse().unwrap()).unwrap_or(0);
    let pad_path = |base: String| -> String {
        let mut o = base;
        while o.len() < plen {
            o.push_str(if o.len() % 9 == 0 && o.len() + 1 < plen { "/" } else { "k" });
        }
        o
    };
    let mut msg = match p[0] {
        "c" => MessageBuilder::with_byteorder(bo)
            .call(format!("M{}", tag))
            .on(pad_path(format!("/o/p{}", tag)))
            .with_interface(format!("i.f{}", tag))
            .at("d.e.st")
            .build(),
        "s" => MessageBuilder::with_byteorder(bo)
            .signal(format!("s.i{}", tag), format!("S{}", tag), pad_path(format!("/s/{}", tag)))
            .build(),
        "r" => MarshalledMessage {
            typ: MessageType::Reply,
            dynheader: DynamicHeader {
                response_serial: NonZeroU32::new(1000 + serial.get()),
                destination: Some(":1.7".to_string()),
                ..Default::default()
            },
            flags: 0,
            body: MarshalledMessageBody::with_byteorder(bo),
        },
        _ => MarshalledMessage {
            typ: MessageType::Error,
            dynheader: DynamicHeader {
                response_serial: NonZeroU32::new(2000 + serial.get()),
                error_name: Some(format!("e.r.R{}", tag)),
                sender: Some(":1.9".to_string()),
                ..Default::default()
            },
            flags: 1,
            body: MarshalledMessageBody::with_byteorder(bo),
        },
    };
    let unreferenced = p.iter().skip(6).any(|x| *x == "u");
    if !unreferenced {
        for _ in 0..nfds {
            // the descriptor used to build the frame is irrelevant (the peer attaches its own); only the
            // UNIX_FDS header field and the indices in the body matter
            let fd = UnixFd::new(devnull());
            msg.body.push_param(fd).unwrap();
        }
    }
    if alen >= 0 {
        let v: Vec<u8> = (0..alen as usize).map(|i| (i * 7 + serial.get() as usize) as u8).collect();
        msg.body.push_param(&v[..]).unwrap();
    }
    if unreferenced {
        // descriptors attached to the message but not referenced by any `h` in the body (the body may even be
        // empty): UNIX_FDS counts the attached descriptors
        let fds: Vec<UnixFd> = (0..nfds).map(|_| UnixFd::new(devnull())).collect();
        let buf = msg.get_buf().to_vec();
        let sig = msg.get_sig().to_owned();
        msg.body = MarshalledMessageBody::from_parts(buf, 0, fds, sig, bo);
    }
    let mut buf = Vec::new();
    rustbus::wire::marshal::marshal(&msg, serial, &mut buf).unwrap();
    buf.extend_from_slice(msg.get_buf());
    format!("{}#{}", hex(&buf), canon(&msg, Some(serial)))
}

fn ident(fd: RawFd) -> (u64, u64) {
    let st = nix::sys::stat::fstat(fd).unwrap();
    (st.st_dev as u64, st.st_ino as u64)
}

fn err_name(e: &rustbus::connection::Error) -> String {
    use rustbus::connection::Error::*;
    match e {
        TimedOut => "T".to_string(),
        ConnectionClosed => "EConnectionClosed".to_string(),
        IoError(_) => "EIo".to_string(),
        UnmarshalError(u) => format!("EUnmarshal:{:?}", u).replace([' ', ','], "_"),
        other => format!("E{:?}", other).replace([' ', ','], "_"),
    }
}

fn send_with_fds(peer: &UnixStream, bytes: &[u8], fds: &[RawFd]) -> Result<usize, nix::errno::Errno> {
    let iov = [IoSlice::new(bytes)];
    if fds.is_empty() {
        sendmsg::<()>(peer.as_raw_fd(), &iov, &[], MsgFlags::empty(), None)
    } else {
        sendmsg::<()>(
            peer.as_raw_fd(),
            &iov,
            &[ControlMessage::ScmRights(fds)],
            MsgFlags::empty(),
            None,
        )
    }
}

fn run(stream: &[u8], nfds: &[usize], events: &str) -> String {
    // a failing handshake is a problem of the set-up (property C17), not of the receive path
    let (conn, peer) = match std::panic::catch_unwind(|| rbverif::conn::connect_pair(true)) {
        Ok(x) => x,
        Err(_) => return "SETUPFAIL connect_to_bus / auth handshake".to_string(),
    };
    let mut recv = conn.recv;
    let _send = conn.send;
    peer.set_nonblocking(true).unwrap();
    // room for a backlog of several MiB in the peer's send queue (root: SO_SNDBUFFORCE; else up to wmem_max)
    {
        use nix::sys::socket::{setsockopt, sockopt};
        let want = stream.len().max(1 << 20) * 3;
        if setsockopt(&peer, sockopt::SndBufForce, &want).is_err() {
            let _ = setsockopt(&peer, sockopt::SndBuf, &want);
        }
    }
    // one pipe per descriptor; the read end travels, the write end is closed at once
    let mut table: Vec<Vec<RawFd>> = Vec::new();
    let mut idents: Vec<((u64, u64), String)> = Vec::new();
    for (i, n) in nfds.iter().enumerate() {
        let mut v = Vec::new();
        for j in 0..*n {
            let (r, w) = nix::unistd::pipe().unwrap();
            use std::os::unix::io::IntoRawFd;
            let r = r.into_raw_fd();
            drop(w);
            idents.push((ident(r), format!("{}.{}", i, j)));
            v.push(r);
        }
        table.push(v);
    }
    let mut pos = 0usize;
    let mut out: Vec<String> = Vec::new();
    let mut failed: Option<String> = None;
    for ev in events.split(',') {
        if ev.is_empty() {
            continue;
        }
        match &ev[0..1] {
            "w" => {
                let (len, fi) = match ev[1..].split_once('f') {
                    Some((l, i)) => (l.parse::<usize>().unwrap(), Some(i.parse::<usize>().unwrap())),
                    None => (ev[1..].parse::<usize>().unwrap(), None),
                };
                let fds: &[RawFd] = match fi {
                    Some(i) => &table[i],
                    None => &[],
                };
                match send_with_fds(&peer, &stream[pos..pos + len], fds) {
                    Ok(n) if n == len => {}
                    Ok(n) => {
                        failed = Some(format!("SCHEDERR short write {} of {}", n, len));
                        break;
                    }
                    Err(e) => {
                        failed = Some(format!("SCHEDERR write failed {:?}", e));
                        break;
                    }
                }
                pos += len;
            }
            "g" | "t" | "T" | "i" | "z" | "Z" => {
                let tmo = match ev {
                    "g" => Timeout::Nonblock,
                    "t" => Timeout::Duration(std::time::Duration::from_millis(1)),
                    // a deadline that has passed when the call looks at the clock for the first time
                    "z" => Timeout::Duration(std::time::Duration::from_nanos(0)),
                    "Z" => Timeout::Duration(std::time::Duration::from_nanos(1)),
                    // only scheduled when a complete message is already queued: returns at once
                    "T" => Timeout::Duration(std::time::Duration::from_secs(5)),
                    _ => Timeout::Infinite,
                };
                let res = recv.get_next_message(tmo);
                match res {
                    Ok(msg) => {
                        let labels: Vec<String> = msg
                            .body
                            .get_fds()
                            .iter()
                            .map(|f| match f.get_raw_fd() {
                                Some(raw) => {
                                    let id = ident(raw);
                                    idents
                                        .iter()
                                        .find(|(k, _)| *k == id)
                                        .map(|(_, l)| l.clone())
                                        .unwrap_or_else(|| "?".to_string())
                                }
                                None => "taken".to_string(),
                            })
                            .collect();
                        out.push(format!("M{}~{}", canon(&msg, None), labels.join("+")));
                    }
                    Err(e) => out.push(err_name(&e)),
                }
            }
            "r" | "R" | "j" | "q" => match recv.read_once(match ev {
                "r" => Timeout::Nonblock,
                // R, j: only scheduled when a read can be made at once (bytes queued, or the buffer is complete)
                "R" => Timeout::Duration(std::time::Duration::from_secs(5)),
                "j" => Timeout::Infinite,
                // the shortest receive timeout the socket accepts
                _ => Timeout::Duration(std::time::Duration::from_nanos(1)),
            }) {
                Ok(()) => out.push("K".to_string()),
                Err(e) => out.push(err_name(&e)),
            },
            _ => {
                failed = Some(format!("SCHEDERR unknown event {}", ev));
                break;
            }
        }
    }
    for v in table {
        for fd in v {
            let _ = nix::unistd::close(fd);
        }
    }
    drop(recv);
    drop(peer);
    match failed {
        Some(f) => f,
        None => {
            if out.is_empty() {
                "-".to_string()
            } else {
                out.join(",")
            }
        }
    }
}

/// frame of a message without descriptors whose body is a sequence of byte arrays: spec = typ,bo,len.len...,serial,tag
/// (len = a number, or F<k>: the last array is as long as it takes to make the frame MAX_MESSAGE_LEN - k bytes).
/// The payload is generated here from the lengths and the serial; returns (frame, length of the body, canon_head)
fn giant_frame(spec: &str) -> (Vec<u8>, usize, String) {
    let p: Vec<&str> = spec.split(',').collect();
    let serial: u32 = p[3].parse().unwrap();
    let lens: Vec<&str> = if p[2] == "-" { vec![] } else { p[2].split('.').collect() };
    let build = |fill: usize| -> (Vec<u8>, usize, String) {
        // the message itself (header fields as in build_one, no descriptors, no byte array yet)
        let bo = if p[1] == "B" { ByteOrder::BigEndian } else { ByteOrder::LittleEndian };
        let tag = p[4];
        let mut msg = match p[0] {
            "c" => MessageBuilder::with_byteorder(bo)
                .call(format!("M{}", tag))
                .on(format!("/o/p{}", tag))
                .with_interface(format!("i.f{}", tag))
                .at("d.e.st")
                .build(),
            _ => MessageBuilder::with_byteorder(bo)
                .signal(format!("s.i{}", tag), format!("S{}", tag), format!("/s/{}", tag))
                .build(),
        };
        for (k, l) in lens.iter().enumerate() {
            let n: usize = if l.starts_with('F') { fill } else { l.parse().unwrap() };
            let mut v = vec![0u8; n];
            let mut x: u64 = 0x9e3779b97f4a7c15u64 ^ ((serial as u64) << 8) ^ k as u64;
            for c in v.chunks_mut(8) {
                x ^= x << 13;
                x ^= x >> 7;
                x ^= x << 17;
                let b = x.to_le_bytes();
                let m = c.len();
                c.copy_from_slice(&b[..m]);
            }
            msg.body.push_param(&v[..]).unwrap();
        }
        let mut buf = Vec::new();
        rustbus::wire::marshal::marshal(&msg, NonZeroU32::new(serial).unwrap(), &mut buf).unwrap();
        let bl = msg.get_buf().len();
        buf.extend_from_slice(msg.get_buf());
        (buf, bl, canon_head(&msg, NonZeroU32::new(serial)))
    };
    match lens.iter().find(|l| l.starts_with('F')) {
        None => build(0),
        Some(f) => {
            let k: usize = f[1..].parse().unwrap();
            // a byte array ends the body: every byte added to it adds one byte to the frame
            let probe = build(0).0.len();
            build(rustbus::wire::MAX_MESSAGE_LEN - k - probe)
        }
    }
}

/// giant <spec>|<spec>... <cuts> <chunk> <ops>: frames of up to MAX_MESSAGE_LEN bytes, built here from short
/// descriptors.  A peer THREAD writes the whole stream with blocking writes: cut at the given positions
/// (<i>s<k> = k bytes after the start of frame i, <i>e<k> = k bytes before its end; joined by '.', or '-') and
/// otherwise in pieces of <chunk> bytes.  The client makes the calls of <ops> (i = get_next_message(Infinite),
/// j = read_once(Infinite), then, after the peer thread has finished, g = get_next_message(Nonblock)).
///   -> sent=<canon_head>;<body length>|...  got=<token>,...   token = M<canon_head>;<body length>;<eq|ne> (body
///      bytes compared here with the body of the sent message of the same serial) | K | T | E<variant>; the calls
///      stop at the first error
fn giant(specs: &str, cuts: &str, chunk: usize, ops: &str) -> String {
    let frames: Vec<(Vec<u8>, usize, String)> = specs.split('|').map(giant_frame).collect();
    let (conn, mut peer) = match std::panic::catch_unwind(|| rbverif::conn::connect_pair(true)) {
        Ok(x) => x,
        Err(_) => return "SETUPFAIL connect_to_bus / auth handshake".to_string(),
    };
    let mut recv = conn.recv;
    let _send = conn.send;
    let mut starts = Vec::new();
    let mut total = 0usize;
    for f in &frames {
        starts.push(total);
        total += f.0.len();
    }
    let mut pts: Vec<usize> = Vec::new();
    if cuts != "-" {
        for c in cuts.split('.') {
            let (i, k, from_end) = match c.split_once('s') {
                Some((i, k)) => (i.parse::<usize>().unwrap(), k.parse::<usize>().unwrap(), false),
                None => {
                    let (i, k) = c.split_once('e').unwrap();
                    (i.parse::<usize>().unwrap(), k.parse::<usize>().unwrap(), true)
                }
            };
            let n = frames[i].0.len();
            if k <= n {
                pts.push(if from_end { starts[i] + n - k } else { starts[i] + k });
            }
        }
    }
    let mut p = 0;
    while p < total {
        pts.push(p);
        p += chunk.max(1);
    }
    pts.push(total);
    pts.sort_unstable();
    pts.dedup();
    let sent: Vec<String> = frames.iter().map(|f| format!("{};{}", f.2, f.1)).collect();
    let stream: std::sync::Arc<Vec<Vec<u8>>> = std::sync::Arc::new(frames.into_iter().map(|f| f.0).collect());
    let bodies: Vec<(u32, usize, usize)> = sent
        .iter()
        .enumerate()
        .map(|(i, s)| {
            let f: Vec<&str> = s.split(';').collect();
            (f[2].parse().unwrap(), i, f[13].parse().unwrap())
        })
        .collect();
    let st2 = stream.clone();
    let writer = std::thread::spawn(move || {
        use std::io::Write;
        let flat_at = |a: usize, b: usize, peer: &mut UnixStream| -> std::io::Result<()> {
            // bytes a..b of the concatenation of the frames
            let mut off = 0;
            for f in st2.iter() {
                let lo = a.max(off);
                let hi = b.min(off + f.len());
                if lo < hi {
                    peer.write_all(&f[lo - off..hi - off])?;
                }
                off += f.len();
            }
            Ok(())
        };
        for w in pts.windows(2) {
            // a piece never spans two frames unless no cut was asked for at the boundary: one write per frame part
            if flat_at(w[0], w[1], &mut peer).is_err() {
                break;
            }
        }
        peer
    });
    let mut writer = Some(writer);
    let mut keep_peer = None;
    let mut out: Vec<String> = Vec::new();
    for op in ops.split(',') {
        let res = match op {
            "i" => recv.get_next_message(Timeout::Infinite).map(Some),
            "j" => recv.read_once(Timeout::Infinite).map(|_| None),
            _ => {
                // everything has been written before this call is made
                if let Some(w) = writer.take() {
                    keep_peer = w.join().ok();
                }
                recv.get_next_message(Timeout::Nonblock).map(Some)
            }
        };
        match res {
            Ok(None) => out.push("K".to_string()),
            Ok(Some(msg)) => {
                let ser = msg.dynheader.serial.map(|s| s.get()).unwrap_or(0);
                let eq = match bodies.iter().find(|b| b.0 == ser) {
                    Some(&(_, i, bl)) => {
                        let f = &stream[i];
                        if msg.get_buf() == &f[f.len() - bl..] {
                            "eq"
                        } else {
                            "ne"
                        }
                    }
                    None => "ne",
                };
                out.push(format!("M{};{};{}", canon_head(&msg, None), msg.get_buf().len(), eq));
            }
            Err(e) => {
                out.push(err_name(&e));
                if !matches!(e, rustbus::connection::Error::TimedOut) {
                    break;
                }
            }
        }
    }
    // closing the client's end makes a writer that is still at work fail and finish
    drop(recv);
    drop(_send);
    if let Some(w) = writer.take() {
        let _ = w.join();
    }
    drop(keep_peer);
    format!("sent={} got={}", sent.join("|"), if out.is_empty() { "-".to_string() } else { out.join(",") })
}

fn kprobe(segs: &str, reqs: &str) -> String {
    let (a, b) = UnixStream::pair().unwrap();
    b.set_nonblocking(true).unwrap();
    let mut keep: Vec<RawFd> = Vec::new();
    for s in segs.split(';') {
        let (h, n) = s.split_once(':').unwrap();
        let bytes = unhex(h);
        let n: usize = n.parse().unwrap();
        let fds: Vec<RawFd> = (0..n).map(|_| devnull()).collect();
        send_with_fds(&a, &bytes, &fds).unwrap();
        keep.extend(fds);
    }
    let mut out = Vec::new();
    let mut cbuf = nix::cmsg_space!([RawFd; 253]);
    for r in reqs.split('.') {
        let n: usize = r.parse().unwrap();
        let mut buf = vec![0u8; n];
        let mut iov = [IoSliceMut::new(&mut buf)];
        cbuf.clear();
        match recvmsg::<()>(b.as_raw_fd(), &mut iov, Some(&mut cbuf), MsgFlags::empty()) {
            Ok(m) => {
                let mut nf = 0;
                for c in m.cmsgs() {
                    if let ControlMessageOwned::ScmRights(fds) = c {
                        nf += fds.len();
                        for fd in fds {
                            let _ = nix::unistd::close(fd);
                        }
                    }
                }
                out.push(format!("{}:{}", m.bytes, nf));
            }
            Err(nix::errno::Errno::EAGAIN) => out.push("A".to_string()),
            Err(e) => out.push(format!("ERR{:?}", e)),
        }
    }
    for fd in keep {
        let _ = nix::unistd::close(fd);
    }
    out.join(",")
}

fn main() {
    let case_ms: u64 = std::env::var("C09_CASE_MS").ok().and_then(|v| v.parse().ok()).unwrap_or(3000);
    let mut hangs = 0;
    rbverif::line_loop(move |line| {
        let parts: Vec<&str> = line.split(' ').collect();
        match parts[0] {
            "build" => parts[1].split('|').map(build_one).collect::<Vec<_>>().join("|"),
            "run" => {
                if hangs >= 3 {
                    return "SKIPPED".to_string();
                }
                let stream = unhex(parts[1]);
                let nfds: Vec<usize> = if parts[2] == "-" {
                    vec![]
                } else {
                    parts[2].split('.').map(|x| x.parse().unwrap()).collect()
                };
                let events = parts.get(3).copied().unwrap_or("").to_string();
                // the case runs in a thread of its own; a receive call that never returns costs one deadline, not the run
                let (tx, rx) = std::sync::mpsc::channel();
                std::thread::spawn(move || {
                    let r = std::panic::catch_unwind(|| run(&stream, &nfds, &events));
                    let _ = tx.send(r.unwrap_or_else(|_| "PANIC in the receive path".to_string()));
                });
                match rx.recv_timeout(std::time::Duration::from_millis(case_ms + (parts[1].len() / 2000) as u64)) {
                    Ok(r) => r,
                    Err(_) => {
                        hangs += 1;
                        "HANG".to_string()
                    }
                }
            }
            "giant" => {
                let (a, b, c, d) = (parts[1].to_string(), parts[2].to_string(), parts[3].parse::<usize>().unwrap(), parts[4].to_string());
                let (tx, rx) = std::sync::mpsc::channel();
                std::thread::spawn(move || {
                    let r = std::panic::catch_unwind(|| giant(&a, &b, c, &d));
                    let _ = tx.send(r.unwrap_or_else(|_| "PANIC in the receive path".to_string()));
                });
                // a hang detector only: 128 MiB through a socket take well under a second
                let ms: u64 = std::env::var("C09_GIANT_MS").ok().and_then(|v| v.parse().ok()).unwrap_or(240000);
                match rx.recv_timeout(std::time::Duration::from_millis(ms)) {
                    Ok(r) => r,
                    Err(_) => "HANG".to_string(),
                }
            }
            "kprobe" => kprobe(parts[1], parts[2]),
            _ => "?".to_string(),
        }
    });
    rbverif::conn::cleanup_scratch();
}
