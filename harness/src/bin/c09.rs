//! C09 harness: the real RecvConn (get_next_message / read_once) against a peer that writes a byte
//! stream in chosen chunks with descriptors attached (sendmsg + SCM_RIGHTS) to chosen writes.
//!
//! stdin lines -> one stdout line each:
//!   build <spec>|<spec>...          spec = typ,bo,arraylen,nfds,serial,tag[,u]   (typ c|s|r|e ; bo l|B ;
//!                                   arraylen -1 = no byte array in the body ; u = the descriptors are attached
//!                                   but not referenced by the body, which may then be empty)
//!        -> <framehex>#<canon>|...  messages built with MessageBuilder and marshalled by the crate
//!   run <streamhex> <n0.n1...> <events>   stream = all frames concatenated; ni = descriptor count of
//!                                   message i; events (comma separated):
//!        w<len>        peer writes the next <len> bytes of the stream
//!        w<len>f<i>    ... with the descriptors of message i attached to this sendmsg
//!        g | t | r     client: get_next_message(Nonblock) | get_next_message(Duration(1ms)) |
//!                      read_once(Nonblock)
//!        T | i         client: get_next_message(Duration(5 s)) | get_next_message(Infinite); only scheduled
//!                      when a complete message is already queued
//!        z | Z         get_next_message(Duration(0)) | get_next_message(Duration(1 ns)): the deadline has passed
//!                      at the first look at the clock (time-out unless the buffer already holds a whole message)
//!        R | j | q     read_once(Duration(5 s)) | read_once(Infinite) (only when a read can be made at once) |
//!                      read_once(Duration(1 ns))
//!   every `run` case has a deadline (C09_CASE_MS, default 3000 ms; a hang detector only: no operation of a
//!   schedule waits for anything that is not already there): on expiry the result is HANG <results so far are
//!   lost> and the next case runs on a fresh connection; after 3 such cases the rest of the input is SKIPPED
//!        -> one result per client op (comma separated):  M<canon>~<fd labels> | T | K | E<variant>
//!           fd label = <msg index>.<position> found by fstat (dev, ino); ? when unknown
//!   kprobe <hex:nfds;hex:nfds...> <req.req...>    raw socketpair: write the segments, then one
//!        nonblocking recvmsg per request size -> <bytes>:<nfds> or A (EAGAIN), comma separated
use nix::sys::socket::{recvmsg, sendmsg, ControlMessage, ControlMessageOwned, MsgFlags};
use rbverif::{hex, unhex};
use rustbus::connection::Timeout;
use rustbus::message_builder::{DynamicHeader, MarshalledMessage, MarshalledMessageBody};
use rustbus::wire::UnixFd;
use rustbus::{ByteOrder, MessageBuilder, MessageType};
use std::io::{IoSlice, IoSliceMut};
use std::num::NonZeroU32;
use std::os::unix::io::{AsRawFd, RawFd};
use std::os::unix::net::UnixStream;

fn opt(s: &Option<String>) -> String {
    match s {
        Some(x) => hex(x.as_bytes()),
        None => "_".to_string(),
    }
}

pub fn canon(msg: &MarshalledMessage, serial: Option<NonZeroU32>) -> String {
    let d = &msg.dynheader;
    let typ = match msg.typ {
        MessageType::Call => "c",
        MessageType::Reply => "r",
        MessageType::Error => "e",
        MessageType::Signal => "s",
        MessageType::Invalid => "i",
    };
    let bo = match msg.body.byteorder() {
        ByteOrder::LittleEndian => "l",
        ByteOrder::BigEndian => "B",
    };
    let ser = serial.or(d.serial).map(|s| s.get()).unwrap_or(0);
    // UNIX_FDS is written by the marshaller from the body of a message that is being built (serial given);
    // for a received message it is what the header said
    let nf = if serial.is_some() {
        msg.body.get_fds().len()
    } else {
        d.num_fds.unwrap_or(0) as usize
    };
    format!(
        "{};{};{};{};{};{};{};{};{};{};{};{};{};{}",
        typ,
        msg.flags,
        ser,
        bo,
        opt(&d.interface),
        opt(&d.member),
        opt(&d.object),
        opt(&d.destination),
        opt(&d.sender),
        hex(msg.get_sig().as_bytes()),
        opt(&d.error_name),
        d.response_serial.map(|s| s.get()).unwrap_or(0),
        nf,
        hex(msg.get_buf())
    )
}

fn devnull() -> RawFd {
    use std::os::unix::io::IntoRawFd;
    std::fs::File::open("/dev/null").unwrap().into_raw_fd()
}

fn build_one(spec: &str) -> String {
    let p: Vec<&str> = spec.split(',').collect();
    let bo = if p[1] == "B" {
        ByteOrder::BigEndian
    } else {
        ByteOrder::LittleEndian
    };
    let alen: i64 = p[2].parse().unwrap();
    let nfds: usize = p[3].parse().unwrap();
    let serial = NonZeroU32::new(p[4].parse().unwrap()).unwrap();
    let tag = p[5];
    let mut msg = match p[0] {
        "c" => MessageBuilder::with_byteorder(bo)
            .call(format!("M{}", tag))
            .on(format!("/o/p{}", tag))
            .with_interface(format!("i.f{}", tag))
            .at("d.e.st")
            .build(),
        "s" => MessageBuilder::with_byteorder(bo)
            .signal(format!("s.i{}", tag), format!("S{}", tag), format!("/s/{}", tag))
            .build(),
        "r" => MarshalledMessage {
            typ: MessageType::Reply,
            dynheader: DynamicHeader {
                response_serial: NonZeroU32::new(1000 + serial.get()),
                destination: Some(":1.7".to_string()),
                ..Default::default()
            },
            flags: 0,
            body: MarshalledMessageBody::with_byteorder(bo),
        },
        _ => MarshalledMessage {
            typ: MessageType::Error,
            dynheader: DynamicHeader {
                response_serial: NonZeroU32::new(2000 + serial.get()),
                error_name: Some(format!("e.r.R{}", tag)),
                sender: Some(":1.9".to_string()),
                ..Default::default()
            },
            flags: 1,
            body: MarshalledMessageBody::with_byteorder(bo),
        },
    };
    let unreferenced = p.get(6).copied() == Some("u");
    if !unreferenced {
        for _ in 0..nfds {
            // the descriptor used to build the frame is irrelevant (the peer attaches its own); only the
            // UNIX_FDS header field and the indices in the body matter
            let fd = UnixFd::new(devnull());
            msg.body.push_param(fd).unwrap();
        }
    }
    if alen >= 0 {
        let v: Vec<u8> = (0..alen as usize).map(|i| (i * 7 + serial.get() as usize) as u8).collect();
        msg.body.push_param(&v[..]).unwrap();
    }
    if unreferenced {
        // descriptors attached to the message but not referenced by any `h` in the body (the body may even be
        // empty): UNIX_FDS counts the attached descriptors
        let fds: Vec<UnixFd> = (0..nfds).map(|_| UnixFd::new(devnull())).collect();
        let buf = msg.get_buf().to_vec();
        let sig = msg.get_sig().to_owned();
        msg.body = MarshalledMessageBody::from_parts(buf, 0, fds, sig, bo);
    }
    let mut buf = Vec::new();
    rustbus::wire::marshal::marshal(&msg, serial, &mut buf).unwrap();
    buf.extend_from_slice(msg.get_buf());
    format!("{}#{}", hex(&buf), canon(&msg, Some(serial)))
}

fn ident(fd: RawFd) -> (u64, u64) {
    let st = nix::sys::stat::fstat(fd).unwrap();
    (st.st_dev as u64, st.st_ino as u64)
}

fn err_name(e: &rustbus::connection::Error) -> String {
    use rustbus::connection::Error::*;
    match e {
        TimedOut => "T".to_string(),
        ConnectionClosed => "EConnectionClosed".to_string(),
        IoError(_) => "EIo".to_string(),
        UnmarshalError(u) => format!("EUnmarshal:{:?}", u).replace([' ', ','], "_"),
        other => format!("E{:?}", other).replace([' ', ','], "_"),
    }
}

fn send_with_fds(peer: &UnixStream, bytes: &[u8], fds: &[RawFd]) -> Result<usize, nix::errno::Errno> {
    let iov = [IoSlice::new(bytes)];
    if fds.is_empty() {
        sendmsg::<()>(peer.as_raw_fd(), &iov, &[], MsgFlags::empty(), None)
    } else {
        sendmsg::<()>(
            peer.as_raw_fd(),
            &iov,
            &[ControlMessage::ScmRights(fds)],
            MsgFlags::empty(),
            None,
        )
    }
}

fn run(stream: &[u8], nfds: &[usize], events: &str) -> String {
    // a failing handshake is a problem of the set-up (property C17), not of the receive path
    let (conn, peer) = match std::panic::catch_unwind(|| rbverif::conn::connect_pair(true)) {
        Ok(x) => x,
        Err(_) => return "SETUPFAIL connect_to_bus / auth handshake".to_string(),
    };
    let mut recv = conn.recv;
    let _send = conn.send;
    peer.set_nonblocking(true).unwrap();
    // room for a backlog of several MiB in the peer's send queue (root: SO_SNDBUFFORCE; else up to wmem_max)
    {
        use nix::sys::socket::{setsockopt, sockopt};
        let want = stream.len().max(1 << 20) * 3;
        if setsockopt(&peer, sockopt::SndBufForce, &want).is_err() {
            let _ = setsockopt(&peer, sockopt::SndBuf, &want);
        }
    }
    // one pipe per descriptor; the read end travels, the write end is closed at once
    let mut table: Vec<Vec<RawFd>> = Vec::new();
    let mut idents: Vec<((u64, u64), String)> = Vec::new();
    for (i, n) in nfds.iter().enumerate() {
        let mut v = Vec::new();
        for j in 0..*n {
            let (r, w) = nix::unistd::pipe().unwrap();
            use std::os::unix::io::IntoRawFd;
            let r = r.into_raw_fd();
            drop(w);
            idents.push((ident(r), format!("{}.{}", i, j)));
            v.push(r);
        }
        table.push(v);
    }
    let mut pos = 0usize;
    let mut out: Vec<String> = Vec::new();
    let mut failed: Option<String> = None;
    for ev in events.split(',') {
        if ev.is_empty() {
            continue;
        }
        match &ev[0..1] {
            "w" => {
                let (len, fi) = match ev[1..].split_once('f') {
                    Some((l, i)) => (l.parse::<usize>().unwrap(), Some(i.parse::<usize>().unwrap())),
                    None => (ev[1..].parse::<usize>().unwrap(), None),
                };
                let fds: &[RawFd] = match fi {
                    Some(i) => &table[i],
                    None => &[],
                };
                match send_with_fds(&peer, &stream[pos..pos + len], fds) {
                    Ok(n) if n == len => {}
                    Ok(n) => {
                        failed = Some(format!("SCHEDERR short write {} of {}", n, len));
                        break;
                    }
                    Err(e) => {
                        failed = Some(format!("SCHEDERR write failed {:?}", e));
                        break;
                    }
                }
                pos += len;
            }
            "g" | "t" | "T" | "i" | "z" | "Z" => {
                let tmo = match ev {
                    "g" => Timeout::Nonblock,
                    "t" => Timeout::Duration(std::time::Duration::from_millis(1)),
                    // a deadline that has passed when the call looks at the clock for the first time
                    "z" => Timeout::Duration(std::time::Duration::from_nanos(0)),
                    "Z" => Timeout::Duration(std::time::Duration::from_nanos(1)),
                    // only scheduled when a complete message is already queued: returns at once
                    "T" => Timeout::Duration(std::time::Duration::from_secs(5)),
                    _ => Timeout::Infinite,
                };
                let res = recv.get_next_message(tmo);
                match res {
                    Ok(msg) => {
                        let labels: Vec<String> = msg
                            .body
                            .get_fds()
                            .iter()
                            .map(|f| match f.get_raw_fd() {
                                Some(raw) => {
                                    let id = ident(raw);
                                    idents
                                        .iter()
                                        .find(|(k, _)| *k == id)
                                        .map(|(_, l)| l.clone())
                                        .unwrap_or_else(|| "?".to_string())
                                }
                                None => "taken".to_string(),
                            })
                            .collect();
                        out.push(format!("M{}~{}", canon(&msg, None), labels.join("+")));
                    }
                    Err(e) => out.push(err_name(&e)),
                }
            }
            "r" | "R" | "j" | "q" => match recv.read_once(match ev {
                "r" => Timeout::Nonblock,
                // R, j: only scheduled when a read can be made at once (bytes queued, or the buffer is complete)
                "R" => Timeout::Duration(std::time::Duration::from_secs(5)),
                "j" => Timeout::Infinite,
                // the shortest receive timeout the socket accepts
                _ => Timeout::Duration(std::time::Duration::from_nanos(1)),
            }) {
                Ok(()) => out.push("K".to_string()),
                Err(e) => out.push(err_name(&e)),
            },
            _ => {
                failed = Some(format!("SCHEDERR unknown event {}", ev));
                break;
            }
        }
    }
    for v in table {
        for fd in v {
            let _ = nix::unistd::close(fd);
        }
    }
    drop(recv);
    drop(peer);
    match failed {
        Some(f) => f,
        None => {
            if out.is_empty() {
                "-".to_string()
            } else {
                out.join(",")
            }
        }
    }
}

fn kprobe(segs: &str, reqs: &str) -> String {
    let (a, b) = UnixStream::pair().unwrap();
    b.set_nonblocking(true).unwrap();
    let mut keep: Vec<RawFd> = Vec::new();
    for s in segs.split(';') {
        let (h, n) = s.split_once(':').unwrap();
        let bytes = unhex(h);
        let n: usize = n.parse().unwrap();
        let fds: Vec<RawFd> = (0..n).map(|_| devnull()).collect();
        send_with_fds(&a, &bytes, &fds).unwrap();
        keep.extend(fds);
    }
    let mut out = Vec::new();
    let mut cbuf = nix::cmsg_space!([RawFd; 253]);
    for r in reqs.split('.') {
        let n: usize = r.parse().unwrap();
        let mut buf = vec![0u8; n];
        let mut iov = [IoSliceMut::new(&mut buf)];
        cbuf.clear();
        match recvmsg::<()>(b.as_raw_fd(), &mut iov, Some(&mut cbuf), MsgFlags::empty()) {
            Ok(m) => {
                let mut nf = 0;
                for c in m.cmsgs() {
                    if let ControlMessageOwned::ScmRights(fds) = c {
                        nf += fds.len();
                        for fd in fds {
                            let _ = nix::unistd::close(fd);
                        }
                    }
                }
                out.push(format!("{}:{}", m.bytes, nf));
            }
            Err(nix::errno::Errno::EAGAIN) => out.push("A".to_string()),
            Err(e) => out.push(format!("ERR{:?}", e)),
        }
    }
    for fd in keep {
        let _ = nix::unistd::close(fd);
    }
    out.join(",")
}

fn main() {
    let case_ms: u64 = std::env::var("C09_CASE_MS").ok().and_then(|v| v.parse().ok()).unwrap_or(3000);
    let mut hangs = 0;
    rbverif::line_loop(move |line| {
        let parts: Vec<&str> = line.split(' ').collect();
        match parts[0] {
            "build" => parts[1].split('|').map(build_one).collect::<Vec<_>>().join("|"),
            "run" => {
                if hangs >= 3 {
                    return "SKIPPED".to_string();
                }
                let stream = unhex(parts[1]);
                let nfds: Vec<usize> = if parts[2] == "-" {
                    vec![]
                } else {
                    parts[2].split('.').map(|x| x.parse().unwrap()).collect()
                };
                let events = parts.get(3).copied().unwrap_or("").to_string();
                // the case runs in a thread of its own; a receive call that never returns costs one deadline, not the run
                let (tx, rx) = std::sync::mpsc::channel();
                std::thread::spawn(move || {
                    let r = std::panic::catch_unwind(|| run(&stream, &nfds, &events));
                    let _ = tx.send(r.unwrap_or_else(|_| "PANIC in the receive path".to_string()));
                });
                match rx.recv_timeout(std::time::Duration::from_millis(case_ms + (parts[1].len() / 2000) as u64)) {
                    Ok(r) => r,
                    Err(_) => {
                        hangs += 1;
                        "HANG".to_string()
                    }
                }
            }
            "kprobe" => kprobe(parts[1], parts[2]),
            _ => "?".to_string(),
        }
    });
    rbverif::conn::cleanup_scratch();
}
