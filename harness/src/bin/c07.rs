//! C07 harness: the real parse_description / validate_signature / Type::to_str / SignatureIter.
//! Same line protocol and output format as ocaml/c07/driver.ml.
use rbverif::{hex, unhex};
use rustbus::params::validation::validate_signature;
use rustbus::signature::{SignatureIter, Type};
use rustbus::wire::SignatureWrapper;
use std::convert::TryFrom;
use std::io::{BufRead, Write};

fn st<T, E>(r: &std::thread::Result<Result<T, E>>) -> &'static str {
    match r {
        Ok(Ok(_)) => "ok",
        Ok(Err(_)) => "err",
        Err(_) => "panic",
    }
}

fn eval(bytes: &[u8]) -> (bool, String) {
    let s = match std::str::from_utf8(bytes) {
        Ok(s) => s,
        Err(_) => return (true, format!("{} NOTUTF8", hex(bytes))),
    };
    let p = std::panic::catch_unwind(|| Type::parse_description(s));
    let v = std::panic::catch_unwind(|| validate_signature(s));
    let r = match &p {
        Ok(Ok(tys)) => {
            let mut back = String::new();
            for t in tys {
                t.to_str(&mut back);
            }
            hex(back.as_bytes())
        }
        _ => "-".to_string(),
    };
    let sp = match &v {
        Ok(Ok(())) => {
            match std::panic::catch_unwind(|| {
                SignatureIter::new(s).map(|x| hex(x.as_bytes())).collect::<Vec<_>>()
            }) {
                Ok(parts) => format!("ok:{}", parts.join(";")),
                Err(_) => "panic".to_string(),
            }
        }
        _ => "-".to_string(),
    };
    // the public constructors of the signature wrapper: all three must give the validator's verdict
    let w1 = std::panic::catch_unwind(|| SignatureWrapper::new(s).map(|_| ()));
    let w2 = std::panic::catch_unwind(|| SignatureWrapper::<&str>::try_from(s).map(|_| ()));
    let w3 = std::panic::catch_unwind(|| SignatureWrapper::<String>::try_from(s.to_string()).map(|_| ()));
    let w = if st(&w1) == st(&w2) && st(&w2) == st(&w3) { st(&w1) } else { "mixed" };
    // SignatureIter::new_at_idx at every top-level boundary (and past the end) yields the remaining types
    let x = match &v {
        Ok(Ok(())) => match std::panic::catch_unwind(|| {
            let parts: Vec<&str> = SignatureIter::new(s).collect();
            let mut off = 0usize;
            for k in 0..=parts.len() {
                let rest: Vec<&str> = SignatureIter::new_at_idx(s, off).collect();
                if rest != parts[k..] {
                    return Some(off);
                }
                if k < parts.len() {
                    off += parts[k].len();
                }
            }
            if SignatureIter::new_at_idx(s, s.len() + 3).next().is_some() {
                return Some(s.len() + 3);
            }
            None
        }) {
            Ok(None) => "ok".to_string(),
            Ok(Some(off)) => format!("bad@{}", off),
            Err(_) => "panic".to_string(),
        },
        _ => "-".to_string(),
    };
    let acc = matches!(p, Ok(Ok(_))) || matches!(v, Ok(Ok(_)));
    (
        acc,
        format!("{} P:{} V:{} R:{} S:{} W:{} X:{}", hex(bytes), st(&p), st(&v), r, sp, w, x),
    )
}

fn main() {
    std::panic::set_hook(Box::new(|_| {}));
    let stdin = std::io::stdin();
    let stdout = std::io::stdout();
    let mut out = std::io::BufWriter::new(stdout.lock());
    for line in stdin.lock().lines() {
        let line = line.unwrap();
        let parts: Vec<&str> = line.split(' ').collect();
        match parts.as_slice() {
            ["s", h] => {
                let (_, o) = eval(&unhex(h));
                writeln!(out, "{}", o).unwrap();
            }
            ["enum", ah, len, first] => {
                let alpha = unhex(ah);
                let k = alpha.len();
                let len: usize = len.parse().unwrap();
                let first: i64 = first.parse().unwrap();
                let mut idx = vec![0usize; len];
                if len > 0 && first >= 0 {
                    idx[0] = first as usize;
                }
                let lo = if first >= 0 { 1 } else { 0 };
                let mut total = 0u64;
                let mut nontrivial = 0u64;
                loop {
                    let bytes: Vec<u8> = idx.iter().map(|&i| alpha[i]).collect();
                    total += 1;
                    if bytes.iter().any(|b| b"()a{}".contains(b)) {
                        nontrivial += 1;
                    }
                    let (acc, o) = eval(&bytes);
                    if acc {
                        writeln!(out, "{}", o).unwrap();
                    }
                    let mut j = len as i64 - 1;
                    let mut carry = true;
                    while carry && j >= lo {
                        idx[j as usize] += 1;
                        if idx[j as usize] < k {
                            carry = false;
                        } else {
                            idx[j as usize] = 0;
                            j -= 1;
                        }
                    }
                    if carry {
                        break;
                    }
                }
                writeln!(out, "total {} nontrivial {}", total, nontrivial).unwrap();
            }
            _ => writeln!(out, "?").unwrap(),
        }
    }
    out.flush().unwrap();
}
