//! A real `DuplexConn` without a bus: connect_to_bus against an in-process scripted server.

use rustbus::connection::ll_conn::DuplexConn;
use std::io::{Read, Write};
use std::os::unix::net::{UnixListener, UnixStream};
use std::sync::atomic::{AtomicUsize, Ordering};

static COUNTER: AtomicUsize = AtomicUsize::new(0);

pub fn scratch_dir() -> std::path::PathBuf {
    let base = std::env::var("VERIF_SCRATCH").unwrap_or_else(|_| "/verif/scratch".to_string());
    let d = std::path::PathBuf::from(base).join(format!("sock_{}", std::process::id()));
    std::fs::create_dir_all(&d).unwrap();
    d
}

fn read_line(s: &mut UnixStream) -> Vec<u8> {
    let mut line = Vec::new();
    let mut b = [0u8; 1];
    loop {
        let n = s.read(&mut b).unwrap();
        if n == 0 {
            return line;
        }
        line.push(b[0]);
        if line.ends_with(b"\r\n") {
            return line;
        }
    }
}

/// Returns (client connection, the server's end of the socket).
pub fn connect_pair(with_fd: bool) -> (DuplexConn, UnixStream) {
    let dir = scratch_dir();
    let n = COUNTER.fetch_add(1, Ordering::SeqCst);
    let path = dir.join(format!("s{}", n));
    let _ = std::fs::remove_file(&path);
    let listener = UnixListener::bind(&path).unwrap();
    let srv = std::thread::spawn(move || {
        let (mut s, _) = listener.accept().unwrap();
        let mut z = [0u8; 1];
        s.read_exact(&mut z).unwrap();
        let _auth = read_line(&mut s);
        s.write_all(b"OK 1234deadbeef\r\n").unwrap();
        if with_fd {
            let _neg = read_line(&mut s);
            s.write_all(b"AGREE_UNIX_FD\r\n").unwrap();
        }
        let _begin = read_line(&mut s);
        s
    });
    let addr = nix::sys::socket::UnixAddr::new(&path).unwrap();
    let conn = DuplexConn::connect_to_bus(addr, with_fd).unwrap();
    let peer = srv.join().unwrap();
    let _ = std::fs::remove_file(&path);
    (conn, peer)
}

pub fn cleanup_scratch() {
    let _ = std::fs::remove_dir_all(scratch_dir());
}
