//! Shared helpers for the per-property harness binaries (src/bin/*.rs).
//! Line protocol convention: one case per stdin line, one canonical result per stdout line.

// the type catalogue (hundreds of monomorphised Rust types) and the wire helpers built on it take minutes to compile:
// only the binaries that use them ask for the feature (lib/vlib.py harness_build adds it for them)
#[cfg(feature = "catalogue")]
pub mod catalogue;
pub mod conn;
#[cfg(feature = "catalogue")]
pub mod wirelib;

use std::io::{BufRead, Write};

pub fn hex(bytes: &[u8]) -> String {
    let mut s = String::with_capacity(bytes.len() * 2);
    for b in bytes {
        s.push_str(&format!("{:02x}", b));
    }
    if s.is_empty() {
        s.push('-');
    }
    s
}

pub fn unhex(s: &str) -> Vec<u8> {
    if s == "-" {
        return Vec::new();
    }
    let b = s.as_bytes();
    let mut out = Vec::with_capacity(b.len() / 2);
    let mut i = 0;
    while i + 1 < b.len() {
        let h = (b[i] as char).to_digit(16).unwrap() as u8;
        let l = (b[i + 1] as char).to_digit(16).unwrap() as u8;
        out.push(h * 16 + l);
        i += 2;
    }
    out
}

/// Run `f` on every stdin line, print its result on one stdout line. A panic inside `f` is
/// reported as the line `PANIC <message>` (aborts and stack overflows kill the process: the
/// driver sees a short output and re-runs the remaining lines one per process).
pub fn line_loop<F: FnMut(&str) -> String + std::panic::UnwindSafe>(mut f: F) {
    std::panic::set_hook(Box::new(|_| {}));
    let stdin = std::io::stdin();
    let stdout = std::io::stdout();
    let mut out = std::io::BufWriter::new(stdout.lock());
    for line in stdin.lock().lines() {
        let line = line.unwrap();
        let r = std::panic::catch_unwind(std::panic::AssertUnwindSafe(|| f(&line)));
        match r {
            Ok(s) => writeln!(out, "{}", s).unwrap(),
            Err(e) => {
                let msg = if let Some(s) = e.downcast_ref::<&str>() {
                    s.to_string()
                } else if let Some(s) = e.downcast_ref::<String>() {
                    s.clone()
                } else {
                    "?".to_string()
                };
                writeln!(out, "PANIC {}", msg.replace('\n', " ")).unwrap()
            }
        }
        out.flush().unwrap();
    }
}
