From Coq Require Import List Arith NArith Lia Bool.
Import ListNotations.
Open Scope N_scope.
Arguments N.add : simpl never. Arguments N.sub : simpl never. Arguments N.modulo : simpl never. Arguments N.div : simpl never.
Arguments N.ltb : simpl never. Arguments N.leb : simpl never. Arguments N.eqb : simpl never.
Require Import P.

(* decoder model: absolute offsets kept (the repaired sub_context); buffer clipped to the container end *)
Fixpoint from_le (bs: list N) : N := match bs with [] => 0 | b :: bs => b + 256 * from_le bs end.
Definition dec_num (be: bool) (bs: list N) : N := if be then from_le (rev bs) else from_le bs.
Definition slice (buf: list N) (off n: N) : list N := firstn (N.to_nat n) (skipn (N.to_nat off) buf).
Definition all_zero (bs: list N) : bool := forallb (N.eqb 0) bs.
(* align_offset + Cursor::align_to *)
Definition align_to (a: N) (buf: list N) (off: N) : option N :=
  let p := padlen a off in
  if (len buf <? off + p) then None else if all_zero (slice buf off p) then Some (off + p) else None.
Definition read_num (be: bool) (k: N) (buf: list N) (off: N) : option (N * N) :=
  match align_to k buf off with None => None | Some off =>
    if (len buf <? off + k) then None else Some (dec_num be (slice buf off k), off + k) end.

Fixpoint arr_loop (decE: list N -> N -> option (val * N)) (t': ty) (sub: list N) (endp: N)
                  (fuel: nat) (o: N) (acc: list val) {struct fuel} : option (val * N) :=
  if (endp <=? o) then Some (VArr t' (rev acc), o) else
  match fuel with O => None | S fuel =>
    match align_to (align t') sub o with None => None | Some o' =>
    match decE sub o' with None => None | Some (v, o'') => arr_loop decE t' sub endp fuel o'' (v :: acc) end end end.
Fixpoint struct_go (decs: list (list N -> N -> option (val * N))) (buf: list N) (o: N) (acc: list val) : option (val * N) :=
  match decs with [] => Some (VStruct (rev acc), o)
  | d :: ds => match d buf o with None => None | Some (v, o') => struct_go ds buf o' (v :: acc) end end.
Section Dec.
Variable be: bool.
Fixpoint dec (t: ty) (buf: list N) (off: N) {struct t} : option (val * N) :=
  match t with
  | TU8 => if (len buf <? off + 1) then None else Some (VU8 (nth (N.to_nat off) buf 0), off + 1)
  | TU32 => match read_num be 4 buf off with Some (n, o) => Some (VU32 n, o) | None => None end
  | TU64 => match read_num be 8 buf off with Some (n, o) => Some (VU64 n, o) | None => None end
  | TArr t' =>
      match read_num be 4 buf off with None => None | Some (n, o1) =>
      match align_to (align t') buf o1 with None => None | Some o2 =>
      if (len buf <? o2 + n) then None else
      arr_loop (dec t') t' (firstn (N.to_nat (o2 + n)) buf) (o2 + n) (S (N.to_nat n)) o2 []
      end end
  | TStruct ts =>
      match align_to 8 buf off with None => None | Some o => struct_go (map dec ts) buf o [] end
  end.
End Dec.

Definition sample := VStruct [VU8 7; VArr (TArr TU64) [VArr TU64 [VU64 1; VU64 2]; VArr TU64 []]; VU32 9].
Definition sty := TStruct [TU8; TArr (TArr TU64); TU32].
Eval vm_compute in (let pre := [1;2;3;4] in dec false sty (pre ++ senc false 4 sample ++ [9;9]) 4).
Eval vm_compute in (let pre := [1;2;3;4] in dec true sty (pre ++ senc true 4 sample ++ [9;9]) 4).
