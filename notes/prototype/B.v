From Coq Require Import List Arith NArith Lia Bool.
Import ListNotations.
Open Scope N_scope.
Require Import P D.
(* pinned-tree sub_context: region = buf[o2 .. o2+n], offset restarts at 0 *)
Section DecBug.
Variable be: bool.
Fixpoint decb (t: ty) (buf: list N) (off: N) {struct t} : option (val * N) :=
  match t with
  | TU8 => if (len buf <? off + 1) then None else Some (VU8 (nth (N.to_nat off) buf 0), off + 1)
  | TU32 => match read_num be 4 buf off with Some (n, o) => Some (VU32 n, o) | None => None end
  | TU64 => match read_num be 8 buf off with Some (n, o) => Some (VU64 n, o) | None => None end
  | TArr t' =>
      match read_num be 4 buf off with None => None | Some (n, o1) =>
      match align_to (align t') buf o1 with None => None | Some o2 =>
      if (len buf <? o2 + n) then None else
      let sub := slice buf o2 n in
      (fix loop (fuel: nat) (o: N) (acc: list val) {struct fuel} : option (val * N) :=
         if (n <=? o) then Some (VArr t' (rev acc), o2 + o) else
         match fuel with O => None | S fuel =>
           match align_to (align t') sub o with None => None | Some o' =>
           match decb t' sub o' with None => None | Some (v, o'') => loop fuel o'' (v :: acc) end end end)
        (S (N.to_nat n)) 0 []
      end end
  | TStruct ts =>
      match align_to 8 buf off with None => None | Some o =>
      (fix go (ts: list ty) (o: N) (acc: list val) {struct ts} : option (val * N) :=
         match ts with [] => Some (VStruct (rev acc), o)
         | t' :: ts => match decb t' buf o with None => None | Some (v, o') => go ts o' (v :: acc) end end) ts o []
      end
  end.
End DecBug.
Definition w := VArr (TArr TU64) [VArr TU64 [VU64 1; VU64 2]].
Lemma C01_refuted_proto : exists be v t, decb be t (marshal be v []) 0 = None /\ dec be t (marshal be v []) 0 = Some (v, len (marshal be v [])).
Proof. exists false, w, (TArr (TArr TU64)). vm_compute. split; reflexivity. Qed.
Print Assumptions C01_refuted_proto.
