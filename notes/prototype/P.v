From Coq Require Import List Arith NArith Lia Bool.
Import ListNotations.
Open Scope N_scope.
Arguments N.add : simpl never. Arguments N.sub : simpl never. Arguments N.modulo : simpl never. Arguments N.div : simpl never.

Definition len {A} (l: list A) : N := N.of_nat (length l).
Lemma len_app {A} (a b: list A) : len (a ++ b) = len a + len b.
Proof. unfold len. rewrite app_length. lia. Qed.
Lemma len_nil {A} : len (@nil A) = 0. Proof. reflexivity. Qed.
Lemma len_cons {A} (x:A) l : len (x::l) = 1 + len l. Proof. unfold len; cbn [length]; lia. Qed.

Definition zeros (n: N) : list N := repeat 0 (N.to_nat n).
Lemma len_zeros n : len (zeros n) = n. Proof. unfold len, zeros. rewrite repeat_length. lia. Qed.
Definition padlen (a pos: N) : N := (a - pos mod a) mod a.

Inductive ty := TU8 | TU32 | TU64 | TArr (t: ty) | TStruct (ts: list ty).
Inductive val := VU8 (n:N) | VU32 (n:N) | VU64 (n:N) | VArr (t: ty) (vs: list val) | VStruct (vs: list val).
Definition align (t: ty) : N := match t with TU8 => 1 | TU32 => 4 | TU64 => 8 | TArr _ => 4 | TStruct _ => 8 end.

Fixpoint le_bytes (k: nat) (n: N) : list N := match k with O => [] | S k => (n mod 256) :: le_bytes k (n / 256) end.
Definition enc (be: bool) (k: nat) (n: N) := if be then rev (le_bytes k n) else le_bytes k n.
Lemma len_le_bytes k n : len (le_bytes k n) = N.of_nat k.
Proof. revert n; induction k; intros; cbn [le_bytes]; [reflexivity|]. rewrite len_cons, IHk. lia. Qed.
Lemma len_enc be k n : len (enc be k n) = N.of_nat k.
Proof. unfold enc; destruct be; [unfold len; rewrite rev_length; apply len_le_bytes| apply len_le_bytes]. Qed.

(* ---------- spec: position-based, lengths computed ---------- *)
Section Spec.
Variable be: bool.
Fixpoint senc (pos: N) (v: val) {struct v} : list N :=
  match v with
  | VU8 n => [n]
  | VU32 n => zeros (padlen 4 pos) ++ enc be 4 n
  | VU64 n => zeros (padlen 8 pos) ++ enc be 8 n
  | VArr t vs =>
      let p1 := padlen 4 pos in
      let start := pos + p1 + 4 in
      let p2 := padlen (align t) start in
      let body := (fix go (pos: N) (vs: list val) : list N :=
                     match vs with [] => [] | v :: vs => let e := senc pos v in e ++ go (pos + len e) vs end) (start + p2) vs in
      zeros p1 ++ enc be 4 (len body) ++ zeros p2 ++ body
  | VStruct vs =>
      let p := padlen 8 pos in
      zeros p ++ (fix go (pos: N) (vs: list val) : list N :=
                     match vs with [] => [] | v :: vs => let e := senc pos v in e ++ go (pos + len e) vs end) (pos + p) vs
  end.
Fixpoint senc_list (pos: N) (vs: list val) : list N :=
  match vs with [] => [] | v :: vs => let e := senc pos v in e ++ senc_list (pos + len e) vs end.
Lemma senc_arr pos t vs : senc pos (VArr t vs) =
   let p1 := padlen 4 pos in let start := pos + p1 + 4 in let p2 := padlen (align t) start in
   let body := senc_list (start + p2) vs in zeros p1 ++ enc be 4 (len body) ++ zeros p2 ++ body.
Proof. cbn [senc]. cbv zeta.
  match goal with |- context [(fix go (p:N) (l:list val) {struct l} : list N := _)] => set (go := (fix go (p:N) (l:list val) {struct l} : list N := _)) end.
  assert (E: forall l p, go p l = senc_list p l) by (induction l; intros; cbn; [reflexivity| now rewrite IHl]).
  now rewrite !E. Qed.
Lemma senc_struct pos vs : senc pos (VStruct vs) = zeros (padlen 8 pos) ++ senc_list (pos + padlen 8 pos) vs.
Proof. cbn [senc]. cbv zeta.
  match goal with |- context [(fix go (p:N) (l:list val) {struct l} : list N := _)] => set (go := (fix go (p:N) (l:list val) {struct l} : list N := _)) end.
  assert (E: forall l p, go p l = senc_list p l) by (induction l; intros; cbn; [reflexivity| now rewrite IHl]).
  now rewrite !E. Qed.
End Spec.

(* ---------- model of the Rust marshaller: buffer-based, back-patching ---------- *)
Definition pad_to (a: N) (buf: list N) : list N := buf ++ zeros (padlen a (len buf)).
(* insert_u32: overwrite 4 bytes at pos *)
Definition insert (pos: N) (bs: list N) (buf: list N) : list N :=
  firstn (N.to_nat pos) buf ++ bs ++ skipn (N.to_nat pos + length bs) buf.
Section Model.
Variable be: bool.
Fixpoint marshal (v: val) (buf: list N) {struct v} : list N :=
  match v with
  | VU8 n => buf ++ [n]
  | VU32 n => pad_to 4 buf ++ enc be 4 n
  | VU64 n => pad_to 8 buf ++ enc be 8 n
  | VArr t vs =>
      let b1 := pad_to 4 buf in
      let size_pos := len b1 in
      let b2 := b1 ++ [0;0;0;0] in
      let b3 := pad_to (align t) b2 in
      let size_before := len b3 in
      let b4 := (fix go (vs: list val) (b: list N) := match vs with [] => b | v :: vs => go vs (marshal v b) end) vs b3 in
      insert size_pos (enc be 4 ((len b4 - size_before) mod 2^32)) b4
  | VStruct vs =>
      (fix go (vs: list val) (b: list N) := match vs with [] => b | v :: vs => go vs (marshal v b) end) vs (pad_to 8 buf)
  end.
Fixpoint marshal_list (vs: list val) (b: list N) := match vs with [] => b | v :: vs => marshal_list vs (marshal v b) end.
Lemma marshal_arr t vs buf : marshal (VArr t vs) buf =
      let b1 := pad_to 4 buf in let size_pos := len b1 in let b2 := b1 ++ [0;0;0;0] in
      let b3 := pad_to (align t) b2 in let size_before := len b3 in let b4 := marshal_list vs b3 in
      insert size_pos (enc be 4 ((len b4 - size_before) mod 2^32)) b4.
Proof. cbn [marshal]. cbv zeta.
  assert (E: forall vs b, (fix go (vs: list val) (b: list N) := match vs with [] => b | v :: vs => go vs (marshal v b) end) vs b = marshal_list vs b)
   by (induction vs0; intros; cbn; [reflexivity| apply IHvs0]).
  now rewrite !E. Qed.
Lemma marshal_struct vs buf : marshal (VStruct vs) buf = marshal_list vs (pad_to 8 buf).
Proof. cbn [marshal]. generalize (pad_to 8 buf). induction vs; intros; cbn; [reflexivity| apply IHvs]. Qed.
End Model.

(* ---------- induction principle for nested val ---------- *)
Section ValInd.
Variable P : val -> Prop.
Hypothesis H8 : forall n, P (VU8 n). Hypothesis H32 : forall n, P (VU32 n). Hypothesis H64 : forall n, P (VU64 n).
Hypothesis HA : forall t vs, Forall P vs -> P (VArr t vs).
Hypothesis HS : forall vs, Forall P vs -> P (VStruct vs).
Fixpoint val_ind' (v: val) : P v :=
  match v with
  | VU8 n => H8 n | VU32 n => H32 n | VU64 n => H64 n
  | VArr t vs => HA t vs ((fix go (vs: list val) : Forall P vs := match vs with [] => Forall_nil _ | v :: vs => Forall_cons _ (val_ind' v) (go vs) end) vs)
  | VStruct vs => HS vs ((fix go (vs: list val) : Forall P vs := match vs with [] => Forall_nil _ | v :: vs => Forall_cons _ (val_ind' v) (go vs) end) vs)
  end.
End ValInd.

(* ---------- the theorem ---------- *)
Lemma insert_patch (pre: list N) (old new rest: list N) :
  length old = length new -> insert (len pre) new (pre ++ old ++ rest) = pre ++ new ++ rest.
Proof. intros H. unfold insert, len. rewrite Nat2N.id.
  rewrite firstn_app, firstn_all, Nat.sub_diag. cbn [firstn]. rewrite app_nil_r. f_equal. f_equal.
  rewrite skipn_app. rewrite skipn_all2 by lia. cbn [app].
  replace (length pre + length new - length pre)%nat with (length new) by lia.
  rewrite <- H. rewrite skipn_app, skipn_all, Nat.sub_diag. reflexivity. Qed.

Lemma len4 : len [0;0;0;0] = 4. Proof. reflexivity. Qed.
Definition small be (v: val) := forall pos, len (senc be pos v) < 2^32.
(* all array bodies < 2^32: stated as a boolean-free predicate over sub-values for the prototype *)
Inductive ok be : val -> Prop :=
| ok8 n : ok be (VU8 n) | ok32 n : ok be (VU32 n) | ok64 n : ok be (VU64 n)
| okA t vs : Forall (ok be) vs -> (forall pos, len (senc_list be pos vs) < 2^32) -> ok be (VArr t vs)
| okS vs : Forall (ok be) vs -> ok be (VStruct vs).

Theorem marshal_is_spec be v : ok be v -> forall buf, marshal be v buf = buf ++ senc be (len buf) v.
Proof.
  induction v as [n|n|n|t vs IH|vs IH] using val_ind'; intros Hok buf.
  - reflexivity.
  - cbn [marshal senc]. unfold pad_to. now rewrite <- app_assoc.
  - cbn [marshal senc]. unfold pad_to. now rewrite <- app_assoc.
  - inversion Hok as [| | |t' vs' Hall Hsz|]; subst.
    assert (L: forall vs, Forall (fun v => ok be v -> forall buf, marshal be v buf = buf ++ senc be (len buf) v) vs -> Forall (ok be) vs ->
              forall b, marshal_list be vs b = b ++ senc_list be (len b) vs).
    { clear. induction vs as [|v vs IHvs]; intros HF HO b; cbn [marshal_list senc_list]; [now rewrite app_nil_r|].
      inversion HF; inversion HO; subst. rewrite H1 by assumption. rewrite IHvs by assumption.
      rewrite len_app. now rewrite <- app_assoc. }
    rewrite marshal_arr, senc_arr. cbv zeta. rewrite (L vs IH Hall).
    unfold pad_to. rewrite !len_app, !len_zeros, !len4.
    set (p1 := padlen 4 (len buf)). set (start := len buf + p1 + 4).
    set (p2 := padlen (align t) start).
    set (body := senc_list be (start + p2) vs).
    replace (start + p2 + len body - (start + p2)) with (len body) by lia.
    rewrite N.mod_small by apply Hsz.
    replace ((((buf ++ zeros p1) ++ [0; 0; 0; 0]) ++ zeros p2) ++ body) with ((buf ++ zeros p1) ++ [0;0;0;0] ++ (zeros p2 ++ body)) by (now rewrite <- !app_assoc).
    replace (len buf + p1) with (len (buf ++ zeros p1)) by (now rewrite len_app, len_zeros).
    rewrite insert_patch. 2:{ apply Nat2N.inj. change (len [0;0;0;0] = len (enc be 4 (len body))). now rewrite len_enc. }
    now rewrite <- !app_assoc.
  - inversion Hok; subst. rewrite marshal_struct, senc_struct.
    assert (L: forall vs, Forall (fun v => ok be v -> forall buf, marshal be v buf = buf ++ senc be (len buf) v) vs -> Forall (ok be) vs ->
              forall b, marshal_list be vs b = b ++ senc_list be (len b) vs).
    { clear. induction vs as [|v vs IHvs]; intros HF HO b; cbn [marshal_list senc_list]; [now rewrite app_nil_r|].
      inversion HF; inversion HO; subst. rewrite H1 by assumption. rewrite IHvs by assumption.
      rewrite len_app. now rewrite <- app_assoc. }
    rewrite (L vs IH H0). unfold pad_to. rewrite len_app, len_zeros. now rewrite <- app_assoc.
Qed.
Print Assumptions marshal_is_spec.
