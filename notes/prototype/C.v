From Coq Require Import List Arith NArith ZArith Lia Bool.
Import ListNotations.
Open Scope N_scope.
Arguments N.add : simpl never. Arguments N.sub : simpl never. Arguments N.modulo : simpl never. Arguments N.div : simpl never.
Arguments N.ltb : simpl never. Arguments N.leb : simpl never. Arguments N.eqb : simpl never. Arguments N.mul : simpl never. Arguments N.pow : simpl never.
Require Import P D.

(* ---- list/offset lemmas ---- *)
Lemma skipn_len_app {A} (pre r: list A) : skipn (N.to_nat (len pre)) (pre ++ r) = r.
Proof. unfold len. rewrite Nat2N.id. rewrite skipn_app, skipn_all, Nat.sub_diag. reflexivity. Qed.
Lemma firstn_len_app {A} (a r: list A) : firstn (N.to_nat (len a)) (a ++ r) = a.
Proof. unfold len. rewrite Nat2N.id. rewrite firstn_app, firstn_all, Nat.sub_diag. cbn. apply app_nil_r. Qed.
Lemma slice_exact (pre bs r: list N) : slice (pre ++ bs ++ r) (len pre) (len bs) = bs.
Proof. unfold slice. rewrite skipn_len_app. apply firstn_len_app. Qed.
Lemma all_zero_zeros n : all_zero (zeros n) = true.
Proof. unfold all_zero, zeros. induction (N.to_nat n); cbn; [reflexivity|exact IHn0]. Qed.
Lemma padlen_lt a pos : 0 < a -> padlen a pos < a. Proof. unfold padlen; intros; apply N.mod_lt; lia. Qed.
Lemma padlen_aligned a pos : 0 < a -> padlen a (pos + padlen a pos) = 0.
Proof. unfold padlen. intros Ha.
  assert (Hr: pos mod a < a) by (apply N.mod_lt; lia).
  assert (Hd: pos = a * (pos / a) + pos mod a) by (apply N.div_mod; lia).
  assert (K: (pos + (a - pos mod a) mod a) mod a = 0).
  { destruct (N.eq_dec (pos mod a) 0) as [E|E].
    - rewrite E, N.sub_0_r, N.mod_same, N.add_0_r by lia. exact E.
    - remember (pos mod a) as r. remember (pos / a) as q.
      rewrite (N.mod_small (a - r)) by lia.
      replace (pos + (a - r)) with ((1 + q) * a) by lia. apply N.mod_mul; lia. }
  rewrite K, N.sub_0_r. apply N.mod_same; lia. Qed.

Lemma align_to_ok a pre r : align_to a (pre ++ zeros (padlen a (len pre)) ++ r) (len pre) = Some (len pre + padlen a (len pre)).
Proof. unfold align_to. cbv zeta. rewrite !len_app, len_zeros.
  destruct (N.ltb_spec (len pre + (padlen a (len pre) + len r)) (len pre + padlen a (len pre))); [lia|].
  rewrite <- (len_zeros (padlen a (len pre))) at 2. rewrite slice_exact, all_zero_zeros. reflexivity. Qed.

Lemma from_le_bytes k n : from_le (le_bytes k n) = n mod 256 ^ N.of_nat k.
Proof. revert n; induction k; intros n.
  - cbn. now rewrite N.mod_1_r.
  - cbn [le_bytes from_le]. rewrite IHk. rewrite Nat2N.inj_succ, N.pow_succ_r'.
    assert (0 < 256 ^ N.of_nat k) by (apply N.neq_0_lt_0, N.pow_nonzero; lia).
    rewrite (N.mul_comm 256), N.mod_mul_r by lia. lia. Qed.
Lemma dec_enc be k n : n < 256 ^ N.of_nat k -> dec_num be (enc be k n) = n.
Proof. intros H. unfold dec_num, enc. destruct be; [rewrite rev_involutive|]; rewrite from_le_bytes; now apply N.mod_small. Qed.

Lemma read_num_ok be k n pre r : (k = 4 \/ k = 8) -> n < 256 ^ k ->
  read_num be k (pre ++ zeros (padlen k (len pre)) ++ enc be (N.to_nat k) n ++ r) (len pre)
  = Some (n, len pre + padlen k (len pre) + k).
Proof. intros Hk Hn. unfold read_num. rewrite align_to_ok.
  set (o := len pre + padlen k (len pre)).
  assert (Lk: len (enc be (N.to_nat k) n) = k) by (rewrite len_enc; lia).
  rewrite !len_app, len_zeros, Lk.
  destruct (N.ltb_spec (len pre + (padlen k (len pre) + (k + len r))) (o + k)); [subst o; lia|].
  replace (pre ++ zeros (padlen k (len pre)) ++ enc be (N.to_nat k) n ++ r) with ((pre ++ zeros (padlen k (len pre))) ++ enc be (N.to_nat k) n ++ r) by (now rewrite <- app_assoc).
  replace o with (len (pre ++ zeros (padlen k (len pre)))) by (now rewrite len_app, len_zeros).
  match goal with |- context [slice ?b ?o k] => replace (slice b o k) with (slice b o (len (enc be (N.to_nat k) n))) by (now rewrite Lk) end.
  rewrite slice_exact, dec_enc; [reflexivity|]. rewrite N2Nat.id. exact Hn. Qed.

Lemma read32_ok be n pre r : n < 256 ^ 4 ->
  read_num be 4 (pre ++ zeros (padlen 4 (len pre)) ++ enc be 4 n ++ r) (len pre) = Some (n, len pre + padlen 4 (len pre) + 4).
Proof. intros H. exact (read_num_ok be 4 n pre r (or_introl eq_refl) H). Qed.
Lemma read64_ok be n pre r : n < 256 ^ 8 ->
  read_num be 8 (pre ++ zeros (padlen 8 (len pre)) ++ enc be 8 n ++ r) (len pre) = Some (n, len pre + padlen 8 (len pre) + 8).
Proof. intros H. exact (read_num_ok be 8 n pre r (or_intror eq_refl) H). Qed.
(* ---- typing, progress, padding split ---- *)
Inductive wt : val -> ty -> Prop :=
| wt8 n : n < 256 -> wt (VU8 n) TU8
| wt32 n : n < 256 ^ 4 -> wt (VU32 n) TU32
| wt64 n : n < 256 ^ 8 -> wt (VU64 n) TU64
| wtA t vs : Forall (fun v => wt v t) vs -> wt (VArr t vs) (TArr t)
| wtS vs ts : Forall2 wt vs ts -> ts <> [] -> wt (VStruct vs) (TStruct ts).

Lemma align_pos t : 0 < align t. Proof. destruct t; cbn; lia. Qed.
Lemma zeros0 : zeros 0 = []. Proof. reflexivity. Qed.

Lemma pad_split be v t : wt v t -> forall pos,
  senc be pos v = zeros (padlen (align t) pos) ++ senc be (pos + padlen (align t) pos) v.
Proof. intros W pos. destruct W.
  - cbn [align]. unfold padlen at 1 2. rewrite N.mod_1_r. cbn [senc]. reflexivity.
  - cbn [senc align]. rewrite padlen_aligned, zeros0 by lia. reflexivity.
  - cbn [senc align]. rewrite padlen_aligned, zeros0 by lia. reflexivity.
  - rewrite !senc_arr. cbv zeta. cbn [align]. rewrite padlen_aligned, zeros0, N.add_0_r by lia. reflexivity.
  - rewrite !senc_struct. cbn [align]. rewrite padlen_aligned, zeros0, N.add_0_r by lia. reflexivity.
Qed.

Lemma progress be v : forall t, wt v t -> forall pos, 1 <= len (senc be pos v).
Proof. induction v as [n|n|n|t0 vs IH|vs IH] using val_ind'; intros t W pos.
  - cbn. lia.
  - cbn [senc]. rewrite len_app, len_enc. lia.
  - cbn [senc]. rewrite len_app, len_enc. lia.
  - rewrite senc_arr. cbv zeta. rewrite !len_app, len_enc. lia.
  - rewrite senc_struct, len_app. inversion W as [| | | |vs' ts HF Hne]; subst.
    destruct HF as [|v t' vs' ts' Hv Hrest]; [congruence|].
    inversion IH; subst. cbn [senc_list]. rewrite len_app.
    pose proof (H1 t' Hv (pos + padlen 8 pos)). lia.
Qed.

Lemma senc_list_app be pos a b : senc_list be pos (a ++ b) = senc_list be pos a ++ senc_list be (pos + len (senc_list be pos a)) b.
Proof. revert pos; induction a as [|v a IH]; intros pos; cbn [app senc_list].
  - now rewrite len_nil, N.add_0_r.
  - rewrite IH, len_app, <- app_assoc, N.add_assoc. reflexivity. Qed.

(* ok: all array bodies fit in u32 *)
Definition P_dec be (v: val) := forall t, wt v t -> ok be v -> forall pre suf,
  dec be t (pre ++ senc be (len pre) v ++ suf) (len pre) = Some (v, len pre + len (senc be (len pre) v)).

Lemma dec_struct_go be : forall vs, Forall (P_dec be) vs -> forall ts, Forall2 wt vs ts -> Forall (ok be) vs ->
  forall pre suf acc,
  struct_go (map (dec be) ts) (pre ++ senc_list be (len pre) vs ++ suf) (len pre) acc
  = Some (VStruct (rev acc ++ vs), len pre + len (senc_list be (len pre) vs)).
Proof. induction vs as [|v vs IHvs]; intros HP ts HW HO pre suf acc.
  - inversion HW; subst. cbn [senc_list map struct_go]. now rewrite len_nil, N.add_0_r, app_nil_r.
  - inversion HW as [|v' t' vs' ts' Wv Wvs]; subst.
    apply Forall_cons_iff in HP as [Pv Pvs]. apply Forall_cons_iff in HO as [Ov Ovs].
    cbn [senc_list map struct_go]. rewrite <- app_assoc.
    rewrite (Pv _ Wv Ov pre (senc_list be (len pre + len (senc be (len pre) v)) vs ++ suf)).
    specialize (IHvs Pvs _ Wvs Ovs (pre ++ senc be (len pre) v) suf (v :: acc)).
    rewrite len_app in IHvs. rewrite <- app_assoc in IHvs. rewrite IHvs.
    cbn [rev]. rewrite <- app_assoc. cbn [app]. rewrite len_app. f_equal. f_equal. lia. Qed.

Lemma dec_arr_loop be t : forall rest, Forall (P_dec be) rest -> Forall (fun v => wt v t) rest -> Forall (ok be) rest ->
  forall (fuel: nat) pre2 acc (endp: N),
  (length rest < fuel)%nat ->
  endp = len pre2 + len (senc_list be (len pre2) rest) ->
  arr_loop (dec be t) t (pre2 ++ senc_list be (len pre2) rest) endp fuel (len pre2) acc
  = Some (VArr t (rev acc ++ rest), endp).
Proof. induction rest as [|v rest IH]; intros HP HW HO fuel pre2 acc endp Hf He.
  - cbn [senc_list] in *. rewrite len_nil, N.add_0_r in He. subst endp.
    destruct fuel; cbn [arr_loop]; (destruct (N.leb_spec (len pre2) (len pre2)); [now rewrite app_nil_r | lia]).
  - apply Forall_cons_iff in HP as [Pv Pvs]. apply Forall_cons_iff in HW as [Wv Wvs]. apply Forall_cons_iff in HO as [Ov Ovs].
    cbn [senc_list] in *.
    pose proof (progress be v t Wv (len pre2)) as Hp. rewrite len_app in He.
    destruct fuel as [|fuel]; [cbn in Hf; lia|]. cbn [arr_loop].
    destruct (N.leb_spec endp (len pre2)); [lia|].
    set (p := padlen (align t) (len pre2)).
    assert (Hs: senc be (len pre2) v = zeros p ++ senc be (len pre2 + p) v) by (apply pad_split; exact Wv).
    assert (Hl: len pre2 + p + len (senc be (len pre2 + p) v) = len pre2 + len (senc be (len pre2) v)).
    { rewrite Hs. rewrite len_app, len_zeros. lia. }
    set (tail := senc_list be (len pre2 + len (senc be (len pre2) v)) rest) in *.
    assert (Hb: pre2 ++ senc be (len pre2) v ++ tail = pre2 ++ zeros p ++ (senc be (len pre2 + p) v ++ tail))
      by (rewrite Hs at 1; now rewrite <- app_assoc).
    rewrite Hb, align_to_ok. fold p.
    pose proof (Pv t Wv Ov (pre2 ++ zeros p) tail) as Hd.
    rewrite len_app, len_zeros in Hd. rewrite <- app_assoc in Hd. rewrite Hd. rewrite Hl.
    specialize (IH Pvs Wvs Ovs fuel (pre2 ++ senc be (len pre2) v) (v :: acc) endp).
    rewrite len_app in IH. rewrite <- app_assoc in IH. fold tail in IH. rewrite Hb in IH.
    rewrite IH; [ cbn [rev]; now rewrite <- app_assoc | cbn [length] in Hf; lia | subst tail; lia ].
Qed.

Lemma len_senc_list_ge be t : forall vs, Forall (fun v => wt v t) vs -> forall pos, N.of_nat (length vs) <= len (senc_list be pos vs).
Proof. induction vs as [|v vs IH]; intros HW pos; cbn [senc_list length]; [unfold len; cbn; lia|].
  apply Forall_cons_iff in HW as [Wv Wvs]. rewrite len_app.
  pose proof (progress be v t Wv pos). specialize (IH Wvs (pos + len (senc be pos v))). lia. Qed.

Lemma nth_len_app (pre: list N) x r : nth (N.to_nat (len pre)) (pre ++ x :: r) 0 = x.
Proof. unfold len. rewrite Nat2N.id, app_nth2, Nat.sub_diag by lia. reflexivity. Qed.

Theorem dec_complete be : forall v, P_dec be v.
Proof. induction v as [n|n|n|t0 vs IH|vs IH] using val_ind'; intros t W Hok pre suf.
  - inversion W; subst. cbn [dec senc]. cbn [app]. change (len [n]) with 1. rewrite len_app, len_cons.
    destruct (N.ltb_spec (len pre + (1 + len suf)) (len pre + 1)); [lia|].
    rewrite nth_len_app. reflexivity.
  - inversion W; subst. cbn [dec senc]. rewrite <- app_assoc.
    rewrite (read32_ok be n pre suf) by assumption. rewrite len_app, len_zeros, len_enc. f_equal. f_equal. lia.
  - inversion W; subst. cbn [dec senc]. rewrite <- app_assoc.
    rewrite (read64_ok be n pre suf) by assumption. rewrite len_app, len_zeros, len_enc. f_equal. f_equal. lia.
  - inversion W as [| | |t' vs' HW|]; subst. inversion Hok as [| | |t' vs' Hall Hsz|]; subst.
    rewrite senc_arr. cbv zeta.
    set (p1 := padlen 4 (len pre)). set (start := len pre + p1 + 4). set (p2 := padlen (align t0) start).
    set (body := senc_list be (start + p2) vs).
    cbn [dec]. rewrite <- !app_assoc.
    pose proof (read32_ok be (len body) pre (zeros p2 ++ body ++ suf) (Hsz _)) as R. fold p1 in R. fold start in R. rewrite R. clear R.
    set (pre1 := pre ++ zeros p1 ++ enc be 4 (len body)).
    assert (L1: len pre1 = start) by (subst pre1 start; rewrite !len_app, len_zeros, len_enc; lia).
    replace (pre ++ zeros p1 ++ enc be 4 (len body) ++ zeros p2 ++ body ++ suf) with (pre1 ++ zeros p2 ++ (body ++ suf))
      by (subst pre1; now rewrite <- !app_assoc).
    pose proof (align_to_ok (align t0) pre1 (body ++ suf)) as A. rewrite L1 in A. fold p2 in A. rewrite A. clear A.
    set (pre2 := pre1 ++ zeros p2).
    assert (L2: len pre2 = start + p2) by (subst pre2; rewrite len_app, len_zeros; lia).
    replace (pre1 ++ zeros p2 ++ body ++ suf) with (pre2 ++ body ++ suf) by (subst pre2; now rewrite <- app_assoc).
    rewrite !len_app.
    destruct (N.ltb_spec (len pre2 + (len body + len suf)) (start + p2 + len body)); [lia|].
    replace (firstn (N.to_nat (start + p2 + len body)) (pre2 ++ body ++ suf)) with (pre2 ++ body).
    2:{ rewrite app_assoc. replace (start + p2 + len body) with (len (pre2 ++ body)) by (rewrite len_app; lia). now rewrite firstn_len_app. }
    subst body. rewrite <- L2.
    rewrite (dec_arr_loop be t0 vs IH HW Hall (S (N.to_nat (len (senc_list be (len pre2) vs)))) pre2 [] (len pre2 + len (senc_list be (len pre2) vs))); [ | | reflexivity].
    + cbn [rev app]. f_equal. f_equal. rewrite !len_zeros, len_enc. rewrite L2. subst start. lia.
    + pose proof (len_senc_list_ge be t0 vs HW (len pre2)). lia.
  - inversion W as [| | | |vs' ts HF Hne]; subst. inversion Hok; subst.
    rewrite senc_struct. cbn [dec]. rewrite <- app_assoc. rewrite align_to_ok.
    set (p := padlen 8 (len pre)). set (pre1 := pre ++ zeros p).
    assert (L1: len pre1 = len pre + p) by (subst pre1; now rewrite len_app, len_zeros).
    replace (pre ++ zeros p ++ senc_list be (len pre + p) vs ++ suf) with (pre1 ++ senc_list be (len pre1) vs ++ suf) by (subst pre1; rewrite L1; now rewrite <- app_assoc).
    rewrite <- L1.
    rewrite (dec_struct_go be vs IH ts HF H0 pre1 suf []). cbn [rev app]. f_equal. f_equal. rewrite len_app, len_zeros. lia.
Qed.
Print Assumptions dec_complete.

(* round trip for the reduced algebra: the C01 shape *)
Corollary roundtrip be v t buf suf : wt v t -> ok be v ->
  dec be t (marshal be v buf ++ suf) (len buf) = Some (v, len (marshal be v buf)).
Proof. intros W O. rewrite (marshal_is_spec be v O buf). rewrite <- app_assoc.
  rewrite (dec_complete be v t W O buf suf). now rewrite len_app. Qed.
Print Assumptions roundtrip.
