#!/usr/bin/env python3
"""scratch: from cov_out/{export.json, show.txt, per_check.json} produce cov_out/model.json and a draft listing"""
import json
import os
import re
import subprocess
import sys

OUT = "/verif/scratch/cov_out"
SRC = "/repo/rustbus/src/"
data = json.load(open(os.path.join(OUT, "export.json")))

# ---- line counts from llvm-cov show
lines = {}   # rel file -> {lineno: count or None}
cur = None
for l in open(os.path.join(OUT, "show.txt")):
    l = l.rstrip("\n")
    if l.startswith("/") and l.endswith(":") and "|" not in l:
        cur = l[:-1]
        cur = cur[len(SRC):] if cur.startswith(SRC) else None
        if cur:
            lines[cur] = {}
        continue
    if cur is None:
        continue
    m = re.match(r"^\s*(\d+)\|\s*([0-9.]+[kMGTE]?)?\|", l)
    if m:
        lines[cur][int(m.group(1))] = m.group(2)

# ---- functions grouped by source location
funcs = {}
for f in data["functions"]:
    regs = [r for r in f["regions"] if f["filenames"][r[5]].startswith(SRC) and r[7] == 0]
    if not regs:
        continue
    r0 = regs[0]
    fn = f["filenames"][r0[5]][len(SRC):]
    same = [r for r in regs if f["filenames"][r[5]][len(SRC):] == fn]
    key = (fn, r0[0], r0[1])
    e = funcs.setdefault(key, {"file": fn, "line": r0[0], "end": r0[0], "count": 0, "inst": 0, "inst_hit": 0, "mangled": f["name"]})
    e["end"] = max([e["end"]] + [r[2] for r in same])
    e["count"] += f["count"]
    e["inst"] += 1
    e["inst_hit"] += 1 if f["count"] > 0 else 0
    if len(f["name"]) < len(e["mangled"]):
        e["mangled"] = f["name"]

keys = sorted(funcs)
p = subprocess.run(["c++filt", "--format=rust"], input="\n".join(funcs[k]["mangled"] for k in keys) + "\n", stdout=subprocess.PIPE, text=True)
dem = p.stdout.split("\n")


def clean(n):
    n = re.sub(r"\[[0-9a-f]+\]", "", n)
    return n


for k, d in zip(keys, dem):
    funcs[k]["name"] = clean(d)
    del funcs[k]["mangled"]

# closures: parent = innermost other function whose range contains it
for k in keys:
    f = funcs[k]
    f["closure"] = "{closure" in f["name"]

files = {}
for fl in data["files"]:
    if fl["filename"].startswith(SRC):
        rel = fl["filename"][len(SRC):]
        files[rel] = {"lines": fl["summary"]["lines"]["count"], "lines_cov": fl["summary"]["lines"]["covered"],
                      "llvm_funcs": fl["summary"]["functions"]["count"], "llvm_funcs_cov": fl["summary"]["functions"]["covered"]}
for rel in files:
    mine = [funcs[k] for k in keys if k[0] == rel]
    files[rel]["funcs"] = len(mine)
    files[rel]["funcs_cov"] = sum(1 for f in mine if f["count"] > 0)

# uncovered ranges of partially covered functions
for k in keys:
    f = funcs[k]
    f["uncov"] = []
    if f["count"] == 0:
        continue
    lc = lines.get(f["file"], {})
    rng = []
    start = None
    last = None
    for ln in range(f["line"], f["end"] + 1):
        c = lc.get(ln)
        if c == "0":
            if start is None:
                start = ln
            last = ln
        elif c is not None:
            if start is not None:
                rng.append((start, last))
                start = None
    if start is not None:
        rng.append((start, last))
    f["uncov"] = rng

json.dump({"files": files, "funcs": [funcs[k] for k in keys]}, open(os.path.join(OUT, "model.json"), "w"), indent=0)
tl = sum(v["lines"] for v in files.values())
tc = sum(v["lines_cov"] for v in files.values())
print("files", len(files), "lines %d/%d" % (tc, tl), "funcs %d/%d" % (sum(v["funcs_cov"] for v in files.values()), sum(v["funcs"] for v in files.values())))
for rel in sorted(files):
    v = files[rel]
    print("%-45s lines %4d/%4d  funcs %3d/%3d (llvm %d/%d)" % (rel, v["lines_cov"], v["lines"], v["funcs_cov"], v["funcs"], v["llvm_funcs_cov"], v["llvm_funcs"]))
