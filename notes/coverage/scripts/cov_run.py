#!/usr/bin/env python3
"""scratch: run one check (quick) with a coverage-instrumented harness.  usage: cov_run.py Cxx"""
import importlib
import os
import shutil
import sys
import traceback

VERIF = "/verif"
COVH = os.path.join(VERIF, "scratch", "cov_harness")
PROF = os.path.join(VERIF, "scratch", "cov_prof")
os.makedirs(PROF, exist_ok=True)
prop = sys.argv[1]
os.makedirs(os.path.join(PROF, prop), exist_ok=True)
os.environ["LLVM_PROFILE_FILE"] = os.path.join(PROF, prop, "%p-%m.profraw")
os.environ.setdefault("VERIF_EVIDENCE_DIR", "/tmp/cov_ev")
os.environ["VERIF_SKIP_PROOF"] = "1"
os.makedirs(os.environ["VERIF_EVIDENCE_DIR"], exist_ok=True)

sys.path.insert(0, os.path.join(VERIF, "lib"))
sys.path.insert(0, VERIF)
os.chdir(VERIF)
import vlib

NPAR = int(os.environ.get("COV_NPROC", "3"))
vlib.NPROC = NPAR
d = list(vlib.par_run_lines.__defaults__); d[0] = NPAR; vlib.par_run_lines.__defaults__ = tuple(d)


def cov_dir():
    os.makedirs(COVH, exist_ok=True)
    for name in ("Cargo.toml", "Cargo.lock"):
        dst = os.path.join(COVH, name)
        if not os.path.exists(dst):
            shutil.copy(os.path.join(vlib.HARNESS, name), dst)
    for name in ("src", ".cargo"):
        dst = os.path.join(COVH, name)
        if not os.path.lexists(dst):
            os.symlink(os.path.join(vlib.HARNESS, name), dst)
    return COVH


def harness_build(bins, profile="release", features=(), timeout=3600):
    hdir = cov_dir()
    cmd = ["cargo", "+nightly", "build", "--offline", "-q", "-j", "4"]
    if profile == "release":
        cmd.append("--release")
    for b in bins:
        cmd += ["--bin", b]

    def _needs_catalogue(b):
        try:
            src = open(os.path.join(vlib.HARNESS, "src", "bin", b + ".rs")).read()
        except OSError:
            return True
        return "wirelib" in src or "catalogue" in src
    if any(_needs_catalogue(b) for b in bins) and "catalogue" not in features:
        features = tuple(features) + ("catalogue",)
    if features:
        cmd += ["--features", ",".join(features)]
    # separate target dir per feature set so that the object files of every build survive for llvm-cov
    tdir = os.path.join(hdir, "target_" + ("_".join(sorted(features)) or "none"))
    env = {"VERIF_REPO": vlib.REPO, "RUSTFLAGS": "-C instrument-coverage", "CARGO_TARGET_DIR": tdir,
           "CARGO_INCREMENTAL": "0", "LLVM_PROFILE_FILE": os.path.join(PROF, "build", "%p-%m.profraw")}
    with vlib.Lock("scratch/cov_build.lock"):
        rc, out = vlib.sh(cmd, cwd=hdir, timeout=timeout, env=env)
    if rc != 0:
        raise vlib.BrokenTie("instrumented harness does not build (%s)" % profile, out[-6000:])
    sub = "release" if profile == "release" else "debug"
    res = {b: os.path.join(tdir, sub, b) for b in bins}
    with open(os.path.join(PROF, "binaries.txt"), "a") as f:
        for b in res.values():
            f.write(b + "\n")
    return res


vlib.harness_build = harness_build
vlib.harness_dir = cov_dir
vlib.Ctx.proof = lambda self, *a, **k: None

if prop == "build":
    print(harness_build(sys.argv[2].split(","), profile=(sys.argv[3] if len(sys.argv) > 3 else "release"),
                        features=tuple(sys.argv[4].split(",")) if len(sys.argv) > 4 else ()))
    sys.exit(0)

ctx = vlib.Ctx(prop, "quick", int(os.environ.get("VERIF_SEED", "20260930")))
try:
    mod = importlib.import_module("checks." + prop.lower())
    mod.run(ctx)
except vlib.BrokenTie as bt:
    ctx.broken.append(bt)
    sys.stderr.write("broken tie: %s\n%s\n" % (bt.what, bt.detail[-3000:]))
except Exception:
    tb = traceback.format_exc()
    sys.stderr.write(tb)
    ctx.tie_broken("check crashed: " + tb.strip().split("\n")[-1], tb)
for b in ctx.broken[:4]:
    sys.stderr.write("BROKEN: %s\n%s\n" % (b.what, b.detail[-2000:]))
sys.exit(ctx.finish())
