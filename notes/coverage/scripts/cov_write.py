#!/usr/bin/env python3
"""scratch: write /verif/notes/coverage/summary.md from cov_out/model.json, per_check.json and cov_judge.json"""
import json
import os
import re
import sys

OUT = "/verif/scratch/cov_out"
SRC = "/repo/rustbus/src/"
DST = "/verif/notes/coverage"
os.makedirs(DST, exist_ok=True)
m = json.load(open(os.path.join(OUT, "model.json")))
pc = json.load(open(os.path.join(OUT, "per_check.json")))
judge = json.load(open("/verif/scratch/cov_judge.json")) if os.path.exists("/verif/scratch/cov_judge.json") else {}
DRAFT = "--draft" in sys.argv

anch = {}
for l in open("/verif/properties.jsonl"):
    l = l.strip()
    if l:
        d = json.loads(l)
        for f in d.get("anchors", {}).get("files", []):
            if f.startswith("rustbus/src/"):
                anch.setdefault(f[len("rustbus/src/"):], []).append(d["id"])

files = m["files"]
funcs = m["funcs"]
srccache = {}


def src(rel):
    if rel not in srccache:
        srccache[rel] = open(SRC + rel).read().split("\n")
    return srccache[rel]


def heur(f):
    n = f["name"]
    if re.search(r"as core::fmt::(Debug|Display)>::fmt", n):
        return "not relevant (Debug/Display impl)"
    if "as core::error::Error>" in n:
        return "not relevant (std::error::Error impl)"
    return None


def J(f, rng=None):
    k = "%s:%d" % (f["file"], f["line"]) if rng is None else "%s:%d-%d" % (f["file"], rng[0], rng[1])
    if k in judge:
        return judge[k]
    if rng is None:
        if f["closure"]:
            # closure inherits the judgement of the enclosing zero-coverage function when there is one
            for g in funcs:
                if g["file"] == f["file"] and not g["closure"] and g["line"] <= f["line"] <= g["end"] and g is not f:
                    kk = "%s:%d" % (g["file"], g["line"])
                    if kk in judge and g["count"] == 0:
                        return "see enclosing fn: " + judge[kk]
        fk = "file:" + f["file"]
        h = heur(f)
        if h:
            return h
        if fk in judge:
            return judge[fk]
    return "TODO" if DRAFT else "unjudged"


o = []
w = o.append
w("# Source coverage of /repo/rustbus/src under the quick checks\n")
w(open("/verif/scratch/cov_head.md").read() if os.path.exists("/verif/scratch/cov_head.md") else "")
w("\n## 1. Which checks contributed\n")
w("| check | profiles (processes) | rustbus functions hit (by source location) | rustbus lines hit |")
w("|---|---|---|---|")
for c in sorted(pc):
    v = pc[c]
    if not v:
        w("| %s | 0 | - | - |" % c)
        continue
    w("| %s | %d | %d | %d |" % (c, v["nraw"], len(v["funcs_hit"]), sum(v["lines_by_file"].values())))
w("")
w("\n## 2. Per source file\n")
w("Functions are counted by source location (all generic instantiations / macro expansions of one definition are one function; closures count as functions, as in llvm-cov).\n")
w("| file | lines covered / total | % | functions covered / total | anchored by |")
w("|---|---|---|---|---|")
tl = tc = tf = tfc = 0
for rel in sorted(files):
    v = files[rel]
    tl += v["lines"]; tc += v["lines_cov"]; tf += v["funcs"]; tfc += v["funcs_cov"]
    w("| %s | %d / %d | %.0f | %d / %d | %s |" % (rel, v["lines_cov"], v["lines"], 100.0 * v["lines_cov"] / max(1, v["lines"]), v["funcs_cov"], v["funcs"], " ".join(anch.get(rel, [])) or "-"))
w("| **total** | %d / %d | %.0f | %d / %d | |" % (tc, tl, 100.0 * tc / tl, tfc, tf))
noi = [r for r in files if r != "wire/unmarshal/iter.rs"]
a = sum(files[r]["lines_cov"] for r in noi); b = sum(files[r]["lines"] for r in noi)
w("| total without wire/unmarshal/iter.rs | %d / %d | %.0f | %d / %d | |" % (a, b, 100.0 * a / b, sum(files[r]["funcs_cov"] for r in noi), sum(files[r]["funcs"] for r in noi)))
w("")

w("\n## 3. Functions with ZERO executions (excluding wire/unmarshal/iter.rs)\n")
w("`name (file:line)` - judgement. Closures are listed under their enclosing function's file, in line order.\n")
for rel in sorted(files):
    if rel == "wire/unmarshal/iter.rs":
        continue
    z = [f for f in funcs if f["file"] == rel and f["count"] == 0]
    if not z:
        continue
    w("\n### %s (%d of %d functions never executed)%s\n" % (rel, len(z), files[rel]["funcs"], "  [anchored by %s]" % " ".join(anch[rel]) if rel in anch else ""))
    if ("file!:" + rel) in judge:
        w("All of them: " + judge["file!:" + rel] + "\n")
    for f in z:
        n = f["name"].replace("rustbus::", "", 1) if f["name"].startswith("rustbus::") else f["name"]
        w("- `%s` (%s:%d) - %s" % (n, rel, f["line"], J(f)))

w("\n## 4. Partially covered functions in anchored files: uncovered regions\n")
w("Only files named in `anchors.files` of properties.jsonl. A region is a maximal run of lines with execution count 0 inside a function that was executed at least once (never-executed closures inside an executed function show up here as well as in section 3).\n")
budget = [0]
for rel in sorted(files):
    if rel not in anch or rel == "wire/unmarshal/iter.rs":
        continue
    part = [f for f in funcs if f["file"] == rel and f["count"] > 0 and f["uncov"] and not f["closure"]]
    if not part:
        continue
    w("\n### %s  [%s]\n" % (rel, " ".join(anch[rel])))
    s = src(rel)
    for f in part:
        n = f["name"].replace("rustbus::", "", 1)
        w("**`%s`** (%s:%d-%d, executed %d times)\n" % (n, rel, f["line"], f["end"], f["count"]))
        for a, b in f["uncov"]:
            jt = J(f, (a, b))
            w("- lines %d-%d - %s" % (a, b, jt) if a != b else "- line %d - %s" % (a, jt))
            ex = s[a - 1:b]
            if len(ex) > 14:
                ex = ex[:8] + ["        ... (%d more lines)" % (len(ex) - 12)] + ex[-4:]
            w("  ```rust")
            for i, t in enumerate(ex):
                w("  " + t)
            w("  ```")
            budget[0] += len(ex)
w("\n## 5. Uncovered regions inside covered lines (mostly `?` error branches that never fire), anchored files\n")
w("From the region (segment) data of llvm-cov: the line was executed, the listed sub-expression never was. `?` = the error branch of that `?` operator.\n")
sub = json.load(open(os.path.join(OUT, "subline.json")))
SJ = judge.get("__sub__", {})
for rel in sorted(sub):
    if not sub[rel]:
        continue
    w("\n### %s  [%s]\n" % (rel, " ".join(anch.get(rel, []))))
    s = src(rel)
    byline = {}
    for l, c, t in sub[rel]:
        byline.setdefault(l, []).append(t)
    for l in sorted(byline):
        w("- %s:%d `%s` (uncovered: %s) - %s" % (rel, l, s[l - 1].strip()[:110], ", ".join("`%s`" % t[:40] for t in byline[l][:3]), SJ.get("%s:%d" % (rel, l), "TODO" if DRAFT else "unjudged")))
w("")
w(open("/verif/scratch/cov_tail.md").read() if os.path.exists("/verif/scratch/cov_tail.md") else "")
open(os.path.join(DST, "summary.md"), "w").write("\n".join(o) + "\n")
print("excerpt lines:", budget[0], "zero funcs:", sum(1 for f in funcs if f["count"] == 0 and f["file"] != "wire/unmarshal/iter.rs"),
      "unjudged:", sum(1 for l in o if l.endswith("TODO") or l.endswith("unjudged")))
