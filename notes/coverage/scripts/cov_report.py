#!/usr/bin/env python3
"""scratch: merge the profiles, export coverage, write intermediate JSON for the summary.
usage: cov_report.py  -> scratch/cov_out/{export.json, funcs.json, lines.json}"""
import glob
import json
import os
import re
import subprocess
import sys

VERIF = "/verif"
PROF = os.path.join(VERIF, "scratch", "cov_prof")
OUT = os.path.join(VERIF, "scratch", "cov_out")
os.makedirs(OUT, exist_ok=True)
sysroot = subprocess.check_output(["rustc", "+nightly", "--print", "sysroot"], text=True).strip()
BIN = glob.glob(os.path.join(sysroot, "lib/rustlib/*/bin"))[0]
PROFDATA = os.path.join(BIN, "llvm-profdata")
COV = os.path.join(BIN, "llvm-cov")
SRC = "/repo/rustbus/src/"

bins = sorted(set(l.strip() for l in open(os.path.join(PROF, "binaries.txt")) if l.strip()))
bins = [b for b in bins if os.path.exists(b)]
objargs = [bins[0]] + sum((["-object", b] for b in bins[1:]), [])


def merge(inputs, out):
    lst = out + ".list"
    open(lst, "w").write("\n".join(inputs) + "\n")
    subprocess.check_call([PROFDATA, "merge", "-sparse", "-j", "4", "-f", lst, "-o", out])
    os.remove(lst)


def export(profdata):
    p = subprocess.run([COV, "export", "-format=text", "-instr-profile=" + profdata, "-ignore-filename-regex=(\\.cargo|rustlib|/verif/|rustbus_derive)",
                        "-skip-expansions"] + objargs, stdout=subprocess.PIPE, stderr=subprocess.PIPE)
    if p.returncode != 0:
        sys.stderr.write(p.stderr.decode()[-3000:])
        raise SystemExit(1)
    return json.loads(p.stdout)["data"][0]


def func_key(f):
    r = f["regions"][0]
    return (f["filenames"][0], r[0], r[1])


checks = sorted(d for d in os.listdir(PROF) if re.fullmatch(r"C\d\d", d))
per_check = {}
allraw = []
for c in checks:
    raws = glob.glob(os.path.join(PROF, c, "*.profraw"))
    if not raws:
        per_check[c] = None
        continue
    allraw += raws
    pd = os.path.join(OUT, c + ".profdata")
    merge(raws, pd)
    data = export(pd)
    cov = {}
    for f in data["functions"]:
        k = func_key(f)
        if not k[0].startswith(SRC):
            continue
        cov[k] = cov.get(k, 0) + f["count"]
    files = {}
    for fl in data["files"]:
        if fl["filename"].startswith(SRC):
            files[fl["filename"][len(SRC):]] = fl["summary"]["lines"]["covered"]
    per_check[c] = {"nraw": len(raws), "funcs_hit": sorted("%s:%d:%d" % k for k, v in cov.items() if v > 0), "lines_by_file": files}
    print(c, len(raws), "profraw;", sum(1 for v in cov.values() if v > 0), "functions hit", flush=True)
json.dump(per_check, open(os.path.join(OUT, "per_check.json"), "w"))

total = os.path.join(OUT, "all.profdata")
merge([os.path.join(OUT, c + ".profdata") for c in checks if per_check[c]], total)
data = export(total)
json.dump(data, open(os.path.join(OUT, "export.json"), "w"))

# line level: llvm-cov show, merged over instantiations and objects
p = subprocess.run([COV, "show", "-instr-profile=" + total, "-show-instantiations=false", "-show-expansions=false", "-show-line-counts=true",
                    "-ignore-filename-regex=(\\.cargo|rustlib|/verif/|rustbus_derive)"] + objargs, stdout=subprocess.PIPE, stderr=subprocess.PIPE, text=True)
open(os.path.join(OUT, "show.txt"), "w").write(p.stdout)
print("done; binaries:", bins)
