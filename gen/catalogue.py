#!/usr/bin/env python3
"""Generates harness/src/catalogue.rs: a catalogue of concrete Rust types through which the
generic Marshal/Unmarshal/Signature impls of rustbus are instantiated (DESIGN.md section 3).
A catalogue type is named by its extended signature: D-Bus signature characters, with a variant
written v[<inner>] because the typed API needs the inner type statically, and with FLAVOUR markers (upper
case letters, never D-Bus type codes) that select another RUST type for the same D-Bus type - the D-Bus
signature, the model type and the value tokens are those of the unmarked name (lib/wiregen.parse_ext and
ocaml/wire/driver.ml parse_ety drop the markers):
  D  raw f64 (the element type with the `valid_slice` memcpy path; `d` is the wrapper F64 = general path)
  V[<t>]  a variant like v[<t>]; v takes alignment / sig_str / has_sig from the crate's marshal::traits::Variant<T>, V from
          unmarshal::traits::Variant (the harness wrappers delegate, they do not describe the variant themselves)
  H  descriptor written through <&dyn AsRawFd as Marshal>, read through UnixFd
  S  String written through &str and read through <&str as Unmarshal>      O  ObjectPath<&str>      G  SignatureWrapper<&str>
  aC<e>  read through Cow<[E]>, written through &[E]          aR<e>  written through <&[E] as Marshal> directly
  aN<e>  written through [E; N] (N = 0, 1, 2, 4, 5, 8; other lengths through the unsized [E]), read through Vec<E>
  aBy    written through &[u8], read through <&[u8] as Unmarshal> (Cursor::read_u8_slice)
Types that can only be marshalled (5-tuples: the crate has no Unmarshal impl) are a separate list,
gen/catalogue_m.txt / MARSHAL_ONLY / dispatch_m.
Run: python3 gen/catalogue.py   (deterministic; the output is committed). Then run python3 gen/c04_dispatch.py."""
import itertools, os

BASE = {"y": "u8", "b": "bool", "n": "i16", "q": "u16", "i": "i32", "u": "u32", "x": "i64", "t": "u64",
        "d": "F64", "h": "Fd", "s": "String", "o": "Path", "g": "Sig",
        "D": "f64", "S": "BStr", "O": "BPath", "G": "BSig", "H": "FdDyn"}
KEYS = "ybnqiuxtsoSO"        # hashable key types available in Rust (f64, UnixFd, SignatureWrapper are not Hash)
ARRAY_FLAVOUR = {"C": "CowA", "R": "SliceR", "N": "ArrN"}


def rust(t):
    """extended signature -> Rust type expression (harness wrapper types F64, Fd, Path, Sig, Var<T>)"""
    ty, rest = parse(t)
    assert rest == "", (t, rest)
    return ty


def parse(s):
    c = s[0]
    if c in BASE:
        return BASE[c], s[1:]
    if c == "a":
        if s[1] == "{":
            k = BASE[s[2]]
            v, rest = parse(s[3:])
            assert rest[0] == "}"
            return "HashMap<%s, %s>" % (k, v), rest[1:]
        if s[1] == "B":
            assert s[2] == "y", s
            return "BBytes", s[3:]
        if s[1] in ARRAY_FLAVOUR:
            e, rest = parse(s[2:])
            return "%s<%s>" % (ARRAY_FLAVOUR[s[1]], e), rest
        e, rest = parse(s[1:])
        return "Vec<%s>" % e, rest
    if c == "(":
        parts = []
        rest = s[1:]
        while rest[0] != ")":
            p, rest = parse(rest)
            parts.append(p)
        return "(%s,)" % ", ".join(parts), rest[1:]
    if c in "vV":
        assert s[1] == "["
        inner, rest = parse(s[2:])
        assert rest[0] == "]"
        return "%s<%s>" % ("Var" if c == "v" else "UVar", inner), rest[1:]
    raise ValueError(s)


def catalogue():
    out = []
    bases = list(BASE)
    small = ["y", "u", "t", "s", "b"]            # reduced base set for depth 2
    out += bases
    # depth 1 over all bases
    out += ["a" + b for b in bases]
    out += ["v[%s]" % b for b in bases]
    out += ["(%s)" % b for b in bases]
    out += ["a{%s%s}" % (k, v) for k in KEYS for v in ["y", "t", "s"]]
    out += ["a{s%s}" % v for v in bases]
    out += ["(%s%s)" % (a, b) for a in small for b in small]
    out += ["(ytq)", "(yust)", "(tyy)", "(syt)", "(bybt)", "(hsh)", "(dyd)", "(nxq)", "(ogs)"]
    # depth 2: every (outer, inner) constructor pair over the reduced base set
    inner = (["a" + b for b in small] + ["v[%s]" % b for b in ["y", "t", "s"]] + ["(%s)" % b for b in ["y", "t", "s"]]
             + ["(yt)", "(ty)", "(su)", "a{sy}", "a{yt}", "a{us}"])
    for i in inner:
        out.append("a" + i)
        out.append("v[%s]" % i)
        out.append("(%s)" % i)
        out.append("(y%s)" % i)
        out.append("(%sy)" % i)
        out.append("a{s%s}" % i)
        out.append("a{y%s}" % i)
    # depth 3/4 chosen so that every (outer constructor, inner constructor, inner alignment) triple occurs
    out += ["aaat", "aa(yt)", "a(ya(yt))", "aa{sat}", "a{sa{sat}}", "v[a(yv[t])]", "a(yv[at])", "(y(y(yt)))", "a{s(yat)}",
            "aav[t]", "a{yav[s]}", "(yaay)", "a(ys)", "aas", "aa(s)", "(ya{s(ty)}y)", "a(hy)", "a{sh}", "v[a{sv[u]}]",
            "a{sv[s]}", "a{sv[a{sv[y]}]}", "(sa{sv[u]})", "a(oa{sa{sv[t]}})", "aad", "a(ddy)", "a{o(ba{sv[y]})}",
            "aag", "a(gy)", "v[g]", "v[(yg)]", "a{sg}", "(nqiuxt)"[:6] + ")"]
    # tuples whose k-th member has a larger alignment than the (k+1)-th and a variable length, for every arity and
    # every position: a reader that aligns the next member with the wrong member's alignment shows only here
    var_len = ["s", "ay", "aq", "o", "a(yy)", "v[s]", "a{sy}"]
    small_next = ["y", "q", "g", "v[y]", "n"]
    k = 0
    for x in var_len:
        for y in small_next:
            k += 1
            if k % 2:
                out.append("(%s%s)" % (x, y))
            out.append("(y%s%s)" % (x, y) if k % 3 else "(%s%sy)" % (x, y))
            out.append("(yy%s%s)" % (x, y) if k % 2 else "(y%s%sq)" % (x, y))
    out += ["(sysy)", "(ayqay)", "(tsyq)", "(yqsy)", "(gsyy)", "(ysgy)", "a(tt)", "a{ss}"]
    out += flavoured()
    # drop ones our wrapper set cannot express, dedupe, keep order
    seen, res = set(), []
    for t in out:
        try:
            rust(t)
        except Exception:
            continue
        if t.count("(") and any(len(split_struct(x)) > 4 for x in structs(t)):
            continue
        if t not in seen:
            seen.add(t)
            res.append(t)
    return res


def flavoured():
    """the Rust impls that the plain names (array = Vec<_>, d = wrapper, s = String) never instantiate; every one
    occurs at least once next to a member whose alignment differs, inside each other container kind"""
    out = []
    # raw f64: Vec<f64> / [f64] take the valid_slice memcpy path in the native byte order only
    out += ["D", "aD", "aaD", "(yD)", "(DyD)", "a(yD)", "a{sD}", "v[D]", "v[aD]", "(yaD)", "a{yaD}", "(aDy)"]
    # Cow<[E]>: fast path for the fixed-width element types (borrowed when the memory is aligned), general path otherwise
    out += ["aC" + e for e in ["y", "n", "q", "i", "u", "x", "t", "D", "d", "b", "s", "o", "(yt)", "at", "aCt", "v[t]", "a{sy}"]]
    out += ["aaCt", "(yaCt)", "(yaCq)", "(aCqy)", "(yaCDy)", "a{saCt}", "a{yaCn}", "v[aCt]", "v[aCy]", "a(yaCn)", "(aCyaCt)", "aaCq"]
    # [E; N] / [E] marshal entry points and the Signature impls of [E; N], [E]
    out += ["aN" + e for e in ["y", "q", "t", "D", "s", "b", "(yt)", "aNt", "aNs", "v[y]", "a{us}"]]
    out += ["(yaNt)", "(yaNq)", "(aNyq)", "a{saNy}", "v[aNu]", "a(yaNq)", "aaNt"]
    # <&[E] as Marshal> called directly and the Signature impl of &[E]
    out += ["aR" + e for e in ["y", "q", "t", "D", "s", "(yt)", "aRt", "v[s]"]]
    out += ["(yaRt)", "(aRqy)", "a{saRt}", "v[aRq]"]
    # <&[u8] as Unmarshal> (Cursor::read_u8_slice)
    out += ["aBy", "(yaBy)", "(aByy)", "(taBy)", "(yaByq)", "(aByt)", "aaBy", "a{saBy}", "v[aBy]", "a(aByn)"]
    # <&str as Unmarshal>, ObjectPath<&str>, SignatureWrapper<&str>
    out += ["S", "aS", "(yS)", "(Sy)", "(ySq)", "(SyS)", "a{St}", "a{sS}", "a{SS}", "v[S]", "aaS", "a(Sy)", "aCS", "aNS"]
    # variants whose Signature impl is the one of unmarshal::traits::Variant, where alignment matters (element / member position)
    out += ["V[y]", "V[t]", "V[s]", "aV[t]", "aV[s]", "aV[y]", "(yV[t])", "(V[t]y)", "(yV[s]q)", "(tV[y]t)", "a{sV[t]}", "a{yV[s]}", "a(yV[at])",
            "aCV[t]", "aNV[s]", "V[V[y]]", "v[V[t]]", "V[v[t]]", "V[a(yt)]", "aaV[t]"]
    out += ["H", "aH", "(yH)", "(Hy)", "(yHq)", "a{sH}", "(HsH)", "a(yH)"]
    out += ["O", "G", "aO", "aG", "(yO)", "(Gy)", "(yGq)", "(Oyt)", "a{sO}", "a{Oy}", "a{sG}", "v[O]", "v[G]", "a(Gy)"]
    return out


def marshal_only():
    """types with a Marshal but no Unmarshal impl: the 5-tuple (and containers of it)"""
    out = ["(nqiux)", "(yqsyt)", "(ytyty)", "(sysys)", "(tyyyq)", "(ayqayyt)", "(ysgyD)", "(yv[y]tyv[s])", "(bhysh)", "(yyyyy)",
           "a(yqsyt)", "(y(yqsyt))", "((ytyty)y)", "v[(ybqut)]", "a{s(yqiut)}", "aN(ysysy)", "aR(tyqyt)"]
    for t in out:
        rust(t)
        assert all(len(split_struct(x)) <= 5 for x in structs(t)) and any(len(split_struct(x)) == 5 for x in structs(t)), t
    # Rust types whose signature the protocol forbids or just allows, inside a typed variant (Marshal::marshal_as_variant has to
    # check what it writes) and bare: 255 / 256 / 320 characters, 32 / 33 nested arrays
    for n in (255, 256, 320):
        out += ["v[%s]" % sized_struct(n), "(yv[%s])" % sized_struct(n - 0)]
    out += ["v[%s]" % ("a" * 32 + "y"), "v[%s]" % ("a" * 33 + "y"), "av[%s]" % ("a" * 33 + "t"), "v[(y%s)]" % ("a" * 33 + "y")]
    return out


def sized_struct(n):
    """a struct type of bytes whose signature has exactly n characters (members: y or such structs, at most 5 each)"""
    assert n >= 3
    if n <= 7:
        return "(" + "y" * (n - 2) + ")"
    inner = n - 2
    for k in (5, 4, 3, 2):
        # k members: as many single bytes as needed so that the rest splits into sizes >= 3
        for ones in range(k):
            big = k - ones
            rest = inner - ones
            if big and rest >= 3 * big:
                sizes = [rest // big + (1 if i < rest % big else 0) for i in range(big)]
                return "(" + "y" * ones + "".join(sized_struct(x) for x in sizes) + ")"
    raise ValueError(n)


def deep():
    """legal types nested up to the limits (32 arrays, 32 structs in a signature; 64 containers in a message). They are
    dispatched by catalogue.rs but kept out of catalogue.txt: only the big streams of C01/C02/C03 use them."""
    return ["a" * 32 + "t", "(" * 32 + "t" + ")" * 32, "a(" * 32 + "y" + ")" * 32, "v[" * 64 + "y" + "]" * 64,
            "v[" * 62 + "a(y)" + "]" * 62, "a{s" * 20 + "y" + "}" * 20, "aC" * 16 + "aN" * 16 + "t", "(y" * 31 + "(yt)" + ")" * 31]


def structs(t):
    """all struct bodies occurring in t"""
    res = []
    stack = []
    for i, c in enumerate(t):
        if c == "(":
            stack.append(i)
        elif c == ")":
            j = stack.pop()
            res.append(t[j + 1:i])
    return res


def split_struct(body):
    parts = []
    rest = body
    while rest:
        _, r2 = parse(rest)
        parts.append(rest[:len(rest) - len(r2)])
        rest = r2
    return parts


def main():
    cat = catalogue()
    mo = marshal_only()
    assert not set(mo) & set(cat)
    here = os.path.dirname(os.path.dirname(os.path.abspath(__file__)))
    lines = ["// GENERATED by gen/catalogue.py - do not edit", "#![allow(clippy::all)]",
             "use crate::wirelib::*;", "use std::collections::HashMap;", "",
             "pub const CATALOGUE: &[&str] = &["]
    for t in cat:
        lines.append('    "%s",' % t)
    lines.append("];")
    lines.append("")
    lines.append("pub fn dispatch(ty: &str, op: &str, args: &mut Args) -> String {")
    lines.append("    match ty {")
    for t in cat:
        lines.append('        "%s" => run::<%s>(op, args),' % (t, rust(t)))
    lines.append('        _ => dispatch_m(ty, op, args),')
    lines.append("    }")
    lines.append("}")
    lines.append("")
    lines.append("/// types with a Marshal impl only (5-tuples): MT, and RT up to the marshalled body (see wirelib::run_m)")
    lines.append("pub const MARSHAL_ONLY: &[&str] = &[")
    for t in mo:
        lines.append('    "%s",' % t)
    lines.append("];")
    lines.append("")
    lines.append("pub fn dispatch_m(ty: &str, op: &str, args: &mut Args) -> String {")
    lines.append("    match ty {")
    for t in mo:
        lines.append('        "%s" => run_m::<%s>(op, args),' % (t, rust(t)))
    lines.append('        _ => dispatch_deep(ty, op, args),')
    lines.append("    }")
    lines.append("}")
    lines.append("")
    lines.append("/// legal types nested up to the limits; not part of CATALOGUE (gen/catalogue_deep.txt)")
    lines.append("pub fn dispatch_deep(ty: &str, op: &str, args: &mut Args) -> String {")
    lines.append("    match ty {")
    for t in deep():
        lines.append('        "%s" => run::<%s>(op, args),' % (t, rust(t)))
    lines.append('        _ => "NOTYPE".to_string(),')
    lines.append("    }")
    lines.append("}")
    open(os.path.join(here, "gen", "catalogue_deep.txt"), "w").write("\n".join(deep()) + "\n")
    open(os.path.join(here, "gen", "catalogue_m.txt"), "w").write("\n".join(mo) + "\n")
    open(os.path.join(here, "harness", "src", "catalogue.rs"), "w").write("\n".join(lines) + "\n")
    open(os.path.join(here, "gen", "catalogue.txt"), "w").write("\n".join(cat) + "\n")
    print(len(cat), "catalogue types,", len(mo), "marshal-only types")


if __name__ == "__main__":
    main()
