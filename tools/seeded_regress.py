#!/usr/bin/env python3
"""Re-run every seeded change against the quick check of its property at the current /repo HEAD.
   tools/seeded_regress.py [-j N] [--resume log] [--match a,b] [Cxx ...]     writes scratch/seeded_regress.json and prints a summary.
   For each seeded/<Cxx>-<name>/patch.diff: scratch worktree of /repo under /tmp, git apply, ./check Cxx quick with
   VERIF_REPO (VERIF_SKIP_PROOF=1: the proofs do not depend on the checkout), expects exit 1 + VIOLATION; the worktree
   and the shadow harness are removed afterwards."""
import concurrent.futures as cf, glob, hashlib, json, os, shutil, subprocess, sys, time
V = os.path.dirname(os.path.dirname(os.path.abspath(__file__)))
args = sys.argv[1:]
J = 5
if args and args[0] == "-j":
    J = int(args[1]); args = args[2:]
dirs = sorted(d for d in glob.glob(os.path.join(V, "seeded", "*")) if os.path.exists(os.path.join(d, "patch.diff")))
skip = set()
if args and args[0] == "--resume":
    skip = {l.split(" ")[0] for l in open(args[1]) if " detected " in l or " MISSED " in l}
    args = args[2:]
if args and args[0] == "--match":          # only seeded directories whose name contains one of the comma-separated substrings
    pats = args[1].split(","); args = args[2:]
    dirs = [d for d in dirs if any(x in os.path.basename(d) for x in pats)]
if args:
    dirs = [d for d in dirs if os.path.basename(d).split("-")[0] in args]
dirs = [d for d in dirs if os.path.basename(d) not in skip]

def one(d):
    name = os.path.basename(d)
    prop = name.split("-")[0]
    wt = "/tmp/sreg_" + name
    t = time.time()
    subprocess.run(["git", "-C", "/repo", "worktree", "remove", "--force", wt], capture_output=True)
    r = subprocess.run(["git", "-C", "/repo", "worktree", "add", "-q", wt, "HEAD"], capture_output=True, text=True)
    res = {"name": name, "property": prop}
    try:
        if r.returncode != 0:
            res["status"] = "worktree-failed"; return res
        a = subprocess.run(["git", "-C", wt, "apply", os.path.join(d, "patch.diff")], capture_output=True, text=True)
        if a.returncode != 0:
            res["status"] = "patch-does-not-apply"; return res
        env = dict(os.environ, VERIF_REPO=wt, VERIF_EVIDENCE_DIR=wt + "_ev", VERIF_SKIP_PROOF="1", CARGO_NET_OFFLINE="true")
        try:
            c = subprocess.run(["./check", prop, "quick"], cwd=V, env=env, capture_output=True, text=True, timeout=3600)
            viol = [l for l in c.stdout.split("\n") if l.startswith("VIOLATION")]
            res["rc"] = c.returncode
            res["violations"] = len(viol)
            res["no_failing_input"] = bool(viol) and all("no-failing-input-found" in l for l in viol)
            res["status"] = "detected" if (c.returncode != 0 and viol) else "MISSED"
        except subprocess.TimeoutExpired:
            res["status"] = "timeout"
    finally:
        subprocess.run(["git", "-C", "/repo", "worktree", "remove", "--force", wt], capture_output=True)
        shutil.rmtree(wt + "_ev", ignore_errors=True)
        tag = hashlib.blake2b(os.path.realpath(wt).encode(), digest_size=5).hexdigest()
        shutil.rmtree(os.path.join(V, "scratch", "harness_" + tag), ignore_errors=True)
        res["seconds"] = int(time.time() - t)
    return res

out = []
with cf.ThreadPoolExecutor(J) as ex:
    for r in ex.map(one, dirs):
        out.append(r)
        print(r["name"], r["status"], r.get("violations"), "nfi" if r.get("no_failing_input") else "", r.get("seconds"), flush=True)
json.dump(out, open(os.path.join(V, "scratch", "seeded_regress.json"), "w"), indent=1)
from collections import Counter
print(Counter(r["status"] for r in out))
