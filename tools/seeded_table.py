#!/usr/bin/env python3
"""Regenerate the section of DESIGN.md that lists the seeded changes and which check catches them
(from seeded/*/meta.json).  Usage: tools/seeded_table.py  (rewrites between the two markers)."""
import glob, json, os
HERE = os.path.dirname(os.path.dirname(os.path.abspath(__file__)))
rows = []
for d in sorted(glob.glob(os.path.join(HERE, "seeded", "*"))):
    mp = os.path.join(d, "meta.json")
    if not os.path.exists(mp):
        continue
    try:
        m = json.load(open(mp))
    except Exception:
        continue
    name = os.path.basename(d)
    prop = m.get("property", name.split("-")[0])
    origin = "independent" if "independent" in str(m.get("origin", "")) else "builder"
    what = str(m.get("summary") or m.get("what") or m.get("description") or m.get("needs") or "")[:150].replace("|", "/").replace("\n", " ")
    det = m.get("detected_by") or m.get("detected") or ""
    det = str(det)[:120].replace("|", "/").replace("\n", " ")
    rows.append((prop, name, origin, what, det))
lines = ["| Property | Seeded change | Origin | What it does / needs | Reported by `./check <prop> quick` as |", "|---|---|---|---|---|"]
for r in rows:
    lines.append("| %s | `%s` | %s | %s | %s |" % r)
table = "\n".join(lines)
p = os.path.join(HERE, "DESIGN.md")
s = open(p).read()
b, e = "<!-- SEEDED-TABLE-BEGIN -->", "<!-- SEEDED-TABLE-END -->"
if b in s:
    s = s[:s.index(b) + len(b)] + "\n" + table + "\n" + s[s.index(e):]
else:
    s += "\n## 16. Seeded changes and which checks catch them\n\nEach directory under `seeded/` holds `patch.diff`, (for independent ones) the demonstration `demo.rs`, and `meta.json`.\n\"independent\" = written by a fresh sub-agent that saw only the property text and its own checkout of /repo, confirmed by\n`tools/try_seed.py` (demo passes unchanged, suite passes with the patch, demo fails with the patch) before the check was run\nagainst it; \"builder\" = written by the engineer of the check while testing it. %d changes in total.\n\n%s\n%s\n%s\n" % (len(rows), b, table, e)
open(p, "w").write(s)
print(len(rows), "seeded changes")
