#!/usr/bin/env python3
"""Which seeded/*/patch.diff still apply to /repo HEAD?  (git apply --check in /repo, read-only)
   tools/seeded_apply_check.py [--fix]   --fix tries `patch -p1 --fuzz=3` in a scratch worktree and rewrites patch.diff
   with the refreshed diff when that succeeds and the crate still builds."""
import glob, os, subprocess, sys, shutil
V = os.path.dirname(os.path.dirname(os.path.abspath(__file__)))
fix = "--fix" in sys.argv
bad = []
for d in sorted(glob.glob(os.path.join(V, "seeded", "*"))):
    p = os.path.join(d, "patch.diff")
    if not os.path.exists(p):
        continue
    r = subprocess.run(["git", "-C", "/repo", "apply", "--check", p], capture_output=True, text=True)
    if r.returncode != 0:
        bad.append(d)
print("%d seeded patches do not apply to /repo HEAD" % len(bad))
for d in bad:
    print("  ", os.path.basename(d))
if fix and bad:
    wt = "/tmp/seeded_fix_wt"
    subprocess.run(["git", "-C", "/repo", "worktree", "remove", "--force", wt], capture_output=True)
    subprocess.run(["git", "-C", "/repo", "worktree", "add", "-q", wt, "HEAD"], check=True)
    try:
        for d in bad:
            subprocess.run(["git", "-C", wt, "checkout", "-q", "--", "."], check=True)
            subprocess.run(["git", "-C", wt, "clean", "-fdq"], check=True)
            r = subprocess.run(["patch", "-p1", "--fuzz=3", "--no-backup-if-mismatch", "-i", os.path.join(d, "patch.diff")], cwd=wt, capture_output=True, text=True)
            rej = subprocess.run("find . -name '*.rej' -o -name '*.orig' | grep -v target", cwd=wt, shell=True, capture_output=True, text=True).stdout.strip()
            if r.returncode != 0 or rej:
                print("   CANNOT refresh", os.path.basename(d), r.stdout[-200:])
                continue
            diff = subprocess.run(["git", "-C", wt, "diff"], capture_output=True, text=True).stdout
            b = subprocess.run("cargo build --offline --workspace 2>&1 | tail -3", cwd=wt, shell=True, capture_output=True, text=True, env=dict(os.environ, CARGO_NET_OFFLINE="true", CARGO_TARGET_DIR="/tmp/seeded_fix_target"))
            if "error" in b.stdout:
                print("   refreshed patch does not build:", os.path.basename(d))
                continue
            open(os.path.join(d, "patch.diff"), "w").write(diff)
            print("   refreshed", os.path.basename(d))
    finally:
        subprocess.run(["git", "-C", "/repo", "worktree", "remove", "--force", wt], capture_output=True)
        shutil.rmtree("/tmp/seeded_fix_target", ignore_errors=True)
