#!/bin/sh
# tools/seed_one.sh <seeded dir name> : run the property's quick check against one seeded change (scratch worktree, removed afterwards)
N=$1; P=${N%%-*}; WT=/tmp/sone_$N
git -C /repo worktree remove --force $WT >/dev/null 2>&1
git -C /repo worktree add -q $WT HEAD || exit 2
git -C $WT apply /verif/seeded/$N/patch.diff || { git -C /repo worktree remove --force $WT; exit 2; }
cd /verif; VERIF_REPO=$WT VERIF_EVIDENCE_DIR=${WT}_ev VERIF_SKIP_PROOF=1 ./check $P quick 2>&1 | grep -E "^VIOLATION|^KNOWN|exit|Traceback" | head -5
echo "rc-of-grep=$?"
TAG=$(python3 -c "import hashlib,os;print(hashlib.blake2b(os.path.realpath('$WT').encode(),digest_size=5).hexdigest())")
git -C /repo worktree remove --force $WT; rm -rf ${WT}_ev /verif/scratch/harness_$TAG
