#!/usr/bin/env python3
"""Confirm an independently written seeded change and run our check against it.

    tools/try_seed.py <Cxx> <dir with patch.diff, demo.rs, meta.json> [name]

Steps (all in a scratch worktree of /repo under /tmp, removed afterwards):
 1. demo passes on the unchanged checkout,
 2. patch applies and the crate builds, the ENTIRE existing suite still passes,
 3. demo fails with the patch,
 4. ./check Cxx quick with VERIF_REPO pointing at the patched checkout: VIOLATION expected.
Writes /verif/seeded/<Cxx>-<name>/{patch.diff,demo.rs,meta.json} when 1-3 hold (kept whether or not step 4
detects it: meta.json records "detected": true/false and by what)."""
import hashlib
import json
import os
import shutil
import subprocess
import sys

VERIF = os.path.dirname(os.path.dirname(os.path.abspath(__file__)))
ENV = dict(os.environ, CARGO_NET_OFFLINE="true")


def sh(cmd, cwd=None, timeout=1800, env=None):
    e = dict(ENV)
    if env:
        e.update(env)
    p = subprocess.run(cmd, cwd=cwd, shell=isinstance(cmd, str), stdout=subprocess.PIPE, stderr=subprocess.STDOUT, text=True, timeout=timeout, env=e)
    return p.returncode, p.stdout


def main():
    prop, src = sys.argv[1], sys.argv[2]
    name = sys.argv[3] if len(sys.argv) > 3 else "ext-" + os.path.basename(os.path.normpath(src))
    wt = "/tmp/tryseed_%s_%s" % (prop, name)
    sh("git -C /repo worktree remove --force %s" % wt)
    rc, out = sh("git -C /repo worktree add %s HEAD" % wt)
    if rc != 0:
        print(out)
        return 2
    ran = []
    result = {"property": prop, "name": name}
    try:
        demo = os.path.join(src, "demo.rs")
        has_demo = os.path.exists(demo)
        crate = "rustbus"
        try:
            crate = json.load(open(os.path.join(src, "meta.json"))).get("demo_crate", "rustbus")
        except Exception:
            pass
        if has_demo:
            os.makedirs(os.path.join(wt, crate, "tests"), exist_ok=True)
            shutil.copy(demo, os.path.join(wt, crate, "tests", "demo.rs"))
            rc, out = sh("cargo test --offline -p %s --test demo 2>&1 | tail -15" % crate, cwd=wt)
            ok_before = "test result: ok" in out
            ran.append("demo on unchanged checkout: %s" % ("passes" if ok_before else "FAILS"))
            result["demo_passes_unchanged"] = ok_before
            os.remove(os.path.join(wt, crate, "tests", "demo.rs"))
        rc, out = sh("git apply %s" % os.path.join(src, "patch.diff"), cwd=wt)
        if rc != 0:
            print("patch does not apply:\n" + out)
            result["applies"] = False
            print(json.dumps(result))
            return 1
        rc, out = sh("cargo test --workspace --offline 2>&1 | grep -E 'test result|FAILED|error(\\[|:)' | head -20", cwd=wt)
        suite_ok = "FAILED" not in out and "error" not in out and "test result: ok" in out
        ran.append("cargo test --workspace --offline with the patch: %s" % ("all pass" if suite_ok else "FAILS: " + out[-300:]))
        result["suite_passes_with_patch"] = suite_ok
        if has_demo:
            shutil.copy(demo, os.path.join(wt, crate, "tests", "demo.rs"))
            rc, out = sh("cargo test --offline -p %s --test demo 2>&1 | tail -15" % crate, cwd=wt)
            fails_after = "test result: FAILED" in out or "panicked" in out or "error" in out
            ran.append("demo with the patch: %s" % ("fails" if fails_after else "still passes"))
            result["demo_fails_with_patch"] = fails_after
            os.remove(os.path.join(wt, crate, "tests", "demo.rs"))
        evd = wt + "_ev"
        rc, out = sh("./check %s quick" % prop, cwd=VERIF, env={"VERIF_REPO": wt, "VERIF_EVIDENCE_DIR": evd}, timeout=3000)
        viol = [l for l in out.split("\n") if l.startswith("VIOLATION")]
        result["detected"] = bool(viol) and rc != 0
        result["check_output"] = viol[:3]
        ran.append("VERIF_REPO=%s ./check %s quick -> exit %d, %d VIOLATION lines" % (wt, prop, rc, len(viol)))
        shutil.rmtree(evd, ignore_errors=True)
        if viol:
            replay = viol[0].split("replay=")[1].split()[0]
            try:
                result["first_replay_what"] = json.load(open(os.path.join(VERIF, replay)))["what"]
            except Exception:
                pass
        # keep it
        qualifies = result.get("suite_passes_with_patch") and (not has_demo or (result.get("demo_passes_unchanged") and result.get("demo_fails_with_patch")))
        result["qualifies"] = bool(qualifies)
        if qualifies:
            dst = os.path.join(VERIF, "seeded", "%s-%s" % (prop, name))
            os.makedirs(dst, exist_ok=True)
            shutil.copy(os.path.join(src, "patch.diff"), dst)
            if has_demo:
                shutil.copy(demo, dst)
            meta = {}
            if os.path.exists(os.path.join(src, "meta.json")):
                try:
                    meta = json.load(open(os.path.join(src, "meta.json")))
                except Exception:
                    meta = {}
            meta.update({"property": prop, "origin": "independent sub-agent (saw only the property text and its own checkout)",
                         "confirmed_by_lead": ran, "detected": result["detected"],
                         "detected_by": result.get("first_replay_what", "") if result["detected"] else "NOT DETECTED by ./check %s quick" % prop})
            json.dump(meta, open(os.path.join(dst, "meta.json"), "w"), indent=1)
        print(json.dumps(result, indent=1))
    finally:
        sh("git -C /repo worktree remove --force %s" % wt)
        tag = hashlib.blake2b(os.path.realpath(wt).encode(), digest_size=5).hexdigest()
        shutil.rmtree(os.path.join(VERIF, "scratch", "harness_" + tag), ignore_errors=True)
    return 0


if __name__ == "__main__":
    sys.exit(main())
