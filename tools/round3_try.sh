#!/bin/sh
# tools/round3_try.sh Cxx : confirm the two independent changes of seeding round 3 for a property and run the check against them
P=$1
for n in 1 2; do
  k=$((n+4))
  python3 /verif/tools/try_seed.py $P /tmp/seed_${P}_out/$n ext$k > /verif/scratch/round3_${P}_ext$k.json 2>&1
done
git -C /repo worktree remove --force /tmp/seed_$P 2>/dev/null
rm -rf /tmp/seed_$P
grep -H '"detected"\|"qualifies"' /verif/scratch/round3_${P}_ext*.json
