#!/bin/sh
# run the thorough tier of every check once, sequentially; log to scratch/thorough_<id>.log
cd "$(dirname "$0")/.."
for p in $(python3 -c "import json;print(' '.join(c['property_id'] for c in json.load(open('MANIFEST.json'))['checks']))"); do
  s=$(date +%s)
  ./check $p thorough > scratch/thorough_$p.log 2>&1
  rc=$?
  echo "$p rc=$rc $(( $(date +%s) - s ))s $(grep -c '^VIOLATION' scratch/thorough_$p.log) violations"
done
