#!/usr/bin/env python3
"""Regenerate MANIFEST.json from manifest.d/*.json (one fragment per claimed property) and
manifest.d/_not_applicable.json."""
import glob, json, os
HERE = os.path.dirname(os.path.dirname(os.path.abspath(__file__)))
checks = []
for f in sorted(glob.glob(os.path.join(HERE, "manifest.d", "C*.json"))):
    c = json.load(open(f))
    pid = c["property_id"]
    c.setdefault("quick_cmd", "./check %s quick" % pid)
    c.setdefault("thorough_cmd", "./check %s thorough" % pid)
    c.setdefault("evidence_file", "evidence/%s.json" % pid)
    c.setdefault("replay_cmd_template", "./check replay {path}")
    c.setdefault("engine", "coq+correspondence")
    checks.append(c)
claimed = {c["property_id"] for c in checks}
props = [json.loads(l)["id"] for l in open(os.path.join(HERE, "properties.jsonl"))]
na_path = os.path.join(HERE, "manifest.d", "_not_applicable.json")
na = json.load(open(na_path)) if os.path.exists(na_path) else {}
not_applicable = []
for p in props:
    if p not in claimed:
        not_applicable.append({"property_id": p, "reason": na.get(p, "not yet claimed: the model, theorems and correspondence check for this property are still being built (see DESIGN.md section 8 for the plan)")})
m = {
    "version": 1,
    "setup_cmd": "./setup.sh",
    "hooks": {
        "guard": "verif_hooks",
        "enable": "cargo feature verif_hooks of the rustbus crate (harness: cargo build --features verif_hooks)",
        "baseline_off_cmd": "cd /repo && cargo test --workspace --no-fail-fast --offline",
        "source_commits": json.load(open(os.path.join(HERE, "manifest.d", "_hooks.json")))["source_commits"] if os.path.exists(os.path.join(HERE, "manifest.d", "_hooks.json")) else [],
        "add_only": True,
    },
    "engines": [
        {"name": "coq+correspondence", "path": "check",
         "serves_properties": sorted(claimed),
         "kind_free_text": "Coq 8.16.1 theorems over a hand-written Gallina model of the Rust code (coq/), tied to /repo on every run by a differential correspondence check: the model (vm_compute inside coqc, or extracted OCaml) and the implementation compiled from /repo's working tree (harness/) run on the same generated inputs"}
    ],
    "checks": checks,
    "not_applicable": not_applicable,
    "notes": "See DESIGN.md. Every check: (1) builds Properties/Cxx.vo and audits axioms, (2) builds the harness against /repo's working tree, (3) runs model and implementation on the same inputs, (4) searches for a failing input when either breaks.",
}
json.dump(m, open(os.path.join(HERE, "MANIFEST.json"), "w"), indent=1)
print("MANIFEST.json: %d checks, %d not_applicable" % (len(checks), len(not_applicable)))
