#!/usr/bin/env python3
"""Run the quick tier of every (or the named) check with several seeds; report non-zero exits / VIOLATION lines.
   tools/soak.py <first seed> <last seed> [Cxx ...]      (evidence goes to scratch/soak_ev, not evidence/)"""
import json, os, subprocess, sys, time
V = os.path.dirname(os.path.dirname(os.path.abspath(__file__)))
a, b = int(sys.argv[1]), int(sys.argv[2])
props = sys.argv[3:] or [c["property_id"] for c in json.load(open(os.path.join(V, "MANIFEST.json")))["checks"]]
bad = []
for seed in range(a, b + 1):
    for p in props:
        t = time.time()
        env = dict(os.environ, VERIF_SEED=str(seed), VERIF_EVIDENCE_DIR=os.path.join(V, "scratch", "soak_ev"), VERIF_TIER="quick")
        r = subprocess.run(["./check", p, "quick"], cwd=V, env=env, stdout=subprocess.PIPE, stderr=subprocess.STDOUT, text=True)
        v = [l for l in r.stdout.split("\n") if l.startswith("VIOLATION")]
        print("seed %d %s rc=%d %ds %s" % (seed, p, r.returncode, time.time() - t, v[:1]), flush=True)
        if r.returncode != 0 or v:
            bad.append((seed, p, r.stdout[-1500:]))
print("BAD:", len(bad))
for s, p, o in bad:
    print("=====", s, p); print(o)
