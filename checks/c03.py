"""C03 - decoders accept exactly the valid encodings and return the encoded value.

Three decoders of the real crate (raw validation VR, dynamic Param decoder UP, typed decoder UT through the
catalogue types) run on (1) valid encodings produced by the extracted SPECIFICATION encoder, (2) single-fault
corruptions of those, (3) random bytes under catalogue signatures; at offsets 0..15, both byte orders.
Verdicts are justified by the extracted specification directly (never by the decoder models):
  * accepted  => the bytes consumed equal spec_enc of the returned value and the value is encodable
  * a valid encoding (stream 1, or a corrupted input that the model decodes to a value whose spec encoding is
    exactly the input slice) => accepted by all three decoders with that value and length
  * the three decoders agree (typed may additionally refuse a variant whose content type differs from the Rust type)
The decoder models (coq/Wire/Decode.v, Unmarshal.v) are compared on every case as the tie for the theorems.
"""
import os

import vlib
import wiregen as wg
from checks.c02 import fields


def split_res(line):
    """'ok <n> <tokens...>' / 'ok <n>' / 'err' / other"""
    parts = line.split(" ")
    if parts and parts[-1].startswith("#"):          # "#cow=b<n>o<m>": informational note of the harness, not part of the value
        parts = parts[:-1]
    if parts[0] == "ok":
        return "ok", int(parts[1]), " ".join(parts[2:])
    return parts[0], None, ""


def run(ctx):
    thorough = ctx.tier == "thorough"
    ctx.rule = ("case = (decoder VR|UP|UT, byte order, offset 0..15, signature / catalogue type, bytes); bytes are valid "
                "encodings from the specification encoder, single-fault corruptions of them (non-zero padding, lengths +-k, "
                "booleans, terminators, UTF-8, truncation at many positions, extension) or random; non-trivial = the type has a "
                "container or a text leaf, or the input is a corruption; distinct = distinct case lines")
    ctx.trusted = ["Coq 8.16.1 kernel", "extraction (ExtrOcamlBasic only) + ocaml/wire/driver.ml", "harness wire binary and catalogue",
                   "Wire/SpecEnc.v as my reading of the D-Bus wire format"]
    ctx.assumptions = ["usize 64 bit, native little endian", "typed decoder exercised through the 271 catalogue types"]
    if not os.environ.get("VERIF_SKIP_PROOF"):
        ctx.try_proof()
    exe = vlib.harness_build(["wire"])["wire"]
    vlib.coq_make(["Wire/Ops.vo"])
    drv = vlib.ocaml_build("wire")
    r = ctx.sub_rng("c03")
    cat = wg.catalogue()
    per_type = 10 if thorough else 2

    # ---- step 1: values -> specification bytes
    vals = []
    for ty in cat:
        t = wg.parse_ext(ty)
        if wg.count_leaves(t, "h"):
            nf = 3
        else:
            nf = 0
        for i in range(per_type):
            bo = r.choice(["le", "be"])
            off = r.randrange(16)
            toks, _ = wg.gen_value(r, t, bad=False)
            # descriptor leaves on the wire are indices
            toks = wg.renumber_fds(toks, 3)
            vals.append((ty, t, bo, off, nf, toks))
    ok, spec_out, err = vlib.par_run_lines(drv, [], ["SE %s %d %s" % (bo, off, " ".join(toks)) for (_, _, bo, off, _, toks) in vals])
    if not ok:
        ctx.tie_broken("extracted specification crashed", err)
        return

    # ---- step 2: inputs
    cases = []     # (kind, ty, t, bo, off, nf, hex bytes, expected tokens or None)
    for (ty, t, bo, off, nf, toks), so in zip(vals, spec_out):
        f = fields("x " + so)
        if f.get("encodable") != "true":
            continue
        enc = bytes.fromhex(f["spec"]) if f["spec"] != "-" else b""
        pre = bytes((7 * i + 3) % 251 for i in range(off))
        cases.append(("valid", ty, t, bo, off, nf, pre + enc, " ".join(toks), len(enc)))
        suffix = bytes([r.randrange(256) for _ in range(r.choice([0, 1, 3, 8]))])
        if suffix:
            cases.append(("valid+suffix", ty, t, bo, off, nf, pre + enc + suffix, " ".join(toks), len(enc)))
        for kind, cb in wg.corruptions(r, enc, limit=10 if thorough else 5):
            cases.append(("corrupt:" + kind.split("@")[0], ty, t, bo, off, nf, pre + cb, None, None))
    for _ in range(4000 if thorough else 400):
        ty = r.choice(cat)
        t = wg.parse_ext(ty)
        off = r.randrange(8)
        n = r.choice([0, 1, 4, 8, 12, 16, 24, 40])
        b = bytes(r.choice([0, 0, 0, 1, 4, 8, r.randrange(256)]) for _ in range(off + n))
        cases.append(("random", ty, t, r.choice(["le", "be"]), off, 2, b, None, None))

    lines = []
    for kind, ty, t, bo, off, nf, b, exp, explen in cases:
        sig = wg.erased(t)
        hexb = b.hex() or "-"
        lines.append("VR %s %d %s %s" % (bo, off, sig, hexb))
        lines.append("UP %s %d %d %s %s" % (bo, off, nf, sig, hexb))
        lines.append("UT %s %s %d %d %d %s" % (ty, bo, off, nf, r.randrange(8), hexb))
    ok, impl, err = vlib.par_run_lines(exe, [], lines, robust=True)
    if not ok:
        ctx.tie_broken("wire harness crashed (a decoder aborted?)", err)
        return
    ok, model, err = vlib.par_run_lines(drv, [], lines)
    if not ok:
        ctx.tie_broken("extracted decoder model crashed", err)
        return

    # ---- step 2b: a variant may hold a descriptor although the requested type names none (a corrupted inner
    # signature); validate_raw cannot know the number of descriptors, so "validate ok, decoders refuse" is allowed by
    # the property exactly when the encoded value holds a descriptor index that is not below the message's count
    # (C03_agree_param_fds has that hypothesis). Decide it by decoding with an unbounded descriptor count (model).
    dyn_fd = set()
    sus = [ci for ci, (kind, ty, t, bo, off, nf, b, exp, explen) in enumerate(cases)
           if wg.count_leaves(t, "h") == 0 and "v" in wg.erased(t)
           and split_res(impl[3 * ci])[0] == "ok" and split_res(impl[3 * ci + 1])[0] == "err"]
    if sus:
        sl = []
        for ci in sus:
            f = lines[3 * ci + 1].split(" ")
            f[3] = "1000000"
            sl.append(" ".join(f))
        ok, sus_out, err = vlib.par_run_lines(drv, [], sl)
        if not ok:
            ctx.tie_broken("extracted decoder model crashed", err)
            return
        for ci, o in zip(sus, sus_out):
            st, n, toks = split_res(o)
            tl = toks.split(" ") if toks else []
            if st == "ok" and any(a == "h" and c.isdigit() and int(c) >= cases[ci][5] for a, c in zip(tl, tl[1:])):
                dyn_fd.add(ci)
        ctx.count("variant_holds_descriptor_not_in_message", len(dyn_fd))

    # ---- step 3: for every value the MODEL decodes (wire order, duplicates kept) ask the specification what its
    # encoding is; the implementation's values are maps, so they are compared with the canonical form of the model's
    se_lines, se_index = [], {}
    for ci, (kind, ty, t, bo, off, nf, b, exp, explen) in enumerate(cases):
        for k in (1, 2):
            for outs in (model, impl):
                st, n, toks = split_res(outs[3 * ci + k])
                # the implementation's own value can be given to the specification directly when it has no
                # multi-entry map (whose wire order is lost)
                if st == "ok" and toks and (outs is model or not _has_multi_map(toks)):
                    key = (bo, off, toks)
                    if key not in se_index:
                        se_index[key] = len(se_lines)
                        se_lines.append("SE %s %d %s" % (bo, off, toks))
    ok, se_out, err = vlib.par_run_lines(drv, [], se_lines)
    if not ok:
        ctx.tie_broken("extracted specification crashed on decoded values", err)
        return

    def spec_of(bo, off, toks):
        f = fields("x " + se_out[se_index[(bo, off, toks)]])
        return (bytes.fromhex(f["spec"]) if f["spec"] != "-" else b""), f["encodable"] == "true"

    for ci, (kind, ty, t, bo, off, nf, b, exp, explen) in enumerate(cases):
        vr_i, up_i, ut_i = impl[3 * ci], impl[3 * ci + 1], impl[3 * ci + 2]
        vr_m, up_m, ut_m = model[3 * ci], model[3 * ci + 1], model[3 * ci + 2]
        nontrivial = kind != "valid" or t[0] != "b" or t[1] in "sog"
        ctx.case(lines[3 * ci], nontrivial=nontrivial,
                 sample={"case": lines[3 * ci + 1][:160], "VR": vr_i, "UP": up_i[:80], "UT": ut_i[:80]} if ctx.evaluations % 211 == 0 else None)
        ctx.evaluations += 2
        ctx.count("kind:" + kind)
        ctx.count("bo:" + bo)
        ctx.count("off%8=" + str(off % 8))
        s_vr, n_vr, _ = split_res(vr_i)
        s_up, n_up, v_up = split_res(up_i)
        s_ut, n_ut, v_ut = split_res(ut_i)
        ctx.count("VR:" + s_vr)
        why = None
        for name, st in (("validate_raw", s_vr), ("Param decoder", s_up), ("typed decoder", s_ut)):
            if st not in ("ok", "err"):
                why = "%s did not return a value or an error (%s)" % (name, st)
        st_mp, n_mp, v_mp = split_res(up_m)
        st_mt, n_mt, v_mt = split_res(ut_m)
        has_fd = wg.count_leaves(t, "h") > 0 or ci in dyn_fd
        witness_missing = False
        if why is None:
            # soundness: whatever is accepted is the specification's encoding of the returned value. The witness for
            # "some ordering of the returned map encodes to these bytes" is the model's wire-order value.
            for name, st, n, v, stm, nm, vm in (("Param decoder", s_up, n_up, v_up, st_mp, n_mp, v_mp),
                                                ("typed decoder", s_ut, n_ut, v_ut, st_mt, n_mt, v_mt)):
                if st == "ok":
                    if stm != "ok" or wg.canon(vm) != wg.canon(v) or nm != n:
                        if not _has_multi_map(v):
                            # no model witness needed: ask the specification about the implementation's own value
                            sb, enc_ok = spec_of(bo, off, v)
                            if sb != b[off:off + n] or not enc_ok:
                                why = "%s accepted bytes that are not the encoding of the value it returned" % name
                                continue
                        witness_missing = True
                        continue
                    sb, enc_ok = spec_of(bo, off, vm)
                    if sb != b[off:off + n] or not enc_ok:
                        why = "%s accepted bytes that are not the encoding of the value it returned" % name
            if s_vr == "ok" and s_up == "ok" and n_vr != n_up:
                why = "validate_raw and the Param decoder report different lengths"
            if s_vr != s_up and not (has_fd and s_vr == "ok"):
                why = "validate_raw and the Param decoder disagree on acceptance"
            if s_ut == "ok" and (s_up != "ok" or wg.canon(v_ut) != wg.canon(v_up) or n_ut != n_up):
                why = "typed decoder accepted/returned something the Param decoder did not"
        if why is None and exp is not None:
            # completeness on a valid encoding
            if s_vr != "ok" or n_vr != explen:
                why = "validate_raw rejects a valid encoding or reports the wrong length"
            elif s_up != "ok" or n_up != explen or wg.canon(v_up) != wg.canon(exp):
                why = "Param decoder rejects a valid encoding or returns a different value"
            elif s_ut != "ok" or n_ut != explen or wg.canon(v_ut) != wg.canon(exp):
                why = "typed decoder rejects a valid encoding or returns a different value"
        if why is None and s_up == "err" and st_mp == "ok":
            # rejected: is it nevertheless a valid encoding? (the model's decoded value, checked by the specification)
            sb, enc_ok = spec_of(bo, off, v_mp)
            if sb == b[off:off + n_mp] and enc_ok:
                why = "decoders reject bytes that are a valid encoding"
        if why is None and witness_missing:
            ctx.disagreements_checked += 1
            ctx.tie_broken("correspondence: the implementation accepted an input the decoder model rejects or decodes differently",
                           "%s\nimpl: %s\nmodel: %s" % (lines[3 * ci + 1], [vr_i, up_i, ut_i], [vr_m, up_m, ut_m]))
            continue
        if why:
            ctx.disagreements_checked += 1
            ctx.violation(why, {"lines": lines[3 * ci:3 * ci + 3], "impl": [vr_i, up_i, ut_i], "model": [vr_m, up_m, ut_m], "kind": kind})
        elif (vr_i, wg.canon(v_up) if s_up == "ok" else up_i, wg.canon(v_ut) if s_ut == "ok" else ut_i, n_up, n_ut) != \
                (vr_m, wg.canon(v_mp) if st_mp == "ok" else up_m, wg.canon(v_mt) if st_mt == "ok" else ut_m, n_mp, n_mt):
            ctx.disagreements_checked += 1
            ctx.tie_broken("correspondence: decoder models and implementation differ on a case the specification checks pass",
                           "%s\nimpl: %s\nmodel: %s" % (lines[3 * ci + 2], [vr_i, up_i, ut_i], [vr_m, up_m, ut_m]))


def _has_multi_map(toks):
    t = toks.split()
    for i, x in enumerate(t):
        if x == "e" and i + 3 < len(t) and t[i + 3].isdigit() and int(t[i + 3]) > 1:
            return True
    return False


def replay(ctx, body):
    d = body["data"]
    exe = vlib.harness_build(["wire"])["wire"]
    _, out, _ = vlib.run_lines(exe, [], d["lines"])
    for l, o, old in zip(d["lines"], out, d["impl"]):
        print(l[:200])
        print("   now :", o[:200])
        print("   then:", old[:200])
    same = out == d["impl"]
    print("REPRODUCED (same outputs as recorded)" if same else "outputs differ from the recorded failing run")
    return 1 if same else 0
