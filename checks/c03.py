"""C03 - decoders accept exactly the valid encodings and return the encoded value.

Three decoders of the real crate (raw validation VR, dynamic Param decoder UP, typed decoder UT through the
catalogue types - including the borrowing ones Cow<[E]>, &[u8], &str and raw f64 with its memcpy path) run on
(1) valid encodings produced by the extracted SPECIFICATION encoder, (2) single-fault corruptions of those: one of
every class that applies to the value (wiregen.CORRUPTION_CLASSES, aimed with a layout of the encoding), (3) random
bytes under catalogue signatures, (4) "big": encodings with length fields >= 64 KiB, long strings, 64+ containers
in one array, nesting at the limits; at offsets 0..15, both byte orders.
Verdicts are justified by the extracted specification directly (never by the decoder models):
  * accepted  => the bytes consumed equal spec_enc of the returned value and the value is encodable
  * a valid encoding (stream 1, or a corrupted input that the model decodes to a value whose spec encoding is
    exactly the input slice) => accepted by all three decoders with that value and length
  * the three decoders agree (typed may additionally refuse a variant whose content type differs from the Rust type)
The decoder models (coq/Wire/Decode.v, Unmarshal.v) are compared on every case as the tie for the theorems.
(5) "glue": bodies built from arbitrary (signature, bytes) with MarshalledMessageBody::from_parts: validate() must be
"every top-level value validates and all bytes are used", MarshalledMessage::unmarshall_all and
wire::unmarshal::unmarshal_body must accept exactly the same bodies (D30) and return what the dynamic decoder returns
for every type of the signature in turn. One body in four carries descriptors: `h` leaves whose indices are all below the
message's descriptor count, or - some of them - not (then validate(), which does not know the count, may accept what the
value decoders refuse; nothing else may differ).
"""
import os

import vlib
import wiregen as wg
from checks.c02 import fields


def split_res(line):
    """'ok <n> <tokens...>' / 'ok <n>' / 'err' / other"""
    if line is None:
        return None, None, ""
    parts = line.split(" ")
    if parts and parts[-1].startswith("#"):          # "#cow=b<n>o<m>": informational note of the harness, not part of the value
        parts = parts[:-1]
    if parts[0] == "ok":
        return "ok", int(parts[1]), " ".join(parts[2:])
    return parts[0], None, ""


def cow_note(line):
    parts = line.split(" ")
    if parts and parts[-1].startswith("#cow=b"):
        b, o = parts[-1][6:].split("o")
        return int(b), int(o)
    return 0, 0


def run(ctx):
    thorough = ctx.tier == "thorough"
    ncat = len(wg.catalogue())
    ctx.trusted = ["Coq 8.16.1 kernel", "extraction (ExtrOcamlBasic only) + ocaml/wire/driver.ml", "harness wire binary and catalogue",
                   "Wire/SpecEnc.v as my reading of the D-Bus wire format"]
    ctx.assumptions = ["usize 64 bit, native little endian", "typed decoder exercised through the %d catalogue types (and %d deeply nested ones in the big stream)"
                       % (ncat, len(wg.catalogue_deep())),
                       "big stream: the decoder models are run only where they are fast enough (raw validation always; typed decoder on the memcpy "
                       "path; everything below 3000 tokens); elsewhere the implementation is compared with the known encoded value and the specification",
                       "glue stream: the descriptors of a body are duplicates of stderr; only their number and the indices matter"]
    if not os.environ.get("VERIF_SKIP_PROOF"):
        ctx.try_proof()
    exe = vlib.harness_build(["wire"])["wire"]
    vlib.coq_make(["Wire/Ops.vo"])
    drv = vlib.ocaml_build("wire")
    r = ctx.sub_rng("c03")
    cat = wg.catalogue()
    per_type = 10 if thorough else 2
    import time
    stages = ctx.extra.setdefault("stage_seconds", {})
    t_last = [time.time()]

    def stage(name):
        stages[name] = round(time.time() - t_last[0], 1)
        t_last[0] = time.time()

    # ---- step 1: values -> specification bytes
    vals = []         # (ty, t, bo, off, nf, toks, big class or None)
    for ty in cat:
        t = wg.parse_ext(ty)
        nf = 3 if wg.count_leaves(t, "h") else 0
        for i in range(per_type):
            bo = r.choice(["le", "be"])
            off = r.randrange(16)
            toks, _ = wg.gen_value(r, t, bad=False)
            # descriptor leaves on the wire are indices
            toks = wg.renumber_fds(toks, 3)
            vals.append((ty, t, bo, off, nf, toks, None))
    nsmall = len(vals)
    rb = ctx.sub_rng("c03-big")
    for cls, ty, toks in wg.big_cases(rb, thorough):
        for bo in ("le", "be"):
            vals.append((ty, wg.parse_ext(ty), bo, rb.randrange(16), 0, toks, cls))
    # (a value of megabytes is encoded by the plain encoder wiregen.Layout instead: the extracted specification needs gigabytes for it)
    huge = set(i for i, v in enumerate(vals) if v[6] and not wg.model_cheap("SE", v[2], v[5]))
    se_lines = ["SE %s %d %s" % (bo, off, " ".join(toks)) if i not in huge else "SE le 0 y 0" for i, (_, _, bo, off, _, toks, _) in enumerate(vals)]
    ok, spec_out, err = vlib.par_run_lines(drv, [], se_lines[:nsmall])
    if ok:
        ok, so2, err = wg.run_each(drv, se_lines[nsmall:], chunk=2)
        spec_out = spec_out + so2
        for i in huge:
            spec_out[i] = "spec=%s encodable=true" % wg.layout(vals[i][2] == "be", vals[i][3], vals[i][5])[0].hex()
            ctx.count("big:encoded-by-python-layout")
    if not ok:
        ctx.tie_broken("extracted specification crashed", err)
        return

    stage("specification encodings")
    # ---- step 2: inputs
    big_tokens.clear()
    cases = []     # (kind, ty, t, bo, off, nf, bytes, expected tokens or None, expected length, big?)
    for (ty, t, bo, off, nf, toks, cls), so in zip(vals, spec_out):
        f = fields("x " + so)
        if f.get("encodable") != "true":
            if cls:
                ctx.tie_broken("generator: a big value is not encodable", "%s %s %s" % (cls, ty, so[:200]))
            continue
        enc = bytes.fromhex(f["spec"]) if f["spec"] != "-" else b""
        pre = bytes((7 * i + 3) % 251 for i in range(off))
        if cls:
            cases.append(("big:" + cls, ty, t, bo, off, nf, pre + enc, " ".join(toks), len(enc), True))
            big_tokens[len(cases) - 1] = toks
            # the FIRST length field of a big encoding (the big one): off by a little, and beyond the limit
            order = "big" if bo == "be" else "little"
            if sum(len(x) for x in toks) > 4000000:
                continue                     # megabytes: the valid encoding only
            try:
                lb, marks = wg.layout(bo == "be", off, toks)
            except Exception:
                lb, marks = None, []
            firstlen = next((p for (k, p, n) in marks if k in ("alen", "slen") and int.from_bytes(enc[p:p + 4], order) >= 250), None) if lb == enc else None
            if firstlen is not None:
                v = int.from_bytes(enc[firstlen:firstlen + 4], order)
                for name, nv, tail in (("len-1", v - 1, b""), ("len+1", v + 1, b"\x00"), ("len-8", v - 8, b""), ("len+8", v + 8, bytes(8)),
                                       ("len=2^26+1", (1 << 26) + 1, b"")):
                    b = bytearray(enc)
                    b[firstlen:firstlen + 4] = (nv & 0xFFFFFFFF).to_bytes(4, order)
                    cases.append(("big-corrupt:" + name, ty, t, bo, off, nf, pre + bytes(b) + tail, None, None, True))
                    big_tokens[len(cases) - 1] = toks
            continue
        cases.append(("valid", ty, t, bo, off, nf, pre + enc, " ".join(toks), len(enc), False))
        suffix = bytes([r.randrange(256) for _ in range(r.choice([0, 1, 3, 8]))])
        if suffix:
            cases.append(("valid+suffix", ty, t, bo, off, nf, pre + enc + suffix, " ".join(toks), len(enc), False))
        for kind, cb in wg.aimed_corruptions(r, bo == "be", off, toks, enc, extra=8 if thorough else 4, all_padding=thorough, nfds=nf):
            if kind == "layout-differs":
                ctx.count("layout-differs (corruptions of this value are not aimed)")
                continue
            cases.append(("corrupt:" + kind, ty, t, bo, off, nf, pre + cb, None, None, False))
    for line in wg.corpus_lines("C03"):
        f = line.split(" ")
        if not f[0].startswith("BODY"):
            cases.append(("corpus", f[3], wg.parse_ext(f[3]), f[0], int(f[1]), int(f[2]), bytes.fromhex(f[4]) if f[4] != "-" else b"", None, None, False))
    for _ in range(4000 if thorough else 400):
        ty = r.choice(cat)
        t = wg.parse_ext(ty)
        off = r.randrange(8)
        n = r.choice([0, 1, 4, 8, 12, 16, 24, 40])
        b = bytes(r.choice([0, 0, 0, 1, 4, 8, r.randrange(256)]) for _ in range(off + n))
        cases.append(("random", ty, t, r.choice(["le", "be"]), off, 2, b, None, None, False))

    lines = []
    for kind, ty, t, bo, off, nf, b, exp, explen, isbig in cases:
        sig = wg.erased(t)
        hexb = b.hex() or "-"
        lines.append("VR %s %d %s %s" % (bo, off, sig, hexb))
        lines.append("UP %s %d %d %s %s" % (bo, off, nf, sig, hexb))
        lines.append("UT %s %s %d %d %d %s" % (ty, bo, off, nf, r.randrange(8), hexb))
    stage("generate inputs")
    small_idx = [3 * ci + k for ci, c in enumerate(cases) if not c[9] for k in range(3)]
    big_idx = [3 * ci + k for ci, c in enumerate(cases) if c[9] for k in range(3)]
    impl = [None] * len(lines)
    model = [None] * len(lines)
    ok, out, err = vlib.par_run_lines(exe, [], [lines[i] for i in small_idx], robust=True)
    if ok:
        for i, o in zip(small_idx, out):
            impl[i] = o
        ok, out, err = wg.run_each(exe, [lines[i] for i in big_idx], robust=True, chunk=6)
        for i, o in zip(big_idx, out):
            impl[i] = o
    if not ok:
        ctx.tie_broken("wire harness crashed (a decoder aborted?)", err)
        return
    stage("implementation")
    ok, out, err = vlib.par_run_lines(drv, [], [lines[i] for i in small_idx])
    stage("model")
    if ok:
        for i, o in zip(small_idx, out):
            model[i] = o
        # big: raw validation always; the others only where the extracted model is fast enough (size of the VALUE the bytes were made from)
        cheap = []
        for i in big_idx:
            c = cases[i // 3]
            op = ("VR", "UP", "UT")[i % 3]
            if wg.model_cheap(op, c[3], big_tokens[i // 3]):
                cheap.append(i)
        ok, out, err = wg.run_each(drv, [lines[i] for i in cheap], chunk=3)
        for i, o in zip(cheap, out):
            model[i] = o
    if not ok:
        ctx.tie_broken("extracted decoder model crashed", err)
        return

    # the extracted driver against Coq's own evaluation of the same definitions, on a sample of this run's lines
    import wirecross
    wirecross.cross(ctx, [(lines[i], model[i]) for i in small_idx] + [(se_lines[i], spec_out[i]) for i in range(min(nsmall, len(spec_out)))],
                    ctx.sub_rng("c03-coqcross"), 1500 if thorough else 150, name="c03_cross")
    stage("model (big)")
    # ---- step 2b: a variant may hold a descriptor although the requested type names none (a corrupted inner
    # signature); validate_raw cannot know the number of descriptors, so "validate ok, decoders refuse" is allowed by
    # the property exactly when the encoded value holds a descriptor index that is not below the message's count
    # (C03_agree_param_fds has that hypothesis). Decide it by decoding with an unbounded descriptor count (model).
    dyn_fd = set()
    sus = [ci for ci, c in enumerate(cases)
           if wg.count_leaves(c[2], "h") == 0 and "v" in wg.erased(c[2]) and not c[9]
           and split_res(impl[3 * ci])[0] == "ok" and split_res(impl[3 * ci + 1])[0] == "err"]
    if sus:
        sl = []
        for ci in sus:
            f = lines[3 * ci + 1].split(" ")
            f[3] = "4294967296"        # more descriptors than any index can name
            sl.append(" ".join(f))
        ok, sus_out, err = vlib.par_run_lines(drv, [], sl)
        if not ok:
            ctx.tie_broken("extracted decoder model crashed", err)
            return
        for ci, o in zip(sus, sus_out):
            st, n, toks = split_res(o)
            if st == "ok" and any(x >= cases[ci][5] for x in _fd_indices(toks)):
                dyn_fd.add(ci)
        ctx.count("variant_holds_descriptor_not_in_message", len(dyn_fd))

    # ---- step 3: for every value the MODEL decodes (wire order, duplicates kept) ask the specification what its
    # encoding is; the implementation's values are maps, so they are compared with the canonical form of the model's
    se_lines, se_index = [], {}
    for ci, c in enumerate(cases):
        bo, off, isbig = c[3], c[4], c[9]
        if isbig and c[7] is not None:
            continue                     # a big valid encoding: the value is known, nothing to ask
        for k in (1, 2):
            for outs in (model, impl):
                st, n, toks = split_res(outs[3 * ci + k])
                # the implementation's own value can be given to the specification directly when it has no
                # multi-entry map (whose wire order is lost)
                if st == "ok" and toks and (outs is model or not _has_multi_map(toks)):
                    key = (bo, off, toks)
                    if key not in se_index:
                        se_index[key] = len(se_lines)
                        se_lines.append("SE %s %d %s" % (bo, off, toks))
    small_se = [i for i, l in enumerate(se_lines) if len(l) < 20000]
    big_se = [i for i, l in enumerate(se_lines) if len(l) >= 20000]
    se_out = [None] * len(se_lines)
    ok, out, err = vlib.par_run_lines(drv, [], [se_lines[i] for i in small_se])
    if ok:
        for i, o in zip(small_se, out):
            se_out[i] = o
        ok, out, err = wg.run_each(drv, [se_lines[i] for i in big_se], chunk=2)
        for i, o in zip(big_se, out):
            se_out[i] = o
    if not ok:
        ctx.tie_broken("extracted specification crashed on decoded values", err)
        return

    stage("specification of decoded values")

    def spec_of(bo, off, toks):
        f = fields("x " + se_out[se_index[(bo, off, toks)]])
        return (bytes.fromhex(f["spec"]) if f["spec"] != "-" else b""), f["encodable"] == "true"

    for ci, (kind, ty, t, bo, off, nf, b, exp, explen, isbig) in enumerate(cases):
        vr_i, up_i, ut_i = impl[3 * ci], impl[3 * ci + 1], impl[3 * ci + 2]
        vr_m, up_m, ut_m = model[3 * ci], model[3 * ci + 1], model[3 * ci + 2]
        nontrivial = kind != "valid" or t[0] != "b" or t[1] in "sog"
        canon = lines[3 * ci] if not isbig else (kind, ty, bo, off, len(b), hash(b))
        ctx.case(canon, nontrivial=nontrivial,
                 sample={"case": lines[3 * ci + 1][:160], "VR": vr_i, "UP": up_i[:80], "UT": ut_i[:80]} if ctx.evaluations % 3001 == 0 else None)
        ctx.evaluations += 2
        ctx.count("kind:" + kind)
        ctx.count("bo:" + bo)
        ctx.count("off%8=" + str(off % 8))
        if kind in ("valid", "valid+suffix") or isbig:
            for fl in wg.flavours(ty):
                ctx.count("rust-flavour:" + fl)
        cb, co = cow_note(ut_i)
        if cb or co:
            ctx.count("cow-borrowed", cb)
            ctx.count("cow-owned", co)
        for nm, mo in (("VR", vr_m), ("UP", up_m), ("UT", ut_m)):
            if mo is None:
                ctx.count("big:model-skipped:" + nm)
        s_vr, n_vr, _ = split_res(vr_i)
        s_up, n_up, v_up = split_res(up_i)
        s_ut, n_ut, v_ut = split_res(ut_i)
        ctx.count("VR:" + s_vr)
        why = None
        for name, st in (("validate_raw", s_vr), ("Param decoder", s_up), ("typed decoder", s_ut)):
            if st not in ("ok", "err"):
                why = "%s did not return a value or an error (%s)" % (name, st)
        st_mp, n_mp, v_mp = split_res(up_m)
        st_mt, n_mt, v_mt = split_res(ut_m)
        has_fd = wg.count_leaves(t, "h") > 0 or ci in dyn_fd
        witness_missing = False
        if why is None and not (isbig and exp is not None):
            # soundness: whatever is accepted is the specification's encoding of the returned value. The witness for
            # "some ordering of the returned map encodes to these bytes" is the model's wire-order value.
            for name, st, n, v, stm, nm, vm in (("Param decoder", s_up, n_up, v_up, st_mp, n_mp, v_mp),
                                                ("typed decoder", s_ut, n_ut, v_ut, st_mt, n_mt, v_mt)):
                if st == "ok":
                    if stm != "ok" or wg.canon(vm) != wg.canon(v) or nm != n:
                        if not _has_multi_map(v):
                            # no model witness needed: ask the specification about the implementation's own value
                            sb, enc_ok = spec_of(bo, off, v)
                            if sb != b[off:off + n] or not enc_ok:
                                why = "%s accepted bytes that are not the encoding of the value it returned" % name
                                continue
                            if stm is None:
                                continue               # model not run (cost): the specification has spoken
                        witness_missing = True
                        continue
                    sb, enc_ok = spec_of(bo, off, vm)
                    if sb != b[off:off + n] or not enc_ok:
                        why = "%s accepted bytes that are not the encoding of the value it returned" % name
        if why is None:
            if s_vr == "ok" and s_up == "ok" and n_vr != n_up:
                why = "validate_raw and the Param decoder report different lengths"
            if s_vr != s_up and not (has_fd and s_vr == "ok"):
                why = "validate_raw and the Param decoder disagree on acceptance"
            if s_ut == "ok" and (s_up != "ok" or wg.canon(v_ut) != wg.canon(v_up) or n_ut != n_up):
                why = "typed decoder accepted/returned something the Param decoder did not"
        if why is None and exp is not None:
            # completeness on a valid encoding
            if s_vr != "ok" or n_vr != explen:
                why = "validate_raw rejects a valid encoding or reports the wrong length"
            elif s_up != "ok" or n_up != explen or wg.canon(v_up) != wg.canon(exp):
                why = "Param decoder rejects a valid encoding or returns a different value"
            elif s_ut != "ok" or n_ut != explen or wg.canon(v_ut) != wg.canon(exp):
                why = "typed decoder rejects a valid encoding or returns a different value"
        if why is None and s_up == "err" and st_mp == "ok":
            # rejected: is it nevertheless a valid encoding? (the model's decoded value, checked by the specification)
            sb, enc_ok = spec_of(bo, off, v_mp)
            if sb == b[off:off + n_mp] and enc_ok:
                why = "decoders reject bytes that are a valid encoding"
        data = {"lines": [l if len(l) < 3000 else l[:3000] + " ...(%d characters; regenerate with the seed)" % len(l) for l in lines[3 * ci:3 * ci + 3]],
                "impl": [x[:3000] for x in (vr_i, up_i, ut_i)], "model": [(x or "not run")[:3000] for x in (vr_m, up_m, ut_m)], "kind": kind}
        if why is None and witness_missing:
            ctx.disagreements_checked += 1
            ctx.tie_broken("correspondence: the implementation accepted an input the decoder model rejects or decodes differently",
                           "%s\nimpl: %s\nmodel: %s" % (data["lines"][1], data["impl"], data["model"]))
            continue
        if why:
            ctx.disagreements_checked += 1
            ctx.violation(why, data)
            continue
        ci_cmp = []
        mo_cmp = []
        if vr_m is not None:
            ci_cmp.append(vr_i)
            mo_cmp.append(vr_m)
        if up_m is not None:
            ci_cmp += [wg.canon(v_up) if s_up == "ok" else up_i, n_up]
            mo_cmp += [wg.canon(v_mp) if st_mp == "ok" else up_m, n_mp]
        if ut_m is not None:
            ci_cmp += [wg.canon(v_ut) if s_ut == "ok" else split_res(ut_i)[0], n_ut]
            mo_cmp += [wg.canon(v_mt) if st_mt == "ok" else ut_m, n_mt]
        if ci_cmp != mo_cmp:
            ctx.disagreements_checked += 1
            ctx.tie_broken("correspondence: decoder models and implementation differ on a case the specification checks pass",
                           "%s\nimpl: %s\nmodel: %s" % (data["lines"][2], data["impl"], data["model"]))

    stage("verdicts")
    nglue = glue(ctx, exe, drv, thorough)
    stage("glue")
    ngiant = giant(ctx, exe)
    stage("giant")
    classes = sorted(k[len("kind:corrupt:"):] for k in ctx.histogram if k.startswith("kind:corrupt:"))
    missing = [c for c in wg.CORRUPTION_CLASSES if c not in classes]
    ctx.extra["corruption_classes"] = {"applied": {c: ctx.histogram["kind:corrupt:" + c] for c in classes}, "never applied in this run": missing}
    if missing:
        ctx.tie_broken("generator: corruption classes never applied", ", ".join(missing))
    ctx.rule = ("case = (decoder VR|UP|UT, byte order, offset 0..15, signature / catalogue type, bytes). Stream 1: valid encodings from the specification "
                "encoder, %d values for each of the %d catalogue types, with and without trailing bytes. Stream 2: single-fault corruptions of them - every "
                "value gets one corruption of EVERY class that applies to it (%d classes: padding positions non-zero (up to 4 per value, all in thorough), "
                "length fields +-1 +-4 +-8 and 2^26+1, boolean 2 / other, NUL inside a string, non-zero terminator, signature length +-1, a variant's "
                "signature replaced by another type of the same / another alignment, by two types, by the empty and by an invalid signature, plus "
                "untargeted zero-flips, bumps, length overwrites, off-by-a-few lengths, truncations, UTF-8 faults, extension); per-class counts are in "
                "corruption_classes. Stream 3: random bytes. Stream 4 (big): length fields >= 64 KiB, strings of 255..70000 bytes, 64..100 containers in "
                "one array/dict, nesting at the limits, valid and with the big length field off by 1 / 8 / beyond 2^26. Stream 5 (glue, %d bodies): "
                "validate(), unmarshall_all, unmarshal_body on bodies from from_parts: valid, with trailing bytes, truncated, corrupted, signature with "
                "one type more or less, each at buf_offset 0 / 8 / 16 / 112 / 4096 (and 3 / 4: normalised); one body in four has `h` leaves and a "
                "descriptor list that covers all / some / none of their indices. Stream 6 (giant, %d cases): ay / at / as with exactly 2^26 bytes of "
                "content (valid), the smallest content above (invalid) and 16..50 MiB, made inside the harness, through all three decoders in both "
                "byte orders. non-trivial = the type has a container or a text leaf, or the input is a corruption; distinct = distinct case lines"
                % (per_type, ncat, len(classes), nglue, ngiant))


big_tokens = {}        # index of a big case -> the tokens of the value its bytes were made from (to estimate the model's cost)


def glue(ctx, exe, drv, thorough):
    """MarshalledMessageBody::validate(), MarshalledMessage::unmarshall_all and wire::unmarshal::unmarshal_body on bodies built
    with from_parts from (signature, bytes). The property predicate is evaluated on the implementation's own single-value decoders
    (checked against the specification by the streams above): validate() = every type of the signature validates in turn from
    offset 0 AND all bytes are used (theorems C03_body_agree, C03_body_values; the extracted op_body_validate / body_unmarshall_all
    are compared as the tie); unmarshall_all / unmarshal_body accept exactly then too (D30: they used to ignore bytes after
    the last value) and return the values of the dynamic decoder on every type in turn."""
    r = ctx.sub_rng("c03-glue")
    cat = wg.catalogue()
    hcat = [ty for ty in cat if wg.count_leaves(wg.parse_ext(ty), "h")]
    nbodies = 1500 if thorough else 300
    bodies = []       # (bo, [types], [toks], number of descriptors of the message)
    for bi in range(nbodies):
        k = r.choice([0, 1, 1, 2, 2, 3])
        # one body in four carries descriptors: at least one type with an `h` leaf; containers are not empty there
        with_fd = bi % 4 == 0
        tys = [r.choice(hcat if with_fd and j == 0 else cat) for j in range(max(k, 1) if with_fd else k)]
        r.shuffle(tys)
        vals = [wg.ValGen(r, sizes=(1, 1, 2, 3)).gen(wg.parse_ext(ty)) if wg.count_leaves(wg.parse_ext(ty), "h") else wg.gen_value(r, wg.parse_ext(ty))[0]
                for ty in tys]
        nh = sum(wg.count_tag(v, "h") for v in vals)
        # the message's descriptor count: every index in range (count = or > the number of leaves), or - one body in four with leaves -
        # too few: the highest indices are out of range (count 0: all of them)
        nf = 0
        if nh:
            nf = r.choice([nh, nh, nh + 1, nh + 3, max(nh - 1, 0), 0, r.randrange(nh + 1), 1])
            # indices 0..nh-1 in wire order over the whole body, or all below a smaller modulus (descriptors used twice)
            m = r.choice([nh, nh, max(1, nh // 2), 1])
            seen = 0
            for vi, v in enumerate(vals):
                c = wg.count_tag(v, "h")
                for j in range(c):
                    v = wg.replace_leaf(v, "h", j, str((seen + j) % m))
                seen += c
                vals[vi] = v
        bodies.append((r.choice(["le", "be"]), tys, vals, nf))
    # the body bytes: value i is encoded at the offset where value i-1 ended (rounds of specification calls)
    bufs = [b""] * nbodies
    for rnd in range(3):
        idx = [i for i, b in enumerate(bodies) if len(b[1]) > rnd]
        ok, out, err = vlib.par_run_lines(drv, [], ["SE %s %d %s" % (bodies[i][0], len(bufs[i]), " ".join(bodies[i][2][rnd])) for i in idx])
        if not ok:
            ctx.tie_broken("extracted specification crashed (glue)", err)
            return 0
        for i, o in zip(idx, out):
            f = fields("x " + o)
            bufs[i] += bytes.fromhex(f["spec"]) if f["spec"] != "-" else b""
    cases = []        # (kind, bo, sig, bytes, known: True = valid whole body, False = known invalid, None = decided by the single-value decoders)
    nfd_of = {}       # case index -> descriptors of the message (0 when absent)
    for (bo, tys, vs, nf), buf in zip(bodies, bufs):
        sig = "".join(wg.erased(wg.parse_ext(ty)) for ty in tys)
        if len(sig) > 255:
            continue
        first = len(cases)
        cases.append(("valid", bo, sig, buf, True))
        cases.append(("trailing", bo, sig, buf + bytes(r.choice([0, 0, 1, 7, r.randrange(256)]) for _ in range(r.choice([1, 1, 2, 4, 8]))), None))
        if buf:
            cases.append(("truncated", bo, sig, buf[:r.randrange(len(buf))], None))
            for kind, cb in wg.corruptions(r, buf, limit=2):
                cases.append(("corrupt", bo, sig, cb, None))
        more = wg.erased(wg.parse_ext(r.choice(cat)))
        cases.append(("signature+1", bo, sig + more, buf, None))
        if len(tys) > 1:
            cases.append(("signature-1", bo, "".join(wg.erased(wg.parse_ext(ty)) for ty in tys[:-1]), buf, None))
        if nf:
            for ci in range(first, len(cases)):
                nfd_of[ci] = nf
        if "h" in sig:
            ctx.count("glue:body-with-descriptors")
            ctx.count("glue:descriptors-of-message=%s" % ("0" if nf == 0 else ">0"))
    for line in wg.corpus_lines("C03"):
        f = line.split(" ")
        if f[0].startswith("BODY"):
            cases.append(("corpus" + f[0][4:], f[1], bytes.fromhex(f[2]).decode() if f[2] != "-" else "", bytes.fromhex(f[3]) if f[3] != "-" else b"", None))
    cases.append(("empty", "le", "", b"", True))
    cases.append(("empty", "be", "", b"", True))
    cases.append(("trailing", "le", "", b"\x07\x07", None))
    lines = []
    places = ["", "", "@8", "@16", "@112", "@4096", "@3", "@4"]
    for ci, (kind, bo, sig, buf, known) in enumerate(cases):
        sh, bh = sig.encode().hex() or "-", buf.hex() or "-"
        nf = nfd_of.get(ci, 0)
        # where the body lives: from_parts behind n foreign bytes (buf_offset n; 3 and 4 are normalised to 0); the model has no offsets
        place = r.choice(places)
        if kind.startswith("corpus@"):
            kind, place = "corpus", kind[6:]
        ctx.count("glue-body-at:" + (place[1:] or "0"))
        lines.append("BV%s %s %d %s %s" % (place, bo, nf, sh, bh))
        lines.append("BA%s %s %d %s %s" % (place, bo, nf, sh, bh))
        lines.append("BB%s %s 0 %d %s %s" % (r.choice(["", "@8", "@16", "@112"]), bo, nf, sh, bh))
        # the single-value decoders on the same input (an empty signature has no types: nothing to run)
        lines.append("VR %s 0 %s %s" % (bo, sig, bh) if sig else "CAT")
        lines.append("UP %s 0 %d %s %s" % (bo, nf, sig, bh) if sig else "CAT")
    ok, out, err = vlib.par_run_lines(exe, [], lines, robust=True)
    if not ok:
        ctx.tie_broken("wire harness crashed (glue)", err)
        return 0
    ok, mout, err = vlib.par_run_lines(drv, [], [l if l[:2] in ("VR", "UP", "BV", "BA") else "SE le 0 y 0" for l in lines])
    if not ok:
        ctx.tie_broken("extracted decoder model crashed (glue)", err)
        return 0
    # a corrupted variant signature may name a descriptor (`h`): validate() cannot know how many descriptors the message has,
    # the value decoders refuse index 0 of none. Allowed exactly when decoding with an unbounded descriptor count (model) succeeds
    # and the value holds a descriptor (the hypothesis of C03_agree_param_fds), as in the main stream.
    # The same holds for an `h` leaf of the signature itself whose index is not below the message's descriptor count.
    sus = [ci for ci, c in enumerate(cases) if c[2] and ("v" in c[2] or "h" in c[2]) and split_res(out[5 * ci + 3])[0] == "ok" and split_res(out[5 * ci + 4])[0] == "err"]
    fd_in_variant = set()
    if sus:
        ok, sus_out, err = vlib.par_run_lines(drv, [], ["UP %s 0 4294967296 %s %s" % (cases[ci][1], cases[ci][2], cases[ci][3].hex() or "-") for ci in sus])
        if not ok:
            ctx.tie_broken("extracted decoder model crashed (glue)", err)
            return 0
        for ci, o in zip(sus, sus_out):
            st, n, toks = split_res(o)
            if st == "ok" and any(x >= nfd_of.get(ci, 0) for x in _fd_indices(toks)):
                fd_in_variant.add(ci)
        ctx.count("glue:variant_holds_descriptor_not_in_message", len(fd_in_variant))
    for ci, (kind, bo, sig, buf, known) in enumerate(cases):
        bv, ba, bb, vr, up = out[5 * ci:5 * ci + 5]
        ctx.case(("glue", lines[5 * ci]), nontrivial=True, sample={"case": lines[5 * ci][:160], "validate": bv, "unmarshall_all": ba[:80]} if ci % 997 == 0 else None)
        ctx.evaluations += 2
        ctx.count("glue:" + kind)
        if sig:
            s_vr, n_vr, _ = split_res(vr)
            s_up, n_up, v_up = split_res(up)
        else:
            s_vr, n_vr, s_up, n_up, v_up = "ok", 0, "ok", 0, ""
        why = None
        if any(x.split(" ")[0] not in ("ok", "err") for x in (bv, ba)) or bb.split(" ")[0] not in ("ok", "err", "badsig"):
            why = "a body operation did not return a value or an error (%s / %s / %s)" % (bv[:30], ba[:30], bb[:30])
        else:
            want_validate = s_vr == "ok" and n_vr == len(buf)
            if known is not None and want_validate != known:
                why = "the single-value validator disagrees with how the body was built"      # (a failure of the streams above, seen here)
            elif (bv == "ok") != want_validate:
                why = "validate() %s a body although %s" % ("accepts" if bv == "ok" else "rejects",
                                                            "not (every value validates and all bytes are used)" if bv == "ok" else "every value validates and all bytes are used")
            want_all = s_up == "ok" and n_up == len(buf)
            for name, res in (("unmarshall_all", ba), ("unmarshal_body", bb)):
                st = res.split(" ")[0]
                if st == "badsig":
                    continue                                  # unmarshal_body is handed parsed types: the empty signature has none
                vals = " ".join(res.split(" ")[2:]) if st == "ok" else ""
                if why is None and (st == "ok") != want_all:
                    why = "%s %s a body although %s" % (name, "accepts" if st == "ok" else "rejects",
                                                        "not (every value decodes and all bytes are used)" if st == "ok" else "every value decodes and all bytes are used")
                elif why is None and st == "ok" and wg.canon(vals) != wg.canon(v_up):
                    why = "%s returns other values than the dynamic decoder value by value" % name
            if why is None and (ba.startswith("ok")) != (bv == "ok") and ci not in fd_in_variant:
                why = "validate() and unmarshall_all disagree on accepting a body"
        if why:
            ctx.disagreements_checked += 1
            ctx.violation(why, {"lines": lines[5 * ci:5 * ci + 5], "impl": [x[:500] for x in out[5 * ci:5 * ci + 5]], "kind": "glue:" + kind})
        elif bv != mout[5 * ci] or (ba.split(" ")[0], wg.canon(" ".join(ba.split(" ")[2:]))) != (mout[5 * ci + 1].split(" ")[0], wg.canon(" ".join(mout[5 * ci + 1].split(" ")[2:]))):
            ctx.disagreements_checked += 1
            ctx.tie_broken("correspondence: the whole-body models (op_body_validate, body_unmarshall_all) and the implementation differ",
                           "%s\nimpl: %s\nmodel: %s" % (lines[5 * ci], out[5 * ci:5 * ci + 2], mout[5 * ci:5 * ci + 2]))
        elif sig and (vr != mout[5 * ci + 3] or (s_up, n_up, wg.canon(v_up)) != (lambda m: (m[0], m[1], wg.canon(m[2])))(split_res(mout[5 * ci + 4]))):
            ctx.disagreements_checked += 1
            ctx.tie_broken("correspondence: decoder models and implementation differ (glue stream)",
                           "%s\nimpl: %s\nmodel: %s" % (lines[5 * ci + 4], out[5 * ci + 3:5 * ci + 5], mout[5 * ci + 3:5 * ci + 5]))
    return len(cases)


def giant(ctx, exe):
    """Arrays at the protocol maximum, for every decoder: an encoding with exactly 2^26 bytes of content is valid (accepted, all of
    it consumed, the value is the described one), the smallest content above is not, 16..50 MiB in between. The input is made inside
    the harness by a plain encoder (XD, harness/src/bin/wire.rs giant()); its length and CRC-32 are compared with the plain encoder
    wiregen.giant_spec, so both readings of the specification agree on the input. No extracted function runs on 64 MiB (model-skipped)."""
    r = ctx.sub_rng("c03-giant")
    cases = wg.giant_lines(r, "XD")
    ok, out, err = wg.run_each(exe, [c[4] for c in cases], robust=True, chunk=2)
    if not ok:
        ctx.tie_broken("wire harness crashed (giant stream)", err)
        return 0
    names = {"vr": "validate_raw", "ut": "typed decoder", "up": "Param decoder"}
    for (cls, shape, be, api, line), o in zip(cases, out):
        content, n, crc = wg.giant_spec(shape, be)
        parts = o.split(" ")
        f = dict(p.split("=", 1) for p in parts if "=" in p)
        ctx.case(("giant", line), nontrivial=True, sample={"case": line, "impl": o[:160]} if shape[0] == "as" and be and api == "up" else None)
        ctx.count("giant:%s:%s" % (cls, names[api]))
        ctx.count("big:model-skipped:" + {"vr": "VR", "ut": "UT", "up": "UP"}[api])
        ctx.count("bo:" + ("be" if be else "le"))
        if parts[0] not in ("ok", "err"):
            ctx.disagreements_checked += 1
            ctx.violation("%s did not return a value or an error (%s)" % (names[api], o[:60]), {"lines": [line], "impl": [o[:300]], "model": ["not run"], "kind": "giant:" + cls})
            continue
        if (f.get("in"), f.get("inlen")) != (crc, str(n)):
            ctx.tie_broken("the harness's plain encoder and wiregen.giant_spec differ on a giant input", "%s\nharness: %s\npython: inlen=%d in=%s" % (line, o[:200], n, crc))
            continue
        why = None
        if content <= wg.MAX_ARRAY:
            if parts[0] != "ok" or int(parts[1]) != n or f.get("same") != "true":
                why = "%s rejects a valid encoding, reports the wrong length or returns a different value" % names[api]
        elif parts[0] == "ok":
            why = "%s accepted an array of more than 2^26 bytes" % names[api]
        if why:
            ctx.disagreements_checked += 1
            ctx.violation(why, {"lines": [line], "impl": [o[:300]], "model": ["not run"], "kind": "giant:" + cls,
                                "specification": "content %d bytes (maximum %d), encoding %d bytes" % (content, wg.MAX_ARRAY, n)})
    return len(cases)


def _fd_indices(tokstr):
    """the descriptor indices of the `h` leaves of a sequence of values"""
    toks = tokstr.split()
    out = []

    def f(tag, payload):
        if tag == "h" and payload.isdigit():
            out.append(int(payload))
        return payload
    pos = 0
    while pos < len(toks):
        t, pos = wg.parse_tokens(toks, pos)
        wg.map_leaves(t, f)
    return out


def _has_multi_map(toks):
    t = toks.split()
    for i, x in enumerate(t):
        if x == "e" and i + 3 < len(t) and t[i + 3].isdigit() and int(t[i + 3]) > 1:
            return True
    return False


def replay(ctx, body):
    d = body["data"]
    exe = vlib.harness_build(["wire"])["wire"]
    if any("...(" in l for l in d["lines"]):
        print("the input was too long to store; re-run ./check C03 %s with VERIF_SEED=%s" % (body.get("tier", "quick"), body.get("seed")))
        return 2
    _, out, _ = vlib.run_lines(exe, [], d["lines"])
    for l, o, old in zip(d["lines"], out, d["impl"]):
        print(l[:200])
        print("   now :", o[:200])
        print("   then:", old[:200])
    same = [o[:len(old)] for o, old in zip(out, d["impl"])] == d["impl"]
    print("REPRODUCED (same outputs as recorded)" if same else "outputs differ from the recorded failing run")
    return 1 if same else 0
