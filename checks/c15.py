"""C15 - body builder and parser are transactional across push/fail/reset/get histories.

Histories of operations on one real MarshalledMessageBody and one real MessageBodyParser; the extracted model
(coq/Wire/Body.v) runs the same lines.  Four generators:

  generic   typed pushes through catalogue types, push_param2..5 (one type: BPUSHN, different types: BPUSHM), push_params,
            push_variant, push_old_param(s), reset, failing element at a random inner position; near-miss signatures; a
            parser walk with matching, mismatching, over-long and mixed-type (PGETM) requests, the mismatching slot of a
            multi-get at the first, a middle and the last position, every failure followed by a retry / get_param.
  decode    a body of good values, then a parser over from_parts(<the same bytes with ONE fault inside one value>, same
            signature): bad bool, bad UTF-8, NUL inside / missing terminator, non-zero padding, length too large,
            replaced variant signature, truncation - so that a get fails while DECODING, after bytes were consumed; the
            failing value sits at the first, a middle or the last slot of get2..5; or (no fault) a variant is requested
            as Var<T> with another T.  After every failure: retry, get_param (the dynamic decoder at the same cursor),
            the typed get of the right type.
  long      the signature is grown to 253..258 and beyond 255 characters, then failing pushes of every kind, small
            successful pushes that step across 254/255/256, reset, more operations.
  offset    a generic / long history whose body is re-made at buf_offset > 0 (from_parts with foreign bytes in front, offsets
            smaller and larger than the body; or through the receive path marshal + unmarshal_next_message) once or twice,
            each time followed by failing pushes of every kind, then the usual pushes, reset and parser walk.  The model's
            body has no offset (bbuf = get_buf()).
  badtree   push_old_param(s) with Param trees no typed value can have: a struct without fields at any depth/position,
            a variant whose signature is not its value's type, arrays/dicts whose declared element types differ from the
            elements.  Expected: refused, no trace, no panic.
  fds       descriptor-rich histories: values with UnixFd leaves (h, (hs), ah, a(hy), (hsh), v[h], a{sh}, the &dyn AsRawFd
            flavour H ..) pushed one by one and through push_param2..5 / push_params / push_old_param(s) / push_variant;
            failing calls in which a LIVE descriptor is attached before a later element fails (a taken descriptor, a bad
            string / path / signature) while descriptors of earlier values are attached; reset, re-homing, parser walk.

Descriptor identity: every `h` leaf the harness makes is a descriptor on a memfd of its own and carries a tag (its number
among the `h` leaves of the history, live and taken alike, in token order); the body state lists the tags of get_fds() in
order ("fds=0,2,3"), found again through fstat (st_dev, st_ino), which the dup() of marshalling preserves.  The model's body
has a descriptor COUNT only, so the expected list is tracked by the check itself: a push that succeeds appends the tags of
the live descriptor leaves of its values in order, a failing one leaves the list, reset empties it, re-homing keeps it.
A decoded descriptor is printed by the harness as the tag of the file behind it and by the model as its index i in the
descriptor list: the tag must be the i-th of the expected list.

Observables compared with the model after EVERY operation (error variants collapsed to "failed"):
  builder ops: result, signature, bytes, number of attached descriptors (and, against the list the check tracks, WHICH
               file sits at which index of get_fds()); validate() after every builder operation of the
               offset / long / corpus histories and once before the parser walk of the others;
  parser ops:  result, decoded value tokens (descriptor values masked, maps canonical), get_next_sig(), sigs_left(),
               and the two private cursors (buf_idx, sig_idx) read off the parser's derived Debug output.
Independently of the model, on the implementation's own output: a failing push leaves (signature, bytes, descriptor
count, descriptor identities in order) as they were; a successful one appends exactly its values' live descriptors; reset leaves them empty; no operation panics; a failing get / getN / get_param leaves (next signature,
signatures left, buf_idx, sig_idx) as they were; a successful one moves sig_idx by exactly the signature characters of the
types it returned and sigs_left by their number.  When model and implementation differ the property is evaluated on
the implementation's output with the extracted SPECIFICATION (spec_enc through the driver's SE op): the bytes a successful
push appended / a successful get stepped over must be the specification's encoding of the values pushed / returned.
"""
import concurrent.futures as cf
import glob
import os

import vlib
import wiregen as wg

# from_parts with a buf_offset that is not a multiple of 8 used to leave later pushes misaligned relative to the body (D31,
# fix c7375b2: such an offset is normalised to 0); every offset modulo 8 is generated.
UNALIGNED_OFFSETS = True
# from_parts(buf, offset) with an ALIGNED offset strictly beyond buf.len(): get_buf() slices buf[offset..] and panics (reported to
# the lead).  Kept out of the histories until that is decided; run() records the probe in the evidence.
ALIGNED_OFFSET_BEYOND_BUFFER = False

PARSER_OPS = ("PNEW", "PNEWX", "PGET", "PGETN", "PGETM", "PGETP")
STATE_KEYS = ("sig", "buf", "nfds", "fds", "next", "left")


def parse_state(line):
    parts = line.split(" ")
    res = parts[0]
    kv = {}
    rest = []
    for p in parts[1:]:
        if "=" in p and p.split("=", 1)[0] in STATE_KEYS:
            k, v = p.split("=", 1)
            kv[k] = v
        else:
            rest.append(p)
    return res, kv, " ".join(rest)


# ----------------------------------------------------------------------------- small helpers on types and token trees
def esig(ty):
    return wg.erased(wg.parse_ext(ty))


def tree_sig(t):
    """D-Bus signature of a parsed token tree (declared element types of arrays and maps)"""
    k = t[0]
    if k == "b":
        return t[1]
    if k == "a":
        return "a" + t[1]
    if k == "r":
        return "(" + "".join(tree_sig(x) for x in t[1]) + ")"
    if k == "e":
        return "a{" + t[1] + t[2] + "}"
    return "v"


def consistent(t):
    """does the token tree denote a value of its own type: no struct without fields, variant signatures = type of the
    content, declared element / key / value types = types of the elements"""
    k = t[0]
    if k == "b":
        return True
    if k == "a":
        return all(tree_sig(x) == t[1] and consistent(x) for x in t[2])
    if k == "r":
        return len(t[1]) > 0 and all(consistent(x) for x in t[1])
    if k == "e":
        return all(tree_sig(a) == t[1] and tree_sig(b) == t[2] and consistent(b) for a, b in t[3])
    return tree_sig(t[2]) == t[1] and consistent(t[2])


def split_sig(s):
    """a sequence of complete types -> list of single types (None if malformed)"""
    out = []
    i = 0
    n = len(s)

    def one(i):
        if i >= n:
            raise ValueError
        c = s[i]
        if c == "a":
            return one(i + 1)
        if c == "(":
            i += 1
            while i < n and s[i] != ")":
                i = one(i)
            if i >= n:
                raise ValueError
            return i + 1
        if c == "{":
            i = one(i + 1)
            i = one(i)
            if i >= n or s[i] != "}":
                raise ValueError
            return i + 1
        return i + 1
    try:
        while i < n:
            j = one(i)
            out.append(s[i:j])
            i = j
    except (ValueError, IndexError):
        return None
    return out


class Enc:
    """Plain encoder of value tokens; marks = (kind, position, length) of the places where a fault makes a decoder fail:
    pad, bool, slen, sbody, term, glen, alen, vsig.  Used ONLY to aim faults: whatever bytes come out, implementation and
    model are run on the same bytes, and the histogram says how often these bytes were the real body's."""

    def __init__(self, be):
        self.order = "big" if be else "little"
        self.buf = bytearray()
        self.marks = []
        self.nfds = 0

    def pad(self, a):
        while len(self.buf) % a:
            self.marks.append(("pad", len(self.buf), 1))
            self.buf.append(0)

    def num(self, v, width):
        self.pad(width)
        self.buf += int(v).to_bytes(width, self.order)

    def text(self, data, lenwidth):
        if lenwidth == 4:
            self.pad(4)
            self.marks.append(("slen", len(self.buf), 4))
            self.num(len(data), 4)
        else:
            self.marks.append(("glen", len(self.buf), 1))
            self.buf.append(len(data) % 256)
        if data:
            self.marks.append(("sbody", len(self.buf), len(data)))
        self.buf += data
        self.marks.append(("term", len(self.buf), 1))
        self.buf.append(0)

    def enc(self, t):
        k = t[0]
        if k == "b":
            tag, p = t[1], t[2]
            if tag == "y":
                self.buf.append(int(p))
            elif tag == "b":
                self.pad(4)
                self.marks.append(("bool", len(self.buf), 4))
                self.num(p, 4)
            elif tag in "nq":
                self.num(p, 2)
            elif tag in "iu":
                self.num(p, 4)
            elif tag == "h":
                self.num(self.nfds, 4)
                self.nfds += 1
            elif tag in "xtd":
                self.num(p, 8)
            elif tag in "so":
                self.text(bytes.fromhex(p) if p != "-" else b"", 4)
            elif tag == "g":
                self.text(bytes.fromhex(p) if p != "-" else b"", 1)
            else:
                raise ValueError(tag)
        elif k in ("a", "e"):
            self.pad(4)
            lp = len(self.buf)
            self.marks.append(("alen", lp, 4))
            self.buf += bytes(4)
            self.pad(8 if k == "e" else wg.type_align(wg.parse_ext(t[1])))
            start = len(self.buf)
            if k == "a":
                for x in t[2]:
                    self.enc(x)
            else:
                for a, b in t[3]:
                    self.pad(8)
                    self.enc(a)
                    self.enc(b)
            self.buf[lp:lp + 4] = (len(self.buf) - start).to_bytes(4, self.order)
        elif k == "r":
            self.pad(8)
            for x in t[1]:
                self.enc(x)
        elif k == "v":
            sg = t[1].encode()
            self.marks.append(("vsig", len(self.buf), len(sg) + 2))
            self.buf.append(len(sg))
            self.buf += sg
            self.buf.append(0)
            self.enc(t[2])
        else:
            raise ValueError(t)


def with_cursor(ops, validate_every=False):
    """PCUR after every parser op; BVALID (body.validate()) after every builder op (validate_every) or once before the parser"""
    out = []
    for o in ops:
        name = o.split(" ", 1)[0]
        if name in ("PNEW", "PNEWX") and not validate_every and out and out[-1] != "BVALID":
            out.append("BVALID")
        out.append(o)
        if name in PARSER_OPS:
            out.append("PCUR")
        elif validate_every and name[0] == "B" and name != "BVALID":
            out.append("BVALID")
    return out


# ----------------------------------------------------------------------------- generators
class Gen:
    def __init__(self, r, cat, mix):
        self.r = r
        self.cat = cat
        self.catset = set(cat)
        self.mix = mix
        self.mixset = set(mix)
        self.by_esig = {}
        for m in mix:
            self.by_esig.setdefault(esig(m), []).append(m)
        self.failable = [t for t in cat if wg.count_leaves(wg.parse_ext(t), "sogh") > 0]
        # the typed variant wrappers around Rust types at the limits of what a variant may carry (gen/catalogue.py marshal_only)
        self.var_limits = [t for t in wg.catalogue_marshal_only() if t.startswith("v[") and (len(t) > 200 or t.startswith("v[aaaaaaaa"))]
        self.mix_failable = [t for t in mix if wg.count_leaves(wg.parse_ext(t), "sogh") > 0]
        # types with descriptor leaves
        self.fd_mix = [t for t in mix if wg.count_leaves(wg.parse_ext(t), "h") > 0]
        self.fd_cat = [t for t in cat if wg.count_leaves(wg.parse_ext(t), "h") > 0]
        # types whose decoding can fail after bytes were consumed
        self.rich = [t for t in mix if wg.count_leaves(wg.parse_ext(t), "sogb") > 0 or not t[0].isalpha() or t[0] in "av"]

    # ---- values
    def value(self, ty, bad=False):
        toks, isbad = wg.gen_value(self.r, wg.parse_ext(ty), bad=bad, dict_sizes=(0, 1))
        return " ".join(toks), isbad

    def push_group(self, types, badpos=-1):
        """one builder op that pushes these types in order (badpos: index of the failing value); returns (op, failing)"""
        r = self.r
        vals = []
        anybad = False
        for i, ty in enumerate(types):
            v, isbad = self.value(ty, bad=(i == badpos))
            anybad = anybad or isbad
            vals.append(v)
        n = len(types)
        same = all(t == types[0] for t in types)
        choices = []
        if all(t in self.mixset for t in types) and n <= 5:
            choices += ["M", "M"]
        if same and types[0] in self.catset and n >= 2:
            choices += ["N"]
        if n == 1 and types[0] in self.catset:
            choices += ["P", "P"]
        choices += ["O"]
        c = r.choice(choices)
        if c == "M":
            return "BPUSHM %d %s" % (n, " ".join("%s %s" % (t, v) for t, v in zip(types, vals))), anybad
        if c == "N":
            return "BPUSHN %s %d %s" % (types[0], n, " ".join(vals)), anybad
        if c == "P":
            return "BPUSH %s %s" % (types[0], vals[0]), anybad
        if n == 1:
            return "BOLD " + vals[0], anybad
        return "BOLDS %d %s" % (n, " ".join(vals)), anybad

    def single_get(self, ty):
        r = self.r
        opts = []
        if ty in self.mixset:
            opts.append("PGETM 1 " + ty)
        if ty in self.catset:
            opts.append("PGET " + ty)
        if not opts:
            return "PGETP"
        return r.choice(opts)

    def other_type(self, ty):
        """a type with a different D-Bus signature (mismatching request)"""
        r = self.r
        for _ in range(8):
            o = r.choice(self.mix if r.random() < 0.6 else self.cat)
            if esig(o) != esig(ty):
                return o
        return "y" if esig(ty) != "y" else "u"

    # ---- the parser walk over known item types (None: only the dynamic API can read it)
    def walk(self, types):
        r = self.r
        ops = []
        n = len(types)
        pos = 0
        guard = 0
        while pos < n and guard < 60:
            guard += 1
            ty = types[pos]
            if ty is None:
                ops += ["PGETM 1 y", "PGETP"]
                pos += 1
                continue
            x = r.random()
            run = 1
            while pos + run < n and run < 5 and types[pos + run] is not None:
                run += 1
            mixrun = 0
            while mixrun < run and types[pos + mixrun] in self.mixset:
                mixrun += 1
            if x < 0.18:
                o = self.other_type(ty)
                ops.append(self.single_get(o))                   # mismatching single request
                if r.random() < 0.5:
                    ops.append(r.choice(["PGETP", self.single_get(ty)]))
                    pos += 1
            elif x < 0.36 and mixrun >= 2:
                k = r.randint(2, mixrun)
                right = list(types[pos:pos + k])
                if r.random() < 0.5:
                    # one slot asks for another type: first, middle or last
                    slots = list(right)
                    j = r.choice([0, k - 1, r.randrange(k)])
                    alt = self.alt_same_sig(slots[j]) if r.random() < 0.3 else slots[j]
                    slots[j] = alt if alt != slots[j] else self.other_type(slots[j])
                    if slots[j] not in self.mixset:
                        slots[j] = "y" if esig(right[j]) != "y" else "u"
                    ops.append("PGETM %d %s" % (k, " ".join(slots)))
                    f = r.random()
                    if f < 0.4:
                        ops.append("PGETM %d %s" % (k, " ".join(right)))
                        pos += k
                    else:
                        ops.append("PGETP" if f < 0.7 else self.single_get(ty))
                        pos += 1
                else:
                    ops.append("PGETM %d %s" % (k, " ".join(right)))
                    pos += k
            elif x < 0.5 and ty in self.catset:
                same = 1
                while pos + same < n and same < 5 and types[pos + same] == ty:
                    same += 1
                if r.random() < 0.4:
                    ops.append("PGETN %s %d" % (ty, min(5, same + 1)))     # one more than there are of this type
                    ops.append(r.choice(["PGETP", self.single_get(ty)]))
                    pos += 1
                elif same >= 2:
                    k = r.randint(2, same)
                    ops.append("PGETN %s %d" % (ty, k))
                    pos += k
                else:
                    ops.append("PGET " + ty)
                    pos += 1
            elif x < 0.62:
                ops.append("PGETP")
                pos += 1
            else:
                ops.append(self.single_get(ty))
                pos += 1
        ops += [r.choice(["PGET y", "PGETM 1 y"]), "PGETP", "PGETM 2 y y"]
        return ops

    def alt_same_sig(self, ty):
        """another Rust type with the same D-Bus signature (Var<T> with another T), else the type itself"""
        alts = [m for m in self.by_esig.get(esig(ty), []) if m != ty]
        return self.r.choice(alts) if alts else ty

    # ---- generic histories
    def generic(self, length):
        r = self.r
        ops = ["BNEW " + r.choice(["le", "be"])]
        items = []                      # types of the committed items, in order (None: only get_param reads it)
        for _ in range(length):
            k = r.random()
            frommix = r.random() < 0.45
            ty = r.choice(self.mix if frommix else self.cat)
            t = wg.parse_ext(ty)
            bad = r.random() < 0.3 and wg.count_leaves(t, "sogh") > 0
            if k < 0.25:
                op, isbad = self.push_group([ty], 0 if bad else -1)
                ops.append(op)
                if not isbad:
                    items.append(ty)
            elif k < 0.42:
                n = r.choice([2, 2, 3, 4, 5, 6])
                if not frommix or n > 5:
                    ty = ty if ty in self.catset else r.choice(self.cat)
                    t = wg.parse_ext(ty)
                    bad = bad and wg.count_leaves(t, "sogh") > 0
                    badpos = r.randrange(n) if bad else -1
                    vals = []
                    anybad = False
                    for i in range(n):
                        v, isbad = self.value(ty, bad=(i == badpos))
                        anybad = anybad or isbad
                        vals.append(v)
                    ops.append("BPUSHN %s %d %s" % (ty, n, " ".join(vals)))
                else:
                    op, anybad = self.push_group([ty] * n, r.randrange(n) if bad else -1)
                    ops.append(op)
                if not anybad:
                    items += [ty] * n
            elif k < 0.55:
                # different types in one push_param2..5
                n = r.choice([2, 3, 4, 5])
                tys = [r.choice(self.mix) for _ in range(n)]
                cands = [i for i, x in enumerate(tys) if wg.count_leaves(wg.parse_ext(x), "sogh") > 0]
                badpos = r.choice(cands) if cands and r.random() < 0.4 else -1
                vals = []
                anybad = False
                for i, x in enumerate(tys):
                    v, isbad = self.value(x, bad=(i == badpos))
                    anybad = anybad or isbad
                    vals.append(v)
                ops.append("BPUSHM %d %s" % (n, " ".join("%s %s" % (x, v) for x, v in zip(tys, vals))))
                if not anybad:
                    items += tys
            elif k < 0.67:
                ty = ty if ty in self.catset else r.choice(self.cat)
                t = wg.parse_ext(ty)
                bad = bad and wg.count_leaves(t, "sogh") > 0
                v, isbad = self.value(ty, bad=bad)
                ops.append("BPUSHV %s %s" % (ty, v))
                if not isbad:
                    vt = "v[%s]" % ty
                    items.append(vt if (vt in self.catset or vt in self.mixset) else None)
            elif k < 0.8:
                v, isbad = self.value(ty, bad=bad)
                ops.append("BOLD " + v)
                if not isbad:
                    items.append(ty)
            elif k < 0.9:
                n = r.choice([1, 2, 3])
                badpos = r.randrange(n) if bad else -1
                vals = []
                anybad = False
                for i in range(n):
                    v, isbad = self.value(ty, bad=(i == badpos))
                    anybad = anybad or isbad
                    vals.append(v)
                ops.append("BOLDS %d %s" % (n, " ".join(vals)))
                if not anybad:
                    items += [ty] * n
            else:
                ops.append("BRESET")
                items = []
        # near misses: a value of a slightly different type (pushed through the dynamic API, which can express any
        # struct), asked for as the catalogue type: must be WrongSignature, never a misread
        near = []
        for _ in range(r.choice([0, 1, 2])):
            ty = r.choice(self.cat)
            t = wg.parse_ext(ty)
            cands = [nm for nm in wg.near_misses(t) if wg.erased(nm) != wg.erased(t) and _struct_arity_ok(nm) and not _has_variant(nm)]
            if not cands:
                continue
            nm = r.choice(cands)
            toks, _ = wg.gen_value(r, nm, bad=False, dict_sizes=(0, 1))
            ops.append("BOLD " + " ".join(toks))
            near.append(ty)
        ops.append("PNEW")
        walk = self.walk(items)
        ops += walk[:-3]
        for ty in near:
            ops.append("PGET " + ty)          # the near miss: wrong signature expected
            ops.append("PGETN %s 2" % ty)
            ops.append("PGETP")               # the dynamic API reads it
        ops += walk[-3:]
        return ops

    # ---- decode-error histories
    def decode(self):
        r = self.r
        bo = r.choice(["le", "be"])
        n = r.choice([2, 3, 3, 4, 4, 5, 6])
        mode = r.choice(["corrupt", "corrupt", "corrupt", "varmismatch"])
        variants = [m for m in self.mix if "v[" in m]
        types = []
        if r.random() < 0.3:
            base = r.choice(self.rich)
            types = [base] * n                                   # a retry at a moved cursor meets a value of the same type
        else:
            types = [r.choice(self.rich if r.random() < 0.8 else self.mix) for _ in range(n)]
        if mode == "varmismatch" and not any("v[" in t for t in types):
            types[r.randrange(n)] = r.choice(variants)
        vals = []
        for ty in types:
            # non-empty containers where possible: the fault should be deep inside
            best = None
            for _ in range(4):
                v, _ = self.value(ty)
                if best is None or len(v) > len(best):
                    best = v
            vals.append(best)
        ops = ["BNEW " + bo]
        i = 0
        while i < n:
            g = r.choice([1, 1, 2, 3, 5])
            g = min(g, n - i)
            # push_group generates its own values: build the op here from the chosen ones
            tys = types[i:i + g]
            vs = vals[i:i + g]
            if g == 1 and tys[0] in self.catset and r.random() < 0.3:
                ops.append("BPUSH %s %s" % (tys[0], vs[0]))
            elif r.random() < 0.3:
                ops.append("BOLD " + vs[0] if g == 1 else "BOLDS %d %s" % (g, " ".join(vs)))
            else:
                ops.append("BPUSHM %d %s" % (g, " ".join("%s %s" % (t, v) for t, v in zip(tys, vs))))
            i += g
        if r.random() < 0.45:
            # the body (and with it the parser's copy) lies behind other bytes, as every received message does
            ops.append(r.choice(["BRECV", "BRECV", "BOFF %d" % self.an_offset()]))
        if mode == "varmismatch":
            c = r.choice([i for i, t in enumerate(types) if "v[" in t])
            ops.append("PNEW")
            bad_req = self.alt_same_sig(types[c])
            label = "varmismatch"
        else:
            e = Enc(bo == "be")
            ranges = []
            for v in vals:
                start = len(e.buf)
                tree, _ = wg.parse_tokens(v.split(), 0)
                e.enc(tree)
                ranges.append((start, len(e.buf)))
            c = r.choice([0] + [1, 2] * 3 + [n - 1] * 2 + [r.randrange(n)])
            c = min(c, n - 1)
            buf, label = self.fault(bytearray(e.buf), e.marks, ranges, c, bo == "be")
            if label.startswith("none"):
                # nothing in this value can be wrong: take another value that has something
                for c2 in r.sample(range(n), n):
                    buf, label = self.fault(bytearray(e.buf), e.marks, ranges, c2, bo == "be")
                    if not label.startswith("none"):
                        c = c2
                        break
            ops.append("PNEWX " + wg.hx(bytes(buf)))
            ops.append("#expect " + wg.hx(bytes(e.buf)))          # (stripped before running) the aimed-at clean bytes
            bad_req = types[c]
        # the walk: values before s one by one, then a multi-get over s..e with the failing value c inside
        s = r.randint(max(0, c - 4), c)
        pos = 0
        while pos < s:
            ops.append(r.choice([self.single_get(types[pos]), "PGETP"]))
            pos += 1
        e_ = r.randint(c, min(n - 1, s + 4))
        k = e_ - s + 1
        if k >= 2 and r.random() < 0.85:
            slots = list(types[s:e_ + 1])
            slots[c - s] = bad_req
            ops.append("PGETM %d %s" % (k, " ".join(slots)))             # fails at slot c - s: first, middle or last
            if r.random() < 0.5:
                ops.append("PGETM %d %s" % (k, " ".join(slots)))         # again
        while pos < c:
            ops.append(r.choice([self.single_get(types[pos]), "PGETP"]))
            pos += 1
        # at the failing value: requests that must fail and leave the parser where it is ...
        ops.append(self.single_get(bad_req) if bad_req in self.mixset else "PGETM 1 " + bad_req)
        follow = [self.single_get(bad_req)]
        alt = self.alt_same_sig(types[c])
        if alt != types[c]:
            follow.append("PGETM 1 " + alt)
        if c + 1 < n:
            follow.append("PGETM 2 %s %s" % (bad_req, types[c + 1]))
            if esig(types[c + 1]) != esig(types[c]):
                follow.append(self.single_get(types[c + 1]))              # mismatching
            if c + 2 < n:
                follow.append("PGETM 3 %s %s %s" % (bad_req, types[c + 1], types[c + 2]))
        r.shuffle(follow)
        ops += follow[:r.randint(1, len(follow))]
        # ... then the requests that show where it is: the dynamic decoder and the typed get of the right type
        if mode == "varmismatch":
            # the value is good: the right request reads it and the walk goes on
            ops.append(r.choice(["PGETP", self.single_get(types[c])]))
            ops += self.walk(types[c + 1:])
        else:
            shows = ["PGETP", self.single_get(types[c])]
            r.shuffle(shows)
            ops += shows
            for ty in types[c + 1:c + 3]:
                ops.append(self.single_get(ty))
            ops.append(r.choice(["PGETP", self.single_get(types[c])]))
        return ops, label

    def fault(self, buf, marks, ranges, c, be):
        """one fault inside value c (late marks preferred, so that the decoder has consumed bytes before it fails)"""
        r = self.r
        order = "big" if be else "little"
        lo, hi = ranges[c]
        ms = sorted([m for m in marks if lo <= m[1] < hi], key=lambda m: m[1])
        cands = []
        for i, m in enumerate(ms):
            cands += [m] * (1 + i)                                 # later marks more often
        if hi - lo >= 2:
            cands += [("trunc", r.randrange(lo + 1, hi), 0)] * max(1, len(ms) // 3)
        if not cands:
            return buf, "none"
        kind, p, ln = r.choice(cands)
        if kind == "trunc":
            return buf[:p], "trunc"
        if kind == "pad":
            buf[p] = r.choice([1, 255, 0x80])
        elif kind == "bool":
            buf[p:p + 4] = r.choice([2, 3, 256, 0xFFFFFFFF, 0x01000001]).to_bytes(4, order)
        elif kind == "sbody":
            buf[p + r.randrange(ln)] = r.choice([0xFF, 0xC0, 0x00, 0x80])
            kind = "text-byte"
        elif kind == "term":
            buf[p] = r.choice([1, 0x61, 255])
        elif kind in ("slen", "alen"):
            v = int.from_bytes(buf[p:p + 4], order)
            nv = r.choice([v + 1, v + 4, v + 8, max(0, v - 1), (1 << 26) + 1, 0xFFFFFF00, v + 3])
            buf[p:p + 4] = (nv % (1 << 32)).to_bytes(4, order)
        elif kind == "glen":
            buf[p] = (buf[p] + r.choice([1, 255, 7])) % 256
        elif kind == "vsig":
            swap = {ord("u"): "i", ord("i"): "u", ord("t"): "x", ord("x"): "t", ord("s"): "o", ord("b"): "u", ord("y"): "g", ord("o"): "s"}
            if ln >= 3 and buf[p + 1] in swap and r.random() < 0.7:
                buf[p + 1] = ord(swap[buf[p + 1]])                 # another valid signature of the same shape
                kind = "vsig-swap"
            else:
                buf[p] = (buf[p] + r.choice([1, 255])) % 256
                kind = "vsig-len"
        return buf, kind

    # ---- long signatures
    def long_sig(self):
        r = self.r
        ops = ["BNEW " + r.choice(["le", "be"])]
        target = r.choice([253, 254, 254, 255, 255, 256, 256, 257, 258, r.randint(259, 300), r.randint(300, 420)])
        cur = 0
        items = []
        # one or two big steps
        while target - cur > 30:
            ty = r.choice([t for t in self.cat if 5 <= len(esig(t)) <= 13 and wg.depth_of(wg.parse_ext(t)) <= 3])
            L = len(esig(ty))
            kmax = (target - cur) // L
            k = r.randint(max(2, kmax // 2), kmax) if kmax >= 2 else 1
            if k < 2:
                break
            vals = [self.value(ty)[0] for _ in range(k)]
            if r.random() < 0.7:
                ops.append("BPUSHN %s %d %s" % (ty, k, " ".join(vals)))
            else:
                ops.append("BOLDS %d %s" % (k, " ".join(vals)))
            items += [ty] * k
            cur += k * L
        d = target - cur
        while d > 0:
            k = d if d <= 5 or r.random() < 0.5 else r.randint(1, min(d, 5))
            k = min(k, 40)
            if k == 1:
                ops.append(r.choice(["BPUSH y y 7", "BOLD y 9", "BPUSHM 1 y y 1", "BPUSHV y y 3"]))
            else:
                ops.append("BPUSHN y %d %s" % (k, " ".join("y %d" % r.randrange(256) for _ in range(k))))
            items += ["y"] * k                                    # (a variant of y reads as None; fixed below)
            if ops[-1].startswith("BPUSHV"):
                items[-1] = "v[y]"
            d -= k
        # failing pushes of every kind around the boundary, small successful pushes in between
        kinds = ["push", "pushv", "pushvi", "pushn", "pushm", "old", "olds", "oldtree", "params"]
        r.shuffle(kinds)
        for kind in kinds[:r.randint(4, 8)]:
            ops.append(self.failing(kind))
            if r.random() < 0.55:
                step = r.choice(["BPUSH y y 1", "BOLD y 2", "BPUSHV y y 3", "BPUSHM 1 y y 4", "BPUSHN y 2 y 1 y 2", "BPUSH s s 6162"])
                ops.append(step)
                items += {"BPUSHV y y 3": ["v[y]"], "BPUSHN y 2 y 1 y 2": ["y", "y"], "BPUSH s s 6162": ["s"]}.get(step, ["y"])
        if r.random() < 0.6:
            ops.append("BRESET")
            items = []
            for _ in range(r.randint(1, 3)):
                if r.random() < 0.5:
                    ops.append(self.failing(r.choice(kinds)))
                else:
                    ty = r.choice(self.mix)
                    ops.append("BPUSHM 1 %s %s" % (ty, self.value(ty)[0]))
                    items.append(ty)
        ops.append("PNEW")
        # a short walk: the first few and whatever the walk reaches
        ops += self.walk(items[:r.choice([0, 2, 4])])
        return ops

    def failing(self, kind):
        """a builder op that must fail after part of it was written (where the type allows it)"""
        r = self.r
        late = [t for t in self.failable if t[0] in "(a"] or self.failable
        if kind == "push":
            ty = r.choice(late)
            return "BPUSH %s %s" % (ty, self.value(ty, bad=True)[0])
        if kind == "pushv":
            ty = r.choice(late)
            return "BPUSHV %s %s" % (ty, self.value(ty, bad=True)[0])
        if kind == "pushvi":
            # push_variant of a Rust type whose OWN signature a variant must not carry (256 / 320 characters, 33 nested
            # arrays: refused before a byte is written, after "v" went into the body signature) or just may (255, 32)
            ty = r.choice(self.var_limits)
            return "BPUSHVI %s %s" % (ty, self.value(ty)[0])
        if kind in ("pushn", "params"):
            ty = r.choice(self.failable)
            n = r.choice([2, 3, 4, 5]) if kind == "pushn" else r.choice([6, 7, 9])
            badpos = r.choice([n - 1, n - 1, r.randrange(1, n)])
            vals = [self.value(ty, bad=(i == badpos))[0] for i in range(n)]
            return "BPUSHN %s %d %s" % (ty, n, " ".join(vals))
        if kind == "pushm":
            n = r.choice([2, 3, 4, 5])
            tys = [r.choice(self.mix) for _ in range(n)]
            badpos = r.choice([n - 1, r.randrange(1, n)])
            tys[badpos] = r.choice(self.mix_failable)
            vals = [self.value(t, bad=(i == badpos))[0] for i, t in enumerate(tys)]
            return "BPUSHM %d %s" % (n, " ".join("%s %s" % (t, v) for t, v in zip(tys, vals)))
        if kind == "old":
            ty = r.choice(late)
            return "BOLD " + self.value(ty, bad=True)[0]
        if kind == "olds":
            ty = r.choice(self.failable)
            n = r.choice([2, 3, 4])
            badpos = r.choice([n - 1, r.randrange(1, n)])
            vals = [self.value(ty, bad=(i == badpos))[0] for i in range(n)]
            return "BOLDS %d %s" % (n, " ".join(vals))
        # oldtree: a good value first, then a tree with a struct without fields deep inside
        good = self.value(r.choice(self.cat))[0]
        return "BOLDS 2 %s %s" % (good, self.badtree()[0])

    # ---- bodies that do not start at offset 0 of their buffer
    def offset(self):
        """a generic (sometimes a long-signature) history in which the body is re-made with buf_offset > 0 - by from_parts
        with foreign bytes in front (offsets smaller and larger than the body) or by the receive path (marshal + unmarshal_next_message)
        - once or twice, each time followed by failing pushes; the model's body has no offset.  Every offset modulo 8 (D31);
        sometimes an offset at / beyond the end of the buffer (BBEYOND: the bytes are gone, the signature stays)"""
        r = self.r
        h = self.long_sig() if r.random() < 0.08 else self.generic(r.choice([2, 3, 5, 8, 12]))
        end = h.index("PNEW")
        for _ in range(r.choice([1, 1, 2])):
            at = r.randint(1, end)
            ins = [r.choice(["BRECV", "BRECV", "BRECV", "BOFF %d" % self.an_offset(), "BOFF %d" % self.an_offset(), self.beyond()])]
            kinds = ["push", "pushv", "pushvi", "pushn", "pushm", "old", "olds", "oldtree", "params"]
            for _ in range(r.choice([1, 1, 2, 3])):
                ins.append(self.failing(r.choice(kinds)))
            if r.random() < 0.3:
                ins.insert(1, r.choice(["BPUSHM 1 y y 5", "BRESET", "BOLD t 1"]))
                if ins[1] != "BRESET":
                    ins = ins[:1] + ins[2:] + [ins[1]]          # the good push last: it must land behind the old values
                    # (its type is not known to the walk: the walk's requests from there on are mismatches, which is fine)
            h[at:at] = ins
            end += len(ins)
        return h

    def beyond(self):
        """from_parts with an offset at or beyond the end of the buffer: the body keeps its signature and loses its bytes"""
        r = self.r
        if r.random() < 0.3:
            return "BBEYOND 0 x"
        return "BBEYOND %d %d" % (r.choice([0, 1, 8, 100]), r.randint(0 if ALIGNED_OFFSET_BEYOND_BUFFER else 1, 7))

    def an_offset(self):
        r = self.r
        n = r.choice([8, 8, 16, 24, 32, 64, 112, 128, 1000, 4096, 8 * r.randint(1, 40)])
        if UNALIGNED_OFFSETS and r.random() < 0.3:
            n += r.randint(1, 7)
        return n

    # ---- inconsistent Param trees
    def badtree(self):
        """(tokens, kind) of a Param tree no typed value can have"""
        r = self.r
        ty = r.choice([t for t in self.cat if not t[0].isalpha() or t[0] in "av"] or self.cat)
        toks, _ = wg.gen_value(r, wg.parse_ext(ty), bad=False, dict_sizes=(0, 1))
        tree, _ = wg.parse_tokens(toks, 0)
        empty = ("r", [])
        kind = r.choice(["empty-struct", "empty-struct", "empty-struct", "variant-sig", "array-elem", "dict-types", "wrap"])
        sigs = ["y", "u", "i", "s", "t", "ay", "as", "(yy)", "(s)", "a{sv}", "v", "b", "o", "(ys)", "aay"]

        # paths to all nodes: list of index tuples
        def nodes(t, path, out):
            out.append((path, t))
            k = t[0]
            if k == "a":
                for i, x in enumerate(t[2]):
                    nodes(x, path + (i,), out)
            elif k == "r":
                for i, x in enumerate(t[1]):
                    nodes(x, path + (i,), out)
            elif k == "e":
                for i, (a, b) in enumerate(t[3]):
                    nodes(b, path + (i,), out)
            elif k == "v":
                nodes(t[2], path + (0,), out)
            return out

        def replace(t, path, f):
            if not path:
                return f(t)
            i, rest = path[0], path[1:]
            k = t[0]
            if k == "a":
                return ("a", t[1], [replace(x, rest, f) if j == i else x for j, x in enumerate(t[2])])
            if k == "r":
                return ("r", [replace(x, rest, f) if j == i else x for j, x in enumerate(t[1])])
            if k == "e":
                return ("e", t[1], t[2], [(a, replace(b, rest, f)) if j == i else (a, b) for j, (a, b) in enumerate(t[3])])
            return ("v", t[1], replace(t[2], rest, f))
        allnodes = nodes(tree, (), [])
        if kind == "empty-struct":
            # any position: root, array element, struct field (first/middle/last), map value, variant content; or a new
            # field / element that is an empty struct
            path, node = r.choice(allnodes)
            how = r.choice(["replace", "replace", "append-field", "prepend-field", "append-elem"])
            if how == "replace" or node[0] not in ("r", "a"):
                out = replace(tree, path, lambda t: empty)
            elif node[0] == "r" and how == "append-field":
                out = replace(tree, path, lambda t: ("r", t[1] + [empty]))
            elif node[0] == "r":
                out = replace(tree, path, lambda t: ("r", [empty] + t[1]))
            else:
                out = replace(tree, path, lambda t: ("a", t[1], t[2] + [empty]))
        elif kind == "variant-sig":
            vs = [(p, n) for p, n in allnodes if n[0] == "v"]
            if vs:
                path, node = r.choice(vs)
                out = replace(tree, path, lambda t: ("v", r.choice([s for s in sigs if s != tree_sig(t[2])]), t[2]))
            else:
                out = ("v", r.choice([s for s in sigs if s != tree_sig(tree)]), tree)
        elif kind == "array-elem":
            arr = [(p, n) for p, n in allnodes if n[0] == "a" and n[2]]
            if arr:
                path, node = r.choice(arr)
                if r.random() < 0.5 or len(node[2]) < 1:
                    out = replace(tree, path, lambda t: ("a", r.choice([s for s in sigs if s != t[1]]), t[2]))
                else:
                    # one element (first, middle or last) of another type
                    other = ("b", "u", "7") if node[1] != "u" else ("b", "y", "7")
                    j = r.choice([0, len(node[2]) - 1, r.randrange(len(node[2]))])
                    out = replace(tree, path, lambda t: ("a", t[1], [other if i == j else x for i, x in enumerate(t[2])]))
            else:
                out = ("a", r.choice([s for s in sigs if s != tree_sig(tree)]), [tree])
        elif kind == "dict-types":
            ds = [(p, n) for p, n in allnodes if n[0] == "e" and n[3]]
            if ds:
                path, node = r.choice(ds)
                if r.random() < 0.5:
                    out = replace(tree, path, lambda t: ("e", r.choice([c for c in "yusqt" if c != t[1]]), t[2], t[3]))
                else:
                    out = replace(tree, path, lambda t: ("e", t[1], r.choice([s for s in sigs if s != t[2]]), t[3]))
            else:
                out = ("e", "y", r.choice([s for s in sigs if s != tree_sig(tree)]), [(("b", "y", "1"), tree)])
        else:
            out = r.choice([("r", [tree, empty]), ("r", [empty, tree]), ("a", "(y)", [empty]), ("a", "(y)", [("r", [("b", "y", "1")]), empty]),
                            ("v", "(y)", empty), ("e", "y", "(y)", [(("b", "y", "1"), empty)]), empty,
                            ("r", [("r", [("r", [empty])])]), ("v", tree_sig(tree), ("r", [tree, ("v", "y", empty)]))])
        return " ".join(wg.print_tree(out, False)), kind

    # ---- descriptor-rich histories
    def fds(self):
        """values with descriptor leaves; failing calls that attach a live descriptor before a later element fails, while
        descriptors of earlier values are attached; returns (ops, shapes)"""
        r = self.r
        ops = ["BNEW " + r.choice(["le", "be"])]
        items = []
        shapes = []
        pool = self.fd_mix * 2 + self.fd_cat

        def single(ty, v):
            """one value through one of the single-value entry points; returns (op, type the walk may ask for)"""
            forms = ["BOLD"]
            if ty in self.catset:
                forms += ["BPUSH", "BPUSH", "BPUSHV"]
            if ty in self.mixset:
                forms += ["BPUSHM", "BPUSHM"]
            f = r.choice(forms)
            if f == "BOLD":
                return "BOLD " + v, ty
            if f == "BPUSHM":
                return "BPUSHM 1 %s %s" % (ty, v), ty
            if f == "BPUSHV":
                vt = "v[%s]" % ty
                return "BPUSHV %s %s" % (ty, v), (vt if (vt in self.catset or vt in self.mixset) else None)
            return "BPUSH %s %s" % (ty, v), ty
        first = True
        for _ in range(r.randint(3, 9)):
            k = 0.0 if first else r.random()
            first = False
            if k < 0.28:
                # good values, at least one with a descriptor
                n = r.choice([1, 1, 2, 3])
                if n == 1:
                    ty = r.choice(pool)
                    op, wty = single(ty, self.value(ty)[0])
                    ops.append(op)
                    items.append(wty)
                else:
                    tys = [r.choice(self.mix) for _ in range(n)]
                    tys[r.randrange(n)] = r.choice(self.fd_mix)
                    if r.random() < 0.3:
                        tys = [r.choice(self.fd_cat)] * n
                    op, anybad = self.push_group(tys)
                    ops.append(op)
                    if not anybad:
                        items += tys
                shapes.append("good")
            elif k < 0.62:
                # a multi-push that attaches a live descriptor and then fails
                if r.random() < 0.6:
                    n = r.choice([2, 3, 4, 5])
                    badpos = r.randint(1, n - 1)
                    tys = [r.choice(self.mix) for _ in range(n)]
                    tys[r.randrange(badpos)] = r.choice(self.fd_mix)
                    tys[badpos] = r.choice(self.mix_failable if r.random() < 0.5 else self.fd_mix)
                else:
                    n = r.choice([2, 3, 4, 5, 6, 7])
                    badpos = r.randint(1, n - 1)
                    tys = [r.choice(self.fd_cat)] * n
                op, anybad = self.push_group(tys, badpos)
                ops.append(op)
                if not anybad:
                    items += tys
                shapes.append("multi-fail" if anybad else "good")
            elif k < 0.78:
                # one value that fails at a late leaf (after a live descriptor of the same value, where the type allows it)
                ty = r.choice([t for t in pool if wg.count_leaves(wg.parse_ext(t), "sogh") >= 2 or t[0] == "a"] or pool)
                v, isbad = self.value(ty, bad=True)
                for _ in range(3):
                    if isbad and " h 0 " in " " + v + " ":
                        break
                    v, isbad = self.value(ty, bad=True)
                op, wty = single(ty, v)
                ops.append(op)
                if not isbad:
                    items.append(wty)
                shapes.append("single-fail" if isbad else "good")
            elif k < 0.86:
                ops.append(self.failing(r.choice(["pushm", "olds", "pushn", "oldtree", "pushvi"])))
                shapes.append("other-fail")
            elif k < 0.93:
                ops.append("BRESET")
                items = []
                shapes.append("reset")
            else:
                ops.append(r.choice(["BRECV", "BOFF %d" % self.an_offset()]))
                shapes.append("rehome")
        ops.append("PNEW")
        ops += self.walk(items)
        return ops, shapes

    def badtrees(self):
        r = self.r
        ops = ["BNEW " + r.choice(["le", "be"])]
        kinds = []
        nops = r.randint(2, 6)
        for _ in range(nops):
            x = r.random()
            if x < 0.3:
                ty = r.choice(self.mix)
                ops.append("BPUSHM 1 %s %s" % (ty, self.value(ty)[0]))
            elif x < 0.7:
                t, kind = self.badtree()
                kinds.append(kind)
                ops.append("BOLD " + t)
            else:
                n = r.choice([2, 3])
                vals = [self.value(r.choice(self.cat))[0] for _ in range(n)]
                t, kind = self.badtree()
                kinds.append(kind)
                vals[r.choice([n - 1, r.randrange(n)])] = t
                ops.append("BOLDS %d %s" % (n, " ".join(vals)))
        ops.append("PNEW")
        ops += ["PGETP"] * r.randint(1, nops + 1)
        return ops, kinds


def _struct_arity_ok(t):
    k = t[0]
    if k == "r":
        return 1 <= len(t[1]) <= 8 and all(_struct_arity_ok(x) for x in t[1])
    if k == "a":
        return _struct_arity_ok(t[1])
    if k == "e":
        return _struct_arity_ok(t[2])
    return True


def _has_variant(t):
    k = t[0]
    if k == "v":
        return True
    if k == "a":
        return _has_variant(t[1])
    if k == "r":
        return any(_has_variant(x) for x in t[1])
    if k == "e":
        return _has_variant(t[2])
    return False


# ----------------------------------------------------------------------------- running
def run_histories(exe, histories, shards):
    """each history in one process (they keep a body/parser between lines): whole histories are dealt to the shards"""
    n = max(1, min(shards, (len(histories) + 39) // 40))
    parts = [histories[i::n] for i in range(n)]

    def one(part):
        lines = [l for h in part for l in h]
        rc, out, err = vlib.run_lines(exe, [], lines)
        if rc != 0 or len(out) != len(lines):
            return None, "rc=%s lines=%d/%d stderr=%s" % (rc, len(out), len(lines), err[-1500:])
        res = []
        pos = 0
        for h in part:
            res.append(out[pos:pos + len(h)])
            pos += len(h)
        return res, ""
    results = [None] * len(histories)
    errs = []
    with cf.ThreadPoolExecutor(n) as ex:
        for i, (res, err) in enumerate(ex.map(one, parts)):
            if res is None:
                errs.append(err)
                continue
            for k, o in enumerate(res):
                results[i + k * n] = o
    return (not errs), results, "\n".join(errs)


def load_corpus():
    out = []
    for f in sorted(glob.glob(os.path.join(vlib.VERIF, "corpus", "C15", "*.case"))):
        cur = []
        for line in open(f):
            line = line.rstrip("\n")
            if line.startswith("#"):
                continue
            if not line.strip():
                if cur:
                    out.append(cur)
                cur = []
            else:
                cur.append(line)
        if cur:
            out.append(cur)
    return out


PROTOCOL_WORDS = ("NOTYPE", "NOOP", "?", "BAD", "PANIC", "badsig", "noparser", "CRASH")


def requested_sigs(op):
    """the D-Bus signatures a parser op asks for (None: get_param)"""
    p = op.split(" ")
    if p[0] == "PGET":
        return [esig(p[1])]
    if p[0] == "PGETN":
        return [esig(p[1])] * int(p[2])
    if p[0] == "PGETM":
        return [esig(x) for x in p[2:2 + int(p[1])]]
    return None


def check_history(ctx, h, hi, hm):
    """returns None or (why, where, is_tie).  is_tie: the difference is one between model and implementation (to be decided by
    evaluating the property on the implementation's own outputs)"""
    prev_state = None
    prev_p = None                 # (next, left, cur) of the implementation before this parser op
    exp_fds = []                  # tags of the descriptors the body must hold, in order (tracked here: the model has a count only)
    parser_fds = []               # the same list at the time the parser was made
    next_tag = 0                  # the harness numbers the `h` leaves it reads since BNEW
    k = 0
    n = len(h)
    while k < n:
        op, li, lm = h[k], hi[k], hm[k]
        opname = op.split(" ")[0]
        res, st, val = parse_state(li)
        resm, stm, valm = parse_state(lm)
        ctx.count("op:" + opname)
        if res in PROTOCOL_WORDS or res.startswith("PANIC") or resm in PROTOCOL_WORDS or resm in ("panic", "ub", "fuel"):
            return ("harness or driver did not understand the line / model outcome outside ok|err (%s | %s)" % (li[:60], lm[:60]), k, "protocol")
        if opname == "BVALID":
            if not (li.startswith("valid=") and lm.startswith("valid=")):
                return ("BVALID answered %s | %s" % (li[:40], lm[:40]), k, "protocol")
            ctx.count("validate:" + li[6:])
            if li != lm:
                # the body itself was compared with the model's on the line before: same signature, same bytes
                if li == "valid=false":
                    return ("validate() rejects a body that is the specification's rendering of the committed values (model: valid)", k, False)
                return ("validate() accepts a body the model's validate rejects", k, "protocol")
            k += 1
            continue
        if opname[0] == "B":
            ctx.count("res:B:" + res)
            if " via=" in li:
                ctx.count("rehomed:" + li.rsplit(" via=", 1)[1])
                if opname != "BBEYOND" and prev_state is not None and res == "ok" and (st.get("sig"), st.get("buf"), st.get("nfds")) != prev_state:
                    return ("re-making the body at another offset changed it (harness)", k, "protocol")
            state = (st.get("sig"), st.get("buf"), st.get("nfds"))
            # descriptor identities: the tags of this call's `h` leaves (None: a taken one), in token order
            if opname == "BNEW":
                next_tag = 0
                exp_fds = []
            leaf_tags = []
            for live in _fd_leaves(op):
                leaf_tags.append(str(next_tag) if live else None)
                next_tag += 1
            fds_before = list(exp_fds)
            if opname == "BRESET":
                exp_fds = []
            elif res == "ok":
                exp_fds = exp_fds + [t for t in leaf_tags if t is not None]
            if res == "panic":
                return ("a builder operation panicked", k, False)
            if res not in ("ok", "err"):
                return ("builder operation neither succeeded nor failed (%s)" % res, k, "protocol")
            if "fds" not in st:
                return ("the harness does not report descriptor identities", k, "protocol")
            got_fds = [] if st["fds"] == "-" else st["fds"].split(",")
            if res == "err" and prev_state is not None and state != prev_state:
                return ("a push that returned an error left a trace in the body", k, False)
            if opname == "BRESET" and (state != ("-", "-", "0") or got_fds):
                return ("reset left something attached", k, False)
            if res == "err" and fds_before and any(t is not None for t in leaf_tags):
                ctx.count("failed-push-with-live-descriptor-while-descriptors-attached")
            if got_fds != exp_fds:
                if res == "err":
                    return ("a push that returned an error changed WHICH descriptors the body holds: get_fds() had the files tagged [%s], now [%s] "
                            "(tags number the descriptor leaves of the history; the bytes still refer to them by index)"
                            % (",".join(fds_before), st["fds"]), k, False)
                if " via=" in li:
                    return ("re-making the body at another offset changed its descriptors (harness): [%s] -> [%s]" % (",".join(exp_fds), st["fds"]), k, "protocol")
                if len(got_fds) != len(exp_fds) and st.get("nfds") == stm.get("nfds"):
                    return ("the check's list of expected descriptors [%s] has another length than the model's count %s (op result %s)"
                            % (",".join(exp_fds), stm.get("nfds"), res), k, "protocol")
                if len(got_fds) == len(exp_fds):
                    return ("after a successful %s get_fds() does not hold the previous descriptors followed by the pushed values' live descriptors "
                            "in order: files tagged [%s], expected [%s]" % ("reset" if opname == "BRESET" else "push", st["fds"], ",".join(exp_fds)), k, False)
                # another COUNT than the model's: reported by the comparison with the model below
            if got_fds:
                ctx.count("builder-op-with-descriptors-attached:" + res)
            if (res, state) != (resm, (stm.get("sig"), stm.get("buf"), stm.get("nfds"))):
                # the model state is the specification's rendering of the committed items (theorem C15_builder);
                # map iteration order can differ: only sizes are compared when a multi-entry map was pushed
                if not (res == resm and st.get("sig") == stm.get("sig") and st.get("nfds") == stm.get("nfds")
                        and len(st.get("buf", "")) == len(stm.get("buf", "")) and " e " in " " + op and _multi_entry(op)):
                    return ("body content differs from the committed values' encoding", k, True)
            if len(st.get("sig", "-")) // 2 > 255 and st.get("sig") != "-":
                ctx.count("builder-op-with-signature>255:" + res)
            prev_state = state
            k += 1
            continue
        # parser op followed by its PCUR line
        cur_i = cur_m = None
        step = 1
        if k + 1 < n and h[k + 1] == "PCUR":
            cur_i, cur_m = hi[k + 1], hm[k + 1]
            step = 2
            if not cur_i.startswith("cur=") or not cur_m.startswith("cur="):
                return ("PCUR answered %s | %s" % (cur_i[:40], cur_m[:40]), k + 1, "protocol")
            if cur_i == "cur=?":
                ctx.count("cursor-unobservable")
                cur_i = cur_m = None
        if res == "panic":
            return ("a parser operation panicked", k, False)
        if res not in ("ok", "err", "wrongsig", "end"):
            return ("parser operation neither succeeded nor failed (%s)" % res, k, "protocol")
        failed = res != "ok"
        failedm = resm != "ok"
        ctx.count("res:P:" + res)
        pstate = (st.get("next"), st.get("left"), cur_i)
        if opname in ("PNEW", "PNEWX"):
            ctx.count("parser-over-body-at-offset:" + ("0" if " at=0" in li + " " or " at=" not in li else ">0"))
            if (st.get("next"), st.get("left"), cur_i) != (stm.get("next"), stm.get("left"), cur_m):
                return ("new parser differs from the model", k, True)
            parser_fds = list(exp_fds)
            prev_p = pstate
            k += step
            continue
        if failed and prev_p is not None:
            moved = (pstate[0], pstate[1]) != (prev_p[0], prev_p[1]) or (pstate[2] is not None and prev_p[2] is not None and pstate[2] != prev_p[2])
            if moved:
                return ("a failed get moved the parser (next signature / signatures left / buf_idx,sig_idx: %s -> %s)" % (prev_p, pstate), k, False)
            ctx.count("failed-get-checked:" + res)
        if not failed and prev_p is not None and prev_p[2] is not None and pstate[2] is not None:
            # advanced by exactly the types returned (signature side, on the implementation's own output)
            want = requested_sigs(op)
            b0, s0 = [int(x) for x in prev_p[2][4:].split(",")]
            b1, s1 = [int(x) for x in pstate[2][4:].split(",")]
            if want is None:
                nxt = prev_p[0]
                want_len = len(nxt) // 2 if nxt not in (None, "none") else None
                cnt = 1
            else:
                want_len = sum(len(x) for x in want)
                cnt = len(want)
            if want_len is not None and (s1 - s0 != want_len or b1 < b0 or int(prev_p[1]) - int(pstate[1]) != cnt):
                return ("a successful get did not advance by exactly the types returned (cursors %s -> %s, asked %s)" % (prev_p[2], pstate[2], want), k, False)
        if (failed != failedm or (pstate[0], pstate[1]) != (stm.get("next"), stm.get("left")) or (cur_i is not None and cur_i != cur_m)
                or (not failed and wg.canon(_fdnorm(val)) != wg.canon(_fdnorm(valm)))):
            return ("parser result differs from the model (type check, value or position)", k, True)
        if not failed and " h " in " " + val:
            # same value up to descriptors: the harness prints the tag of the file behind a decoded descriptor, the model its
            # index in the descriptor list
            tags, idxs = _fd_payloads(val), _fd_payloads(valm)
            if len(tags) == len(idxs) and not _multi_entry(val):
                for tg, ix in zip(tags, idxs):
                    want_tag = parser_fds[int(ix)] if ix.isdigit() and int(ix) < len(parser_fds) else None
                    ctx.count("decoded-descriptor-identity-checked")
                    if want_tag is not None and tg != want_tag:
                        return ("a decoded descriptor is not the file the value was pushed with: index %s of the descriptor list holds the file "
                                "tagged %s, the parser returned the file tagged %s" % (ix, want_tag, tg), k, False)
        prev_p = pstate
        k += step
    return None


def _multi_entry(op):
    toks = op.split(" ")
    for i, t in enumerate(toks):
        if t == "e" and i + 3 < len(toks) and toks[i + 3].isdigit() and int(toks[i + 3]) > 1:
            return True
    return False


def _fd_leaves(op):
    """the descriptor leaves of the values a builder op pushes, in token order (the order the harness reads them and the
    order the marshaller attaches them): True live, False taken"""
    try:
        trees = [wg.parse_tokens(op.split(" "), 2)[0]] if op.startswith("BPUSHVI ") else _values_of(op)
    except Exception:                              # noqa: BLE001 - not a value line this check can read
        return []
    out = []
    for t in trees or []:
        wg.map_leaves(t, lambda tag, p: (out.append(p == "0") if tag == "h" else None, p)[1])
    return out


def _fd_payloads(val):
    toks = val.split()
    out = []
    pos = 0
    try:
        while pos < len(toks):
            tree, pos = wg.parse_tokens(toks, pos)
            wg.map_leaves(tree, lambda tag, p: (out.append(p) if tag == "h" else None, p)[1])
    except Exception:                              # noqa: BLE001
        return []
    return out


def _fdnorm(val):
    if not val.strip():
        return val
    toks = val.split()
    out = []
    pos = 0
    while pos < len(toks):
        tree, pos = wg.parse_tokens(toks, pos)
        out += wg.print_tree(wg.map_leaves(tree, lambda tag, p: "0" if tag == "h" else p), False)
    return " ".join(out)


# ----------------------------------------------------------------------------- the property on the implementation's own outputs
def _values_of(op):
    """(list of value token lists, variant?) pushed by a builder op; None if not a push"""
    p = op.split(" ")
    name = p[0]
    vals = []
    if name in ("BPUSH", "BPUSHV"):
        tree, _ = wg.parse_tokens(p, 2)
        if name == "BPUSHV":
            tree = ("v", esig(p[1]), tree)
        return [tree]
    if name == "BPUSHN":
        pos = 3
        for _ in range(int(p[2])):
            tree, pos = wg.parse_tokens(p, pos)
            vals.append(tree)
        return vals
    if name == "BPUSHM":
        pos = 2
        for _ in range(int(p[1])):
            tree, pos = wg.parse_tokens(p, pos + 1)
            vals.append(tree)
        return vals
    if name == "BOLD":
        return [wg.parse_tokens(p, 1)[0]]
    if name == "BOLDS":
        pos = 2
        for _ in range(int(p[1])):
            tree, pos = wg.parse_tokens(p, pos)
            vals.append(tree)
        return vals
    return None


def _spec_bytes(drv, be, pos, trees, nfds):
    """the specification's encoding of these values one after the other from offset pos (descriptor leaves numbered from
    nfds): (bytes, all encodable) through the driver's SE op"""
    out = b""
    allok = True
    counter = [nfds]

    def f(tag, payload):
        if tag == "h":
            counter[0] += 1
            return str(counter[0] - 1)
        return payload
    for t in trees:
        taken = []
        wg.map_leaves(t, lambda tag, p: taken.append(p) if tag == "h" and p != "0" else p)
        toks = wg.print_tree(wg.map_leaves(t, f), False)
        _, ans, _ = vlib.run_lines(drv, [], ["SE %s %d %s" % ("be" if be else "le", pos + len(out), " ".join(toks))])
        a = ans[0] if ans else ""
        if not a.startswith("spec="):
            return None, False
        hexs = a.split(" ")[0][5:]
        out += bytes.fromhex(hexs) if hexs != "-" else b""
        if "encodable=true" not in a or taken:
            allok = False
    return out, allok


def property_violated(drv, h, hi, where):
    """A model/implementation difference at line `where`: is the PROPERTY violated, judged on the implementation's outputs
    and the extracted specification alone?  Returns (violated, explanation)."""
    op = h[where]
    name = op.split(" ")[0]
    be = h[0].split(" ")[1] == "be"
    res, st, val = parse_state(hi[where])

    def hexb(x):
        return bytes.fromhex(x) if x not in (None, "-") else b""
    if name[0] == "B":
        if res != "ok":
            return False, "the implementation refused the push and left no trace; the property does not oblige it to accept"
        prev = None
        for j in range(where - 1, -1, -1):
            if h[j].split(" ")[0][0] == "B":
                prev = parse_state(hi[j])[1]
                break
        trees = _values_of(op)
        if prev is None or trees is None:
            return True, "no previous state to compare with"
        if not all(consistent(t) for t in trees):
            return True, ("the push succeeded for a Param tree that is not a value of any type (struct without fields, variant "
                          "signature / declared element type different from the content): the body does not describe a value")
        try:
            spec, encodable = _spec_bytes(drv, be, len(hexb(prev.get("buf"))), trees, int(prev.get("nfds", "0")))
        except Exception as e:                      # noqa: BLE001 - a tree the specification side cannot read
            return True, "specification not evaluable (%s)" % e
        wantsig = hexb(prev.get("sig")) + "".join(tree_sig(t) for t in trees).encode()
        if not encodable:
            return True, "the push succeeded although the specification has no encoding for the value"
        if spec is None:
            return True, "specification not evaluable"
        if hexb(st.get("buf")) == hexb(prev.get("buf")) + spec and hexb(st.get("sig")) == wantsig:
            return False, "the body is the previous body plus the specification's encoding of the pushed values"
        if _multi_entry(op) and len(hexb(st.get("buf"))) == len(hexb(prev.get("buf")) + spec) and hexb(st.get("sig")) == wantsig:
            return False, "same size; a multi-entry map may be written in another order"
        return True, "the body is not the previous body plus the specification's encoding of the pushed values"
    # parser
    if name in ("PNEW", "PNEWX"):
        return False, "creating a parser is not an operation the property speaks about"
    if res != "ok":
        return False, "the implementation's get failed and (checked separately) did not move; the property does not oblige it to succeed"
    # the bytes the parser is over, the body signature, the cursors before and after
    buf = sig = None
    for j in range(where - 1, -1, -1):
        nm = h[j].split(" ")[0]
        if nm == "PNEWX" and buf is None:
            buf = hexb(h[j].split(" ")[1])
        if nm[0] == "B":
            stb = parse_state(hi[j])[1]
            sig = hexb(stb.get("sig")).decode("latin-1")
            if buf is None:
                buf = hexb(stb.get("buf"))
            break
    curs = []
    for j in (where - 1, where + 1):
        if 0 <= j < len(h) and h[j] == "PCUR" and hi[j].startswith("cur=") and hi[j] != "cur=?":
            curs.append([int(x) for x in hi[j][4:].split(",")])
        else:
            curs.append(None)
    if sig is None or curs[0] is None or curs[1] is None:
        return True, "cursors not observable: the successful get cannot be justified from the implementation's outputs"
    (b0, s0), (b1, s1) = curs
    types = split_sig(sig[s0:])
    want = requested_sigs(op)
    if types is None:
        return True, "the body signature does not parse from the cursor"
    if want is not None and types[:len(want)] != want:
        return True, "a request for %s was answered with values although the next signatures are %s (misread)" % (want, types[:len(want)])
    cnt = len(want) if want is not None else 1
    if s1 - s0 != sum(len(x) for x in types[:cnt]):
        return True, "signature cursor not advanced by exactly the types returned"
    toks = val.split()
    trees = []
    pos = 0
    try:
        while pos < len(toks):
            t, pos = wg.parse_tokens(toks, pos)
            trees.append(t)
    except Exception:                              # noqa: BLE001
        return True, "returned values unreadable"
    if len(trees) != cnt:
        return True, "number of values returned differs from the number asked for"
    if any(x in val.split() for x in ("e", "h")):
        return False, "maps / descriptors in the value: bytes not re-encoded (order / numbering is not part of the value printed)"
    spec, encodable = _spec_bytes(drv, be, b0, trees, 0)
    if spec is None or not encodable:
        return True, "the value returned has no encoding in the specification"
    if buf[b0:b1] == spec:
        return False, "the bytes stepped over are the specification's encoding of the values returned"
    return True, "byte cursor not advanced by exactly the encoding of the values returned (%d -> %d, encoding has %d bytes)" % (b0, b1, len(spec))


def strip_meta(h):
    return [l for l in h if not l.startswith("#")]


def run(ctx):
    thorough = ctx.tier == "thorough"
    ctx.trusted = ["Coq 8.16.1 kernel", "extraction (ExtrOcamlBasic only) + ocaml/wire/driver.ml (keeps the current body/parser between lines)",
                   "harness/src/bin/c15.rs (incl. the Slot types that let get2..5 / push_param2..5 run over types chosen per line, and the "
                   "reading of buf_idx/sig_idx from the parser's derived Debug output), wirelib.rs, catalogue.rs"]
    ctx.assumptions = ["usize 64 bit, native little endian",
                       "HashMap values are pushed with at most one entry in histories (iteration order would differ between runs)"]
    if not os.environ.get("VERIF_SKIP_PROOF"):
        ctx.try_proof()
    exe = vlib.harness_build(["c15"])["c15"]
    vlib.coq_make(["Wire/Body.vo", "Wire/Ops.vo", "Wire/BodyExamples.vo", "Wire/BodyAdvanceExamples.vo", "Wire/BodyRollbackExamples.vo"])     # the examples are part of the check
    drv = vlib.ocaml_build("wire")
    r = ctx.sub_rng("c15")
    # only types this harness binary can dispatch (the catalogue may be regenerated next to a running check)
    _, ans, _ = vlib.run_lines(exe, [], ["TYPES"])
    known = {}
    for part in (ans[0].split(" ") if ans else []):
        if "=" in part:
            k, v = part.split("=", 1)
            known[k] = v.split(",")
    def readable(t):
        try:
            wg.parse_ext(t)
            return True
        except Exception:                          # noqa: BLE001 - a flavour marker this wiregen does not know yet
            return False
    cat = [t for t in wg.catalogue() if t in set(known.get("catalogue", [])) and readable(t)]
    mix = list(known.get("mix", []))
    if len(cat) < 100 or len(mix) < 20:
        ctx.tie_broken("c15 harness does not report its types", str(ans)[:500])
        return
    ctx.extra["types"] = {"catalogue": len(cat), "mix": len(mix)}
    n_generic, n_decode, n_long, n_tree = (30000, 35000, 6000, 9000) if thorough else (6000, 7000, 1200, 1800)
    n_offset = 12000 if thorough else 2500
    n_fds = 10000 if thorough else 2000
    ctx.rule = ("case = one history on one real body/parser, run line by line against the extracted model. quick: %d generic (BNEW, <= 12 builder "
                "operations: typed push, push_param2..5 with one or with different types, push_params, push_variant, push_old_param(s), reset; "
                "30%% with a failing element at a random inner position; near-miss signatures; parser walk with matching, mismatching, over-long "
                "and mixed-type requests, the mismatching slot of get2..5 first/middle/last, retries after every failure) + %d decode (good body, "
                "parser over the same bytes with one fault inside one value or a Var<T> request with another T; failing value at any slot of "
                "get2..5; retry / get_param / right type after every failure) + %d long (signature grown to 253..258 and beyond 255, then "
                "failing pushes of every kind, reset) + %d badtree (push_old_param(s) with empty structs at any depth, mismatching variants, "
                "arrays/maps with other declared types) + %d offset (the body re-made at buf_offset > 0 by from_parts or by the receive path "
                "marshal + unmarshal_next_message, then failing and succeeding pushes, reset, walk) + %d fds (values with descriptor leaves - h, "
                "(hs), ah, a(hy), (hsh), v[h], a{sh}, the &dyn AsRawFd flavour - pushed singly and through push_param2..5 / push_params / "
                "push_old_param(s) / push_variant; 34%% of the operations are multi-pushes in which a live descriptor is attached before a later "
                "element fails (taken descriptor, bad string / path / signature) while earlier values' descriptors are attached; reset, "
                "re-homing, walk) + corpus/C15; thorough: x5. Descriptor identity: every descriptor leaf is a descriptor on a memfd of its own, "
                "tagged by its number among the history's descriptor leaves; after every builder operation the tags of get_fds() (found through "
                "fstat) are compared with the list the CHECK tracks from the results (the model's body has a count only): ok appends the tags "
                "of the call's live descriptor leaves in order, err keeps the list, reset empties it, re-homing keeps it; a decoded descriptor "
                "(printed as its tag; the model prints its index i) must be the i-th of that list. Parsers are made over a copy of the body at the same buf_offset (45%% of the decode histories re-home "
                "the body first). Compared after every operation: result, signature, "
                "bytes, descriptor count, descriptor identities, validate() (builder); result, value tokens, next signature, signatures left, buf_idx, sig_idx (parser). "
                "non-trivial = at least one failing operation or a reset; distinct = distinct histories"
                % (n_generic, n_decode, n_long, n_tree, n_offset, n_fds))
    # informational, never a verdict (see ALIGNED_OFFSET_BEYOND_BUFFER): an aligned offset strictly beyond the buffer
    probe = ["BNEW le", "BPUSHN y 8 y 1 y 1 y 1 y 1 y 1 y 1 y 1 y 1", "BBEYOND 8 0", "BPUSH y y 2"]
    _, pout, _ = vlib.run_lines(exe, [], probe)
    ctx.extra["aligned_offset_beyond_buffer_probe"] = {"input": probe, "impl": pout, "panics": any(x.startswith("panic") for x in pout),
                                                       "note": "from_parts(buf, offset) with offset % 8 == 0 and offset > buf.len(): get_buf() slices buf[offset..]"}
    g = Gen(r, cat, mix)
    histories = []
    kinds = []
    for h in load_corpus():
        histories.append(h)
        kinds.append("corpus")
    ctx.count("corpus", len(histories))
    for _ in range(n_generic):
        histories.append(g.generic(r.choice([1, 2, 3, 5, 8, 12])))
        kinds.append("generic")
    for _ in range(n_decode):
        h, label = g.decode()
        histories.append(h)
        kinds.append("decode")
        ctx.count("fault:" + label)
    for _ in range(n_long):
        histories.append(g.long_sig())
        kinds.append("long")
    for _ in range(n_offset):
        histories.append(g.offset())
        kinds.append("offset")
    for _ in range(n_fds):
        h, shapes = g.fds()
        histories.append(h)
        kinds.append("fds")
        for x in set(shapes):
            ctx.count("fds-history-with:" + x)
    for _ in range(n_tree):
        h, tk = g.badtrees()
        histories.append(h)
        kinds.append("badtree")
        for x in tk:
            ctx.count("badtree:" + x)
    runnable = [with_cursor(strip_meta(h), validate_every=(kind in ("offset", "corpus", "long", "fds"))) for h, kind in zip(histories, kinds)]
    ok, impl, err = run_histories(exe, runnable, vlib.NPROC)
    if not ok:
        ctx.tie_broken("c15 harness crashed", err)
        return
    ok, model, err = run_histories(drv, runnable, vlib.NPROC)
    if not ok:
        ctx.tie_broken("extracted body model crashed", err)
        return
    # the extracted driver against Coq's own evaluation of the same definitions, on a sample of this run's histories
    import wirecross
    wirecross.hist_cross(ctx, runnable, model, ctx.sub_rng("c15-coqcross"), 300 if ctx.tier == "thorough" else 40)
    for h0, h, hi, hm, kind in zip(histories, runnable, impl, model, kinds):
        nontrivial = any(l.split(" ")[0] not in ("ok",) and not l.startswith("cur=") for l in hi) or "BRESET" in h
        ctx.case("\n".join(h), nontrivial=nontrivial,
                 sample={"kind": kind, "history": [x[:100] for x in h[:8]], "impl": [x[:100] for x in hi[:8]]} if ctx.evaluations % 1201 == 0 else None)
        ctx.count("ops", len(h))
        ctx.count("kind:" + kind)
        # did the aimed fault sit in the real body's bytes (coverage information only)
        for l in h0:
            if l.startswith("#expect "):
                real = [parse_state(x)[1].get("buf") for x, o in zip(hi, h) if o[0] == "B"]
                ctx.count("fault-aimed-at-real-bytes:" + str(bool(real) and real[-1] == l.split(" ")[1]))
        bad = check_history(ctx, h, hi, hm)
        if not bad:
            continue
        why, where, is_tie = bad
        ctx.disagreements_checked += 1
        data = {"kind": kind, "history": h[:where + 2], "impl": hi[:where + 2][-4:], "model": hm[:where + 2][-4:], "at": where}
        if is_tie == "protocol":
            ctx.tie_broken("correspondence: " + why, str(data)[:3000])
        elif is_tie:
            violated, expl = property_violated(drv, h, hi, where)
            data["judged"] = expl
            if violated:
                ctx.violation(why + " - " + expl, data)
            else:
                ctx.tie_broken("correspondence: " + why + " - " + expl, str(data)[:3000])
        else:
            ctx.violation(why, data)


def replay(ctx, body):
    d = body["data"]
    exe = vlib.harness_build(["c15"])["c15"]
    _, out, _ = vlib.run_lines(exe, [], d["history"])
    for l, o in zip(d["history"][-4:], out[-4:]):
        print(l[:160])
        print("   ->", o[:200])
    same = out[-len(d["impl"]):] == d["impl"]
    print("REPRODUCED (same outputs as recorded)" if same else "outputs differ from the recorded failing run")
    return 1 if same else 0
