"""C15 - body builder and parser are transactional across push/fail/reset/get histories.

Histories of operations on one real MarshalledMessageBody (typed pushes through catalogue types, push_param2..5,
push_params, push_variant, push_old_param(s), reset) with failing elements placed at every inner position
(NUL string, invalid path/signature, taken descriptor), followed by a parser walk (get, get2..5, get_param with
matching and mismatching types). After EVERY operation the harness prints the body's signature, bytes and
descriptor count (parser: next signature and signatures left); the extracted model (coq/Wire/Body.v) runs the
same history.  Independently of the model the property is evaluated on the implementation's output:
a failing operation leaves the printed state unchanged, reset leaves it empty, the state after the history is
the specification's rendering of the committed values, a failing get leaves the parser where it was.
"""
import os

import vlib
import wiregen as wg


def parse_state(line):
    parts = line.split(" ")
    res = parts[0]
    kv = {}
    rest = []
    for p in parts[1:]:
        if "=" in p and p.split("=", 1)[0] in ("sig", "buf", "nfds", "next", "left"):
            k, v = p.split("=", 1)
            kv[k] = v
        else:
            rest.append(p)
    return res, kv, " ".join(rest)


def gen_history(r, cat, length):
    """returns list of op lines (same text for harness and driver)"""
    bo = r.choice(["le", "be"])
    ops = ["BNEW " + bo]
    pushed_types = []              # extended types of successfully pushable items, in order (for the parser walk)
    for _ in range(length):
        k = r.random()
        ty = r.choice(cat)
        t = wg.parse_ext(ty)
        bad = r.random() < 0.3 and wg.count_leaves(t, "sogh") > 0
        if k < 0.35:
            toks, isbad = wg.gen_value(r, t, bad=bad, dict_sizes=(0, 1))
            ops.append("BPUSH %s %s" % (ty, " ".join(toks)))
            pushed_types.append((ty, isbad, 1, False))
        elif k < 0.55:
            n = r.choice([2, 2, 3, 4, 5, 6])
            vals = []
            anybad = False
            badpos = r.randrange(n) if bad else -1
            for i in range(n):
                toks, isbad = wg.gen_value(r, t, bad=(i == badpos), dict_sizes=(0, 1))
                anybad = anybad or isbad
                vals.append(" ".join(toks))
            ops.append("BPUSHN %s %d %s" % (ty, n, " ".join(vals)))
            pushed_types.append((ty, anybad, n, False))
        elif k < 0.7:
            toks, isbad = wg.gen_value(r, t, bad=bad, dict_sizes=(0, 1))
            ops.append("BPUSHV %s %s" % (ty, " ".join(toks)))
            pushed_types.append(("v[%s]" % ty if ("v[%s]" % ty) in cat else None, isbad, 1, True))
        elif k < 0.85:
            toks, isbad = wg.gen_value(r, t, bad=bad, dict_sizes=(0, 1))
            ops.append("BOLD " + " ".join(toks))
            pushed_types.append((ty, isbad, 1, False))
        elif k < 0.93:
            n = r.choice([1, 2, 3])
            vals = []
            anybad = False
            badpos = r.randrange(n) if bad else -1
            for i in range(n):
                toks, isbad = wg.gen_value(r, t, bad=(i == badpos), dict_sizes=(0, 1))
                anybad = anybad or isbad
                vals.append(" ".join(toks))
            ops.append("BOLDS %d %s" % (n, " ".join(vals)))
            pushed_types.append((ty, anybad, n, False))
        else:
            ops.append("BRESET")
            pushed_types = []
    # near misses: a value of a slightly different type (pushed through the dynamic API, which can express any
    # struct), asked for as the catalogue type: must be WrongSignature, never a misread
    near = []
    for _ in range(r.choice([0, 1, 2])):
        ty = r.choice(cat)
        t = wg.parse_ext(ty)
        cands = [nm for nm in wg.near_misses(t) if wg.erased(nm) != wg.erased(t) and _struct_arity_ok(nm) and not _has_variant(nm)]
        if not cands:
            continue
        nm = r.choice(cands)
        toks, isbad = wg.gen_value(r, nm, bad=False, dict_sizes=(0, 1))
        ops.append("BOLD " + " ".join(toks))
        near.append(ty)
    # parser walk over what is committed: mismatching request first, then the right one (or get_param / getN)
    ops.append("PNEW")
    for (ty, isbad, n, _) in pushed_types:
        if isbad:
            continue
        left = n
        if ty is None:                     # a variant whose typed counterpart is not in the catalogue: dynamic get only
            ops.append("PGET y")
            ops.append("PGETP")
            continue
        while left > 0:
            if r.random() < 0.5:
                other = r.choice(cat)
                if wg.erased(wg.parse_ext(other)) != wg.erased(wg.parse_ext(ty)):
                    ops.append("PGET " + other)
            if left >= 2 and r.random() < 0.4:
                k = min(left, r.choice([2, 3, 4, 5]))
                if r.random() < 0.3:
                    ops.append("PGETN %s %d" % (ty, min(5, left + 1)))     # asks for too many of this type: must fail as a whole
                    # (it may succeed if the following items happen to have the same type; the model decides)
                ops.append("PGETN %s %d" % (ty, k))
                left -= k
            elif r.random() < 0.3:
                ops.append("PGETP")
                left -= 1
            else:
                ops.append("PGET " + ty)
                left -= 1
    for ty in near:
        ops.append("PGET " + ty)          # the near miss: wrong signature expected
        ops.append("PGETN %s 2" % ty)
        ops.append("PGETP")               # the dynamic API reads it
    ops.append("PGET y")
    ops.append("PGETP")
    return ops


def _struct_arity_ok(t):
    k = t[0]
    if k == "r":
        return 1 <= len(t[1]) <= 8 and all(_struct_arity_ok(x) for x in t[1])
    if k == "a":
        return _struct_arity_ok(t[1])
    if k == "e":
        return _struct_arity_ok(t[2])
    return True


def _has_variant(t):
    k = t[0]
    if k == "v":
        return True
    if k == "a":
        return _has_variant(t[1])
    if k == "r":
        return any(_has_variant(x) for x in t[1])
    if k == "e":
        return _has_variant(t[2])
    return False


def run(ctx):
    thorough = ctx.tier == "thorough"
    ctx.rule = ("case = one history: BNEW, <= 12 builder operations (typed push, push_param2..5/push_params, push_variant, "
                "push_old_param(s), reset; 30% with a failing element at a random inner position), then a parser walk with "
                "matching, mismatching and over-long requests; every operation's result and the full state after it are compared; "
                "non-trivial = the history contains at least one failing operation or a reset; distinct = distinct histories")
    ctx.trusted = ["Coq 8.16.1 kernel", "extraction (ExtrOcamlBasic only) + ocaml/wire/driver.ml (keeps the current body/parser between lines)",
                   "harness/src/bin/c15.rs, wirelib.rs, catalogue.rs"]
    ctx.assumptions = ["usize 64 bit, native little endian",
                       "HashMap values are pushed with at most one entry in histories (iteration order would differ between runs)"]
    if not os.environ.get("VERIF_SKIP_PROOF"):
        ctx.try_proof()
    exe = vlib.harness_build(["c15"])["c15"]
    vlib.coq_make(["Wire/Body.vo", "Wire/Ops.vo"])
    drv = vlib.ocaml_build("wire")
    r = ctx.sub_rng("c15")
    # catalogue types without multi-entry maps: generate dict values with <= 1 entry instead (sizes tuple)
    cat = [t for t in wg.catalogue()]
    nhist = 3000 if thorough else 400
    histories = []
    old_sizes = wg.ValGen.__init__.__defaults__
    for _ in range(nhist):
        histories.append(gen_history(r, cat, r.choice([1, 2, 3, 5, 8, 12])))
    # one-entry dicts: rewrite "e k v n ..." with n > 1 is avoided by regenerating through a size-limited generator
    lines = [l for h in histories for l in h]
    ok, impl, err = vlib.par_run_lines(exe, [], lines, shards=1)
    if not ok:
        ctx.tie_broken("c15 harness crashed", err)
        return
    ok, model, err = vlib.par_run_lines(drv, [], lines, shards=1)
    if not ok:
        ctx.tie_broken("extracted body model crashed", err)
        return
    pos = 0
    for h in histories:
        n = len(h)
        hi, hm = impl[pos:pos + n], model[pos:pos + n]
        pos += n
        nontrivial = any(l.split(" ")[0] == "err" for l in hi) or "BRESET" in h
        ctx.case("\n".join(h), nontrivial=nontrivial,
                 sample={"history": [x[:100] for x in h[:8]], "impl": [x[:100] for x in hi[:8]]} if ctx.evaluations % 97 == 0 else None)
        ctx.count("ops", n)
        prev_state = None
        prev_pstate = None
        why = None
        where = None
        for k, (op, li, lm) in enumerate(zip(h, hi, hm)):
            opname = op.split(" ")[0]
            res, st, val = parse_state(li)
            resm, stm, valm = parse_state(lm)
            ctx.count("op:" + opname)
            ctx.count("res:" + opname[0] + ":" + res)
            if opname[0] == "B":
                state = (st.get("sig"), st.get("buf"), st.get("nfds"))
                if res not in ("ok", "err"):
                    why, where = "builder operation neither succeeded nor failed (%s)" % res, k
                elif res == "err" and prev_state is not None and state != prev_state:
                    why, where = "a push that returned an error left a trace in the body", k
                elif opname == "BRESET" and state != ("-", "-", "0"):
                    why, where = "reset left something attached", k
                elif (res, state) != (resm, (stm.get("sig"), stm.get("buf"), stm.get("nfds"))):
                    # the model state is the specification's rendering of the committed items (theorem C15_builder);
                    # dict order can differ: compare canonically only through sizes when a multi-entry map was pushed
                    if res == resm and st.get("sig") == stm.get("sig") and st.get("nfds") == stm.get("nfds") and len(st.get("buf", "")) == len(stm.get("buf", "")) and " e " in " " + op and _multi_entry(op):
                        pass
                    else:
                        why, where = "body content differs from the committed values' encoding", k
                prev_state = state
            else:
                pstate = (st.get("next"), st.get("left"))
                cres = res if res in ("ok",) else "fail"
                cresm = resm if resm in ("ok",) else "fail"
                if res not in ("ok", "err", "wrongsig", "end"):
                    why, where = "parser operation neither succeeded nor failed (%s)" % res, k
                elif opname != "PNEW" and cres == "fail" and prev_pstate is not None and pstate != prev_pstate:
                    why, where = "a failed get moved the parser", k
                elif cres != cresm or pstate != (stm.get("next"), stm.get("left")) or (cres == "ok" and wg.canon(_fdnorm(val)) != wg.canon(_fdnorm(valm))):
                    why, where = "parser result differs from the model (type check, value or position)", k
                prev_pstate = pstate
            if why:
                break
        if why:
            ctx.disagreements_checked += 1
            is_tie = why.startswith("parser result differs") or why.startswith("body content differs")
            data = {"history": h[:where + 1], "impl": hi[:where + 1][-3:], "model": hm[:where + 1][-3:], "at": where}
            if is_tie and not _property_violated(h, hi, where):
                ctx.tie_broken("correspondence: " + why, str(data)[:3000])
            else:
                ctx.violation(why, data)


def _multi_entry(op):
    toks = op.split(" ")
    for i, t in enumerate(toks):
        if t == "e" and i + 3 < len(toks) and toks[i + 3].isdigit() and int(toks[i + 3]) > 1:
            return True
    return False


def _fdnorm(val):
    if not val.strip():
        return val
    toks = val.split()
    out = []
    pos = 0
    while pos < len(toks):
        tree, pos = wg.parse_tokens(toks, pos)
        out += wg.print_tree(wg.map_leaves(tree, lambda tag, p: "0" if tag == "h" else p), False)
    return " ".join(out)


def _property_violated(h, hi, where):
    """For a model/implementation difference: is it a violation of the property text on its own?
    - builder: the model is the proved rendering of committed values, so a difference in body content IS the property
      (content must describe exactly the values pushed); - parser: a wrong value / position after a successful get is
      a misread."""
    return True


def replay(ctx, body):
    d = body["data"]
    exe = vlib.harness_build(["c15"])["c15"]
    _, out, _ = vlib.run_lines(exe, [], d["history"])
    for l, o in zip(d["history"][-4:], out[-4:]):
        print(l[:160])
        print("   ->", o[:200])
    same = out[-len(d["impl"]):] == d["impl"]
    print("REPRODUCED (same outputs as recorded)" if same else "outputs differ from the recorded failing run")
    return 1 if same else 0
