"""C19 - dispatch routes each call to the matching handler and replies exactly once.

Proof: coq/Properties/C19.v (matcher = segment-by-segment specification, get_match returns a matching
entry / the only one, run() = RunSpec for every handler behaviour and every hash-map iteration order).
Tie: the extracted model (ocaml/c19) and the real crate (harness bin c19) run on the same inputs:
 (a) PathMatcher::get_match with one-entry matchers, exhaustive over all patterns x paths built from the
     segments {a, b, :x, :y, *, ""} up to 4 segments (enumerated inside both binaries, compared by matched
     set with captures and by count), and with 2-5-entry matchers on generated sets (the entry the
     implementation returned is given to the model as the iteration-order oracle);
 (b) DispatchConn::run in a thread over a scripted connection: up to 8 incoming messages, handlers that
     log, add routes, send 0-3 signals of their own through env.conn (lock, send_message + write_all,
     unlock - the documented way to emit from a handler) and return Some/None/Err; run() is called again
     after every failing handler (so that routes a failing handler asked for would show on later
     messages); invocation log, the replies read at the peer and the sequence of run() results are
     compared.  The model has no notion of what a handler sends itself: those signals carry a marker
     interface, the harness takes them out of the peer's trace before the comparison and reports each
     with its position, and the check requires apart that all of them arrived, in order, before the reply
     of the message whose handler sent them.  A run() that is still going 20 s after it started (hang
     detector; a run takes milliseconds) is the verdict "message N never answered".
On a difference the property predicate is evaluated on the implementation's own output.
"""
import concurrent.futures as cf
import glob
import os
import subprocess

import vlib

SEGS = ["a", "b", ":x", ":y", "*", ""]
SEGS_WIDE = ["a", "b", ":x", ":y", "*", "", ":", "**", "a*", "a:b"]
SEGS_COLON = ["a", "a:b", ":x", "*", ""]
SEGS_CASE = ["a", "A", "ab", "ac", "aB", ":x", "*"]    # literals differing only in case / by one character          # a colon after position 0 is a literal (starts_with, not contains)
SEGS_DEEP = ["a", "b", ":x", "*", ""]


def hx(s):
    b = s.encode() if isinstance(s, str) else s
    return b.hex() if b else "-"


def unhx(h):
    return b"" if h == "-" else bytes.fromhex(h)


def run_tasks(exe, tasks, timeout=900):
    """each task (list of input lines) in its own process; returns list of (rc, lines, stderr)"""
    def one(lines):
        p = subprocess.run([exe], input="\n".join(lines) + "\n", stdout=subprocess.PIPE,
                           stderr=subprocess.PIPE, text=True, timeout=timeout, env=vlib.ENV)
        return p.returncode, p.stdout.split("\n")[:-1], p.stderr
    with cf.ThreadPoolExecutor(vlib.NPROC) as ex:
        return list(ex.map(one, tasks))


def run_sharded(ctx, exe, lines, what):
    """lines -> outputs in order (None on failure, recorded as broken tie)"""
    if not lines:
        return []
    n = max(1, min(vlib.NPROC, (len(lines) + 49) // 50))
    chunks = [lines[i::n] for i in range(n)]
    res = run_tasks(exe, chunks)
    outs = [None] * len(lines)
    for i, (rc, out, err) in enumerate(res):
        if rc != 0 or len(out) != len(chunks[i]):
            ctx.tie_broken("%s crashed or produced short output" % what, "rc=%s lines=%d/%d\n%s" % (rc, len(out), len(chunks[i]), err[-2000:]))
            return None
        for k, r in enumerate(out):
            outs[i + k * n] = r
    return outs


# ------------------------------------------------------------------ (a) matcher

def enum_compare(ctx, exe, drv, segs, maxseg, label):
    n = vlib.NPROC
    tasks = [["enum %s %d %d %d" % (",".join(hx(s) for s in segs), maxseg, sh, n)] for sh in range(n)]
    impl = run_tasks(exe, tasks)
    model = run_tasks(drv, tasks)
    pairs = 0
    for (rc_i, out_i, err_i), (rc_m, out_m, err_m), t in zip(impl, model, tasks):
        if rc_i != 0 or not out_i or not out_i[-1].startswith("total"):
            ctx.tie_broken("harness c19 crashed during enumeration " + t[0], err_i[-2000:])
            continue
        if rc_m != 0 or not out_m or not out_m[-1].startswith("total"):
            ctx.tie_broken("model driver c19 crashed during enumeration " + t[0], err_m[-2000:])
            continue
        ti, tm = out_i[-1].split(), out_m[-1].split()
        if ti[1] != tm[1] or ti[5] != tm[5]:
            ctx.tie_broken("enumeration sizes differ (harness and driver enumerate different sets)", "%s vs %s" % (ti, tm))
            continue
        total, nt = int(ti[1]), int(ti[5])
        pairs += total
        ctx.evaluations += total
        ctx.extra_distinct += nt
        ctx.count("enum[%s]:pairs" % label, total)
        ctx.count("enum[%s]:matched_by_model" % label, int(tm[3]))
        mi = {tuple(l.split(" ")[:2]): l for l in out_i[:-1]}
        mm = {tuple(l.split(" ")[:2]): l for l in out_m[:-1]}
        if mi != mm:
            for k in sorted(set(mi) | set(mm)):
                li = mi.get(k, "%s %s N" % k)
                lm = mm.get(k, "%s %s N" % k)
                if li != lm:
                    ctx.disagreements_checked += 1
                    judge_m(ctx, li, lm)
    return pairs


def judge_m(ctx, li, lm):
    """one-entry matcher: the model is proved equal to the specification, so a differing verdict or a
    differing capture set is an input on which the implementation deviates from the property text"""
    p, q, ri = li.split(" ")
    rm = lm.split(" ")[2]
    if rm == "PANIC":
        ctx.tie_broken("model matcher panicked (pattern_new never yields an empty pattern)", lm)
        return
    what = ("matcher %s a path that %s match the pattern segment by segment"
            % ("accepts" if ri != "N" else "rejects", "does not" if rm == "N" else "does")) if (ri == "N") != (rm == "N") \
        else "matcher returns captures that are not the last capture of every name"
    ctx.violation(what, {"kind": "m", "line": "m %s %s" % (p, q), "pattern": unhx(p).decode(), "path": unhx(q).decode(),
                         "impl": ri, "expected": rm})


def gen_pattern(r, segs, maxseg=4):
    return "/".join(r.choice(segs) for _ in range(r.randint(1, maxseg)))


def gen_mm(r):
    """a set of 2..5 patterns likely to overlap on the query"""
    q = [r.choice(["a", "b", ""]) for _ in range(r.randint(1, 4))]
    pats = []
    for _ in range(r.randint(2, 5)):
        k = r.random()
        if k < 0.6:
            # derive from the query: replace segments by named/wildcard parts, maybe cut after a wildcard
            p = [s if r.random() < 0.5 else r.choice([":x", ":y", "*", s]) for s in q]
            if r.random() < 0.3 and len(p) > 1:
                cut = r.randint(1, len(p) - 1)
                p = p[:cut] + ["*"]
            if r.random() < 0.1:
                p[r.randrange(len(p))] = r.choice(["a", "b"])
            pats.append("/".join(p))
        else:
            pats.append(gen_pattern(r, SEGS))
    return "/".join(q), pats


def check_mm(ctx, exe, drv, cases):
    lines = ["mm %s %s" % (hx(q), " ".join(hx(p) for p in pats)) for q, pats in cases]
    impl = run_sharded(ctx, exe, lines, "harness c19 (mm)")
    if impl is None:
        return
    mlines = []
    for (q, pats), ri in zip(cases, impl):
        choice = ri.split(":")[1] if ri.startswith("H:") else "0"
        mlines.append("mm %s %s %s" % (choice, hx(q), " ".join(hx(p) for p in pats)))
    model = run_sharded(ctx, drv, mlines, "model driver c19 (mm)")
    if model is None:
        return
    bad = []
    for (q, pats), ri, rm in zip(cases, impl, model):
        nt = rm != "N"
        ctx.case(("mm", q, tuple(pats)), nontrivial=nt,
                 sample={"query": q, "patterns": pats, "impl": ri, "model": rm} if nt and len(pats) > 2 else None)
        ctx.count("mm:match" if nt else "mm:nomatch")
        ctx.count("mm:entries=%d" % len(set(pats)))
        if ri != rm:
            bad.append((q, pats, ri, rm))
    if bad:
        sets = run_sharded(ctx, drv, ["mmset %s %s" % (hx(q), " ".join(hx(p) for p in pats)) for q, pats, _, _ in bad], "model driver c19 (mmset)")
        for (q, pats, ri, rm), st in zip(bad, sets or []):
            ctx.disagreements_checked += 1
            why = judge_mm(ri, st)
            data = {"kind": "mm", "line": "mm %s %s" % (hx(q), " ".join(hx(p) for p in pats)), "query": q, "patterns": pats,
                    "impl": ri, "matching_entries": st}
            if why:
                ctx.violation(why, data)
            else:
                ctx.tie_broken("correspondence: get_match result differs from the model although it is a matching entry", str(data))


def judge_mm(ri, st):
    if st == "N":
        return None if ri == "N" else "get_match returns a handler although no pattern matches the path"
    if ri == "N":
        return "get_match returns nothing although a pattern matches the path"
    if not ri.startswith("H:"):
        return "get_match did not return normally (%s)" % ri
    return None if ri[2:] in st.split("/") else "get_match returns an entry whose pattern does not match the path, or wrong captures"


# ------------------------------------------------------------------ (b) run

def gen_path(r):
    k = r.choice([0, 1, 1, 2, 2, 2, 3, 3, 4])
    if k == 0:
        return "/"
    return "/" + "/".join(r.choice(["a", "b", "c"]) for _ in range(k))


def gen_route(r, paths):
    k = r.random()
    if k < 0.55 and paths:
        segs = r.choice(paths).split("/")[1:]
        if segs == [""]:
            return r.choice(["/", "/*", "/:x"])
        p = [s if r.random() < 0.5 else r.choice([":x", ":y", "*"]) for s in segs]
        if r.random() < 0.3 and len(p) > 1:
            p = p[:r.randint(1, len(p) - 1)] + ["*"]
        return "/" + "/".join(p)
    if k < 0.9:
        return "/" + "/".join(r.choice(["a", "b", "c", ":x", ":y", "*"]) for _ in range(r.randint(1, 4)))
    return r.choice(["/", "/*", "*", "", "a/b", "/a/", "/:x/:x", "/*/*"])


def gen_run(r):
    nmsg = r.choice([1, 2, 3, 4, 5, 6, 7, 8, 8])
    paths = [gen_path(r) for _ in range(nmsg)]
    nextid = [100]
    routes = []
    for i in range(r.choice([0, 1, 2, 2, 3, 4])):
        routes.append((gen_route(r, paths), i + 1))
    msgs = []
    p_err = r.choice([0.0, 0.0, 0.1, 0.25])
    p_emit = r.choice([0.0, 0.15, 0.3, 0.6])
    for i in range(nmsg):
        k = r.random()
        # c call, k call that also carries a REPLY_SERIAL field, s signal (always has a path),
        # r method return and e error (with or without a path)
        typ = "c" if k < 0.6 else ("k" if k < 0.68 else ("s" if k < 0.84 else ("r" if k < 0.92 else "e")))
        has_path = typ in "cks" or r.random() < 0.5
        k = r.random()
        res = "E" if k < p_err else ("S" if k < p_err + 0.45 else "N")
        body = "".join(r.choice("abcxyz019 _") for _ in range(r.randint(0, 6))) if res == "S" else ""
        nr = []
        if r.random() < 0.4:
            for _ in range(r.choice([1, 1, 2, 3])):
                nr.append((gen_route(r, paths[i + 1:] or paths), nextid[0]))
                nextid[0] += 1
        sender = None if r.random() < 0.15 else ":1.%d" % r.randint(1, 99)
        flags = r.choice([0, 0, 1, 1, 2, 4, 255])           # 1 = NO_REPLY_EXPECTED: the property still asks for one reply
        dest = r.choice([None, None, "org.me", ":1.1"])
        inbody = r.choice([None, None, "x", "payload"])
        bo = r.choice("llB")
        # what the handler sends itself through env.conn before it returns (one lock around all / one per signal)
        emit = r.choice([1, 1, 2, 3]) if r.random() < p_emit else 0
        relock = emit > 0 and r.random() < 0.4
        msgs.append({"emit": emit, "relock": relock, "flags": flags, "dest": dest, "inbody": inbody, "bo": bo, "serial": 10 + i, "typ": typ, "obj": paths[i] if has_path else None, "sender": sender,
                     "res": res, "body": body, "newroutes": nr})
    return {"routes": routes, "msgs": msgs}


def fmt_routes(rs):
    return ",".join("%s:%d" % (hx(p), i) for p, i in rs) if rs else "-"


def run_line(case):
    ms = []
    for m in case["msgs"]:
        ms.append(";".join([str(m["serial"]), m["typ"], hx(m["obj"]) if m["obj"] is not None else "-",
                            hx(m["sender"]) if m["sender"] is not None else "-", m["res"],
                            hx(m["body"]) if m["res"] == "S" else "-", fmt_routes(m["newroutes"]),
                            str(m.get("flags", 0)), hx(m["dest"]) if m.get("dest") is not None else "-",
                            hx(m["inbody"]) if m.get("inbody") is not None else "-", m.get("bo", "l"),
                            "%s%d" % ("p" if m.get("relock") else "e", m.get("emit", 0))]))
    return "%s %s" % (fmt_routes(case["routes"]), "|".join(ms) if ms else "-")


def parse_out(line):
    d = {}
    for tok in line.split(" "):
        k, _, v = tok.partition("=")
        d[k] = [] if v == "-" else v.split("|")
    d["end"] = d["end"][0] if d.get("end") else "?"
    d.setdefault("emits", [])
    return d


def expected_emits(case):
    """every message is given to a handler (run() is called again after a failing one); what the handler of
    message i sends itself arrives after one reply per earlier successfully handled message and before
    its own"""
    out, written = [], 0
    for m in case["msgs"]:
        for j in range(m.get("emit", 0)):
            out.append("%s@%d" % (hx("%d.%d" % (m["serial"], j)), written))
        if m["res"] != "E":
            written += 1
    return out


def is_call(m):
    return m["typ"] in ("c", "k")


def call_replies(case, replies):
    """the replies that answer method calls (the property speaks of calls). Replies are written in message
    order: when there is one per successfully handled message they are attributed by position,
    otherwise by reply serial."""
    ok = [m for m in case["msgs"] if m["res"] != "E"]
    if len(replies) == len(ok):
        return [x for m, x in zip(ok, replies) if is_call(m)]
    noncall = {str(m["serial"]) for m in case["msgs"] if not is_call(m)}
    return [x for x in replies if x.split(";")[1] not in noncall]


def judge_run(case, out, sets):
    """the property, evaluated on what the implementation did; sets[i] = the entries whose pattern
    matches message i under the routing the property prescribes. None = property holds."""
    msgs = case["msgs"]
    if "hang" in out["end"]:
        n = len(out["log"])
        last = msgs[n - 1] if 0 < n <= len(msgs) else None
        return ("run() did not come back within 20 s: message %s (invocation %d of %d, its handler %s) was never answered "
                "and the %d messages after it were given to no handler"
                % (last["serial"] if last else "?", n, len(msgs),
                   "sends through env.conn" if last and last.get("emit") else "only logs", max(0, len(msgs) - n)))
    if any(x.startswith("undecodable") for x in out["replies"]):
        return "the bytes written to the caller are not well-formed messages"
    # the harness calls run() again after every failing handler, so every message is dispatched
    nerr = sum(1 for m in msgs if m["res"] == "E")
    nproc = len(msgs)
    log = [x.split(";") for x in out["log"]]
    if len(log) != nproc:
        return "%d handler invocations for %d messages (exactly one per message expected)" % (len(log), nproc)
    for i in range(nproc):
        who, serial, caps = log[i]
        if serial != str(msgs[i]["serial"]):
            return "invocation %d was given message %s instead of %s" % (i, serial, msgs[i]["serial"])
        st = sets[i]
        if st == "N":
            if who != "D":
                return "message %d (%s): handler %s called although no pattern matches (or its routes should not apply)" % (i, msgs[i]["obj"], who)
        else:
            if who == "D":
                return "message %d (%s): default handler called although a pattern matches" % (i, msgs[i]["obj"])
            if "%s:%s" % (who, caps) not in st.split("/"):
                return "message %d (%s): handler %s with captures %s is not a matching route (matching: %s)" % (i, msgs[i]["obj"], who, caps, st)
    want = []
    for i in range(nproc):
        m = msgs[i]
        if is_call(m) and m["res"] != "E":
            want.append(m)
    got = call_replies(case, out["replies"])
    if len(got) != len(want):
        return "%d replies written for %d successfully handled calls (exactly one each expected)" % (len(got), len(want))
    for m, g in zip(want, got):
        typ, rs, dest, codes, body = g.split(";")
        if typ != "2" or rs != str(m["serial"]):
            return "reply to call %d has type %s and reply serial %s" % (m["serial"], typ, rs)
        if dest != (hx(m["sender"]) if m["sender"] is not None else "-"):
            return "reply to call %d is not addressed to its sender" % m["serial"]
        if m["res"] == "S" and body != "s:" + hx(m["body"]):
            return "the handler's reply to call %d was not the message written" % m["serial"]
        if m["res"] == "N" and (body != "-" or codes not in ("5", "5.6")):
            return "the default reply to call %d is not empty" % m["serial"]
    if out["end"] != ",".join(["handler"] * nerr + ["conn"]):
        return "run() returned %s for %d failing handlers (it must stop at each failing handler and only there)" % (out["end"], nerr)
    return None


def check_run(ctx, exe, drv, cases):
    lines = ["run " + run_line(c) for c in cases]
    impl = run_sharded(ctx, exe, lines, "harness c19 (run)")
    if impl is None:
        return
    mlines = []
    for c, li in zip(cases, impl):
        o = parse_out(li)
        choices = ",".join(x.split(";")[0] for x in o.get("log", [])) or "-"
        mlines.append("run %s %s" % (run_line(c), choices))
    model = run_sharded(ctx, drv, mlines, "model driver c19 (run)")
    if model is None:
        return
    bad = []
    for c, li, lm in zip(cases, impl, model):
        oi, om = parse_out(li), parse_out(lm)
        if oi["end"] == "skipped":            # an earlier run of the same harness process hung (reported there)
            ctx.count("run:skipped_after_a_hang")
            continue
        routed = sum(1 for x in om["log"] if not x.startswith("D;"))
        added = sum(len(m["newroutes"]) for m in c["msgs"])
        nt = routed > 0 or added > 0
        ctx.case(("run", run_line(c)), nontrivial=nt,
                 sample={"case": run_line(c), "impl": li} if nt and len(c["msgs"]) >= 4 and len(ctx.samples) < 6 else None)
        ctx.count("run:msgs=%d" % len(c["msgs"]))
        for m in c["msgs"]:
            ctx.count("run:flags=%d" % m.get("flags", 0))
            ctx.count("run:byte_order=%s" % m.get("bo", "l"))
            ctx.count("run:msg_type=%s%s" % ({"c": "call", "k": "call+reply_serial", "s": "signal", "r": "method_return", "e": "error"}[m["typ"]],
                                             "" if m["obj"] is not None else "(no path)"))
        ctx.count("run:failing_handlers=%d" % om["end"].count("handler"))
        ctx.count("run:routed_invocations", routed)
        ctx.count("run:default_invocations", len(om["log"]) - routed)
        ctx.count("run:routes_added_by_handlers", added)
        emitted = sum(m.get("emit", 0) for m in c["msgs"])
        ctx.count("run:signals_sent_by_handlers_through_env.conn", emitted)
        ctx.count("run:handlers_sending_through_env.conn", sum(1 for m in c["msgs"] if m.get("emit")))
        ctx.count("run:handlers_sending_with_one_lock_per_signal", sum(1 for m in c["msgs"] if m.get("relock")))
        same = (oi["log"] == om["log"] and oi["end"] == om["end"]
                and oi["replies"] == om["replies"]        # everything run() wrote, for calls and non-calls alike
                and oi["emits"] == expected_emits(c))     # what the handlers wrote: all there, in order, before their reply
        if not same:
            bad.append((c, li, lm))
    if bad:
        sets = run_sharded(ctx, drv, ["runsets " + run_line(c) for c, _, _ in bad], "model driver c19 (runsets)")
        for (c, li, lm), st in zip(bad, sets or []):
            ctx.disagreements_checked += 1
            why = judge_run(c, parse_out(li), st.split("|") if st != "-" else [])
            data = {"kind": "run", "case": c, "line": "run " + run_line(c), "impl": li, "model": lm, "matching_routes_per_message": st,
                    "signals_expected_from_handlers": expected_emits(c)}
            if why:
                ctx.violation(why, data)
            elif parse_out(li)["emits"] != expected_emits(c):
                ctx.tie_broken("correspondence: the signals the handlers sent through env.conn did not all arrive, in order, before "
                               "the reply of their message (the routing and the replies themselves are as the property says)", str(data)[:3000])
            else:
                ctx.tie_broken("correspondence: run() differs from the model on a point the property does not constrain", str(data)[:3000])


# ------------------------------------------------------------------ driver

def corpus_cases():
    ms, mms, runs = [], [], []
    for f in sorted(glob.glob(os.path.join(vlib.VERIF, "corpus", "C19", "*.case"))):
        for line in open(f):
            line = line.strip()
            if not line or line.startswith("#"):
                continue
            parts = line.split(" ")
            if parts[0] == "m":
                ms.append((unhx(parts[1]).decode(), unhx(parts[2]).decode()))
            elif parts[0] == "mm":
                mms.append((unhx(parts[1]).decode(), [unhx(p).decode() for p in parts[2:]]))
            elif parts[0] == "run":
                runs.append(parse_run_line(parts[1], parts[2]))
    return ms, mms, runs


def parse_routes(s):
    return [] if s == "-" else [(unhx(r.split(":")[0]).decode(), int(r.split(":")[1])) for r in s.split(",")]


def parse_run_line(routes, msgs):
    out = []
    if msgs != "-":
        for m in msgs.split("|"):
            f = m.split(";")
            out.append({"serial": int(f[0]), "typ": f[1], "obj": None if f[2] == "-" else unhx(f[2]).decode(),
                        "sender": None if f[3] == "-" else unhx(f[3]).decode(), "res": f[4],
                        "body": unhx(f[5]).decode(), "newroutes": parse_routes(f[6]),
                        "flags": int(f[7]) if len(f) > 7 else 0, "dest": None if len(f) <= 8 or f[8] == "-" else unhx(f[8]).decode(),
                        "inbody": None if len(f) <= 9 or f[9] == "-" else unhx(f[9]).decode(), "bo": f[10] if len(f) > 10 else "l",
                        "emit": int(f[11][1:]) if len(f) > 11 else 0, "relock": len(f) > 11 and f[11][0] == "p"})
    return {"routes": parse_routes(routes), "msgs": out}


def check_m(ctx, exe, drv, pairs):
    lines = ["m %s %s" % (hx(p), hx(q)) for p, q in pairs]
    impl = run_sharded(ctx, exe, lines, "harness c19 (m)")
    model = run_sharded(ctx, drv, lines, "model driver c19 (m)")
    if impl is None or model is None:
        return
    for (p, q), li, lm in zip(pairs, impl, model):
        nt = any(s.startswith(":") or s == "*" for s in p.split("/")) and len(q.split("/")) >= len(p.split("/"))
        ctx.case(("m", p, q), nontrivial=nt, sample={"pattern": p, "path": q, "impl": li.split(" ")[2]} if nt and len(p) > 8 else None)
        ctx.count("m:match" if lm.endswith(" N") is False else "m:nomatch")
        if li != lm:
            ctx.disagreements_checked += 1
            judge_m(ctx, li, lm)


def coq_list(b):
    return "[" + ";".join(str(x) for x in b) + "]"


def crosscheck_extraction(ctx, drv, pairs):
    """thorough tier: the extracted OCaml model and its driver against vm_compute inside Coq on a sample
    (verdict and number of captures of the matcher)"""
    lines = ["m %s %s" % (hx(p), hx(q)) for p, q in pairs]
    out = run_sharded(ctx, drv, lines, "model driver c19 (cross-check)")
    if out is None:
        return
    items = []
    for (p, q), l in zip(pairs, out):
        res = l.split(" ")[2]
        ok = res != "N"
        n = 0 if not ok or res == "M:-" else len(res[2:].split(","))
        items.append("(%s, %s, %s, %d%%nat)" % (coq_list(p.encode()), coq_list(q.encode()), "true" if ok else "false", n))
    v = ("From RB Require Import Base.Prelude Conn.DispatchMsg Conn.Dispatch.\n"
         "Definition cases : list (list N * list N * bool * nat) := [\n%s].\n"
         "Definition agree (c : list N * list N * bool * nat) : bool :=\n"
         "  let '(p, q, ok, n) := c in\n"
         "  match matches (pattern_new p) q with\n"
         "  | Ok m => ok && Nat.eqb (length m) n\n"
         "  | Err => negb ok\n"
         "  | _ => false\n"
         "  end.\n"
         "Eval vm_compute in (forallb agree cases).\n") % ";\n".join(items)
    res = vlib.coq_eval("c19cases", v)
    ctx.extra["extraction_crosscheck"] = "%d matcher cases evaluated with vm_compute inside Coq and by the extracted model: %s" % (
        len(pairs), "agree" if "= true" in res else "DISAGREE")
    if "= true" not in res:
        ctx.tie_broken("extracted model / driver disagree with vm_compute inside Coq", res[-1500:])


def run(ctx):
    thorough = ctx.tier == "thorough"
    ctx.rule = ("(a) one-entry PathMatcher::get_match on ALL pattern x path pairs built from 1..4 segments of {a,b,:x,:y,*,\"\"} "
                "(enumerated inside harness and extracted model; thorough adds 1..5 segments of {a,b,:x,*,\"\"} and 1..3 of a wider "
                "alphabet with ':', '**', 'a*'), plus generated long/odd pairs and 2-5-entry matchers built around a query; "
                "(b) DispatchConn::run over a scripted socket: 0-4 initial routes, 1-8 incoming messages (calls, signals "
                "with a path, method returns and errors with and without a path; flags 0/1(NO_REPLY_EXPECTED)/2/4/255, optional destination, "
                "optional string body, both byte orders), handlers returning Some/None/Err, adding routes and (in 3 of 4 runs, "
                "15-60% of the handlers) sending 1-3 signals themselves through env.conn before they return, with one lock around "
                "all or one per signal; the model is kept without handler emissions: the marker-interface signals are taken out of "
                "the peer's trace before it is compared with the model's and must, apart, all be there in order before the reply of "
                "their message; a run() not back 20 s after it started is reported as a call never answered. Non-trivial: matcher "
                "pair whose pattern has a named or wildcard part and whose path is not shorter than the pattern; "
                "multi-entry case with at least one matching entry; run in which a non-default handler is invoked or a "
                "route is added. Distinct = distinct inputs (hashed); enumerated pairs are distinct by construction.")
    ctx.trusted = ["Coq 8.16.1 kernel (coqc), no native_compute", "extraction with ExtrOcamlBasic only, ocamlfind ocamlopt 4.13.1",
                   "ocaml/c19/driver.ml and harness/src/bin/c19.rs (I/O wrappers; the harness has its own little-endian message codec for the peer side)",
                   "Conn/DispatchSpec.v is my reading of the property text",
                   "std: str::split, HashMap (modelled as association list + iteration-order oracle)"]
    ctx.assumptions = ["sending a reply succeeds (peer reads; C10 covers sending)",
                       "HashMap iteration order is arbitrary but a permutation of the entries; the harness cannot read it (private field), "
                       "so the entry the implementation picked is passed to the model as the order oracle",
                       "object paths reaching run() are valid D-Bus paths (the header decoder rejects others); arbitrary strings are "
                       "exercised through the public PathMatcher::get_match"]
    ctx.try_proof()
    exe = vlib.harness_build(["c19"])["c19"]
    vlib.coq_make(["Conn/Dispatch.vo"])
    drv = vlib.ocaml_build("c19")
    try:
        vlib.coq_make(["Conn/DispatchExamples.vo"])           # non-vacuity examples next to the theorems
        ctx.extra["examples"] = "Conn/DispatchExamples.v builds"
    except vlib.BrokenTie as bt:
        ctx.tie_broken("the non-vacuity examples Conn/DispatchExamples.v no longer check", bt.detail)

    c_m, c_mm, c_run = corpus_cases()
    ctx.count("corpus", len(c_m) + len(c_mm) + len(c_run))

    # (a) exhaustive enumeration
    total = enum_compare(ctx, exe, drv, SEGS, 4, "6 segs<=4")
    ctx.extra["exhaustive_matcher_scope"] = "all %d pairs: patterns and paths of 1..4 segments over %s" % (total, SEGS)
    enum_compare(ctx, exe, drv, SEGS_COLON, 3, "colon segs<=3")
    enum_compare(ctx, exe, drv, SEGS_CASE, 3, "case/one-char segs<=3")
    if thorough:
        enum_compare(ctx, exe, drv, SEGS_DEEP, 5, "5 segs<=5")
        enum_compare(ctx, exe, drv, SEGS_WIDE, 3, "10 segs<=3")
    ctx.exhaustive = False

    # (a) generated pairs beyond the enumerated scope
    r = ctx.sub_rng("m")
    pairs = list(c_m)
    for _ in range(20000 if thorough else 2000):
        segs = r.choice([SEGS, SEGS_WIDE, ["a", "b", "c", ":x", ":id", "*", "", "é", ":é"]])
        p = gen_pattern(r, segs, 8)
        if r.random() < 0.7:
            q = [s if not (s.startswith(":") or s == "*") else r.choice(["a", "b", "", "zz", "*", ":x"]) for s in p.split("/")]
            if r.random() < 0.3:
                q += [r.choice(["a", ""]) for _ in range(r.randint(1, 3))]
            if r.random() < 0.15 and len(q) > 1:
                q = q[:-1]
            q = "/".join(q)
        else:
            q = gen_pattern(r, ["a", "b", "", "*", ":x"], 8)
        pairs.append((p, q))
    check_m(ctx, exe, drv, pairs)
    if thorough:
        crosscheck_extraction(ctx, drv, pairs[:400])

    # (a) multi-entry matchers
    r = ctx.sub_rng("mm")
    check_mm(ctx, exe, drv, c_mm + [gen_mm(r) for _ in range(200000 if thorough else 20000)])

    # (b) run
    r = ctx.sub_rng("run")
    check_run(ctx, exe, drv, c_run + [gen_run(r) for _ in range(20000 if thorough else 600)])


def replay(ctx, body):
    data = body["data"]
    exe = vlib.harness_build(["c19"])["c19"]
    vlib.coq_make(["Conn/Dispatch.vo"])
    drv = vlib.ocaml_build("c19")
    kind = data["kind"]
    if kind == "m":
        parts = data["line"].split(" ")
        check_m(ctx, exe, drv, [(unhx(parts[1]).decode(), unhx(parts[2]).decode())])
    elif kind == "mm":
        parts = data["line"].split(" ")
        check_mm(ctx, exe, drv, [(unhx(parts[1]).decode(), [unhx(p).decode() for p in parts[2:]])])
    else:
        parts = data["line"].split(" ")
        check_run(ctx, exe, drv, [parse_run_line(parts[1], parts[2])])
    print("input:", data["line"])
    if getattr(ctx, "nviol", 0) or ctx.violations:
        for p, _ in ctx.violations:
            print("REPRODUCED, see", p)
        return 1
    if ctx.broken:
        print("model and implementation differ, property not shown violated:", ctx.broken[0].what)
        return 1
    print("not reproduced (implementation agrees with the model on this input)")
    return 0
