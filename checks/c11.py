"""C11 - descriptors stay with their own message and are never leaked or double-closed.

Proof: coq/Properties/C11.v (model coq/Fd/Table.v + coq/Fd/History.v, invariant coq/Fd/TableProofs.v):
for every history of open / wrap / push (any nesting, failing at any position) / reset / drop /
send / receive / unmarshal / clone / dup / take / drop-handle operations.
Tie: histories run against the real crate (harness bin c11: a real DuplexConn, real pipes and
files; after EVERY operation the process's descriptor table is read from /proc/self/fd with fstat
identities, every close the library performs is logged through the verif_hooks shim) and against
the extracted model (ocaml/c11); the two tables must agree up to a renaming of descriptor numbers
that preserves which open file a descriptor refers to, together with the results, the indices
stored in the body bytes, UNIX_FDS and the identities of in-flight and received descriptors.
Independently of the model, the property predicate is evaluated on the implementation's own trace.
"""
import hashlib
import json
import os
import re

import vlib

SHAPES_ANY = "vmnp"
ANCHOR_SHA = "6f2d764f3c8c4da6"


# ----------------------------------------------------------------------------- generator

class Sim:
    """a light re-statement of the model's bookkeeping, ONLY to generate operations that name
    existing things (a wrong guess merely yields an operation both sides skip as 'invalid')"""

    def __init__(self):
        self.cfds = []      # alive?
        self.hnd = []       # object id or None
        self.taken = {}     # object id -> bool
        self.bods = []      # None | {"fds": [obj], "slots": n}
        self.wire = []      # {"n": .., "slots": ..}
        self.nobj = 0
        self.nopen = 0

    def new_obj(self):
        self.nobj += 1
        self.taken[self.nobj] = False
        self.nopen += 1
        return self.nobj

    def live_h(self):
        return [i for i, o in enumerate(self.hnd) if o is not None]

    def live_c(self):
        return [i for i, a in enumerate(self.cfds) if a]

    def live_b(self):
        return [i for i, b in enumerate(self.bods) if b is not None]


def gen_items(r, sim, n, want_fail):
    hs, cs = sim.live_h(), sim.live_c()
    items = []
    for _ in range(n):
        k = r.random()
        if hs and (k < 0.7 or not cs):
            items.append("h%d" % r.choice(hs))
        elif cs:
            items.append("r%d" % r.choice(cs))
    if not items:
        return None
    if want_fail:
        bad_h = [h for h in hs if sim.taken.get(sim.hnd[h])]
        pos = r.randrange(len(items) + 1) if r.random() < 0.7 else len(items)
        items.insert(pos, "h%d" % r.choice(bad_h) if bad_h and r.random() < 0.6 else "x")
    return items


def gen_history(r, maxops, thorough):
    sim = Sim()
    ops = []
    nb = 0
    big_done = False
    many = r.random() < (0.10 if thorough else 0.07)       # a history with one wide push (11..253(+1) descriptors)
    cleanup = r.random() < 0.5
    budget = maxops

    def push(op):
        ops.append(op)

    # a useful start
    for _ in range(r.choice([1, 1, 2, 3])):
        push("O"); sim.cfds.append(True); sim.nopen += 1
    while len(ops) < budget:
        hs, cs, bs = sim.live_h(), sim.live_c(), sim.live_b()
        k = r.random()
        if k < 0.06:
            push("O"); sim.cfds.append(True); sim.nopen += 1
        elif k < 0.14 and cs:
            c = r.choice(cs)
            push("W%d" % c); sim.cfds[c] = False; sim.hnd.append(sim.new_obj()); sim.nopen -= 1
        elif k < 0.20 and nb < 3:
            # half of the built bodies are big endian (MessageBuilder::with_byteorder): non-native on this host, so
            # every stored index >= 1 and UNIX_FDS >= 1 differ between the two byte orders
            push("Bb" if r.random() < 0.5 else "B"); sim.bods.append({"fds": [], "slots": 0}); nb += 1
        elif k < 0.44 and bs and (hs or cs):
            b = r.choice(bs)
            fail = r.random() < 0.25
            if many and sim.nopen < 100:
                many = False
                n = r.choice([11, 12, 20, 64, 253, 253] + ([254] if thorough else []))
                shape = r.choice("vn")      # one array: a signature holds at most 255 characters
            else:
                n = r.choice([1, 1, 1, 2, 2, 3, 3, 4, 5])
                shape = r.choice("sttvmnpqqgowz")
            items = gen_items(r, sim, n, fail)
            if not items:
                continue
            n = len(items)
            if shape in "sw" and n != 1:
                shape = "v" if shape == "s" else "z"
            if shape == "t" and n > 3:
                shape = "n"
            if shape == "q" and not (2 <= n <= 5):
                shape = "p"
            if shape == "g" and (n != 1 or big_done):
                shape = "t" if n <= 3 else "v"
            if shape == "o" and (n != 1 or not items[0].startswith("h")):
                shape = "t" if n <= 3 else "v"
            if shape == "g":
                big_done = True
            push("P%d:%s:%s" % (b, shape, ",".join(items)))
            ok = True
            for it in items:
                if it == "x" or (it[0] == "h" and sim.taken.get(sim.hnd[int(it[1:])])):
                    ok = False
            if ok:
                for it in items:
                    sim.bods[b]["fds"].append(sim.new_obj())
                sim.bods[b]["slots"] += n
        elif k < 0.48 and bs:
            b = r.choice(bs)
            push("R%d" % b)
            sim.nopen -= sum(1 for o in sim.bods[b]["fds"] if not sim.taken[o])
            sim.bods[b] = {"fds": [], "slots": 0}
        elif k < 0.52 and bs:
            b = r.choice(bs)
            push("D%d" % b)
            sim.nopen -= sum(1 for o in sim.bods[b]["fds"] if not sim.taken[o])
            sim.bods[b] = None
        elif k < 0.62 and bs:
            b = r.choice(bs)
            fdsb = sim.bods[b]["fds"]
            if fdsb and all(not sim.taken[o] for o in fdsb) and r.random() < 0.10:
                # take one of the body's descriptors through a clone first: the send must then be refused
                i = r.randrange(len(fdsb))
                push("U%d:%d" % (b, i)); sim.hnd.append(fdsb[i])
                push("T%d" % (len(sim.hnd) - 1)); sim.hnd[-1] = None
                sim.taken[fdsb[i]] = True; sim.cfds.append(True)
            n = sum(1 for o in sim.bods[b]["fds"] if not sim.taken[o])
            refused = n != len(sim.bods[b]["fds"])       # a handle of the body was taken: marshal refuses
            if n > 20 and sim.nopen + n > 800:
                continue                    # stay well below common RLIMIT_NOFILE values
            # a meaningful share of the sends that carry descriptors are resumed partial sends: the first
            # write ends inside the header (hdr) or exactly at the header/body boundary (bnd)
            k2 = r.random()
            flag = ""
            if n >= 1 and n <= 253:
                flag = ":hdr" if k2 < 0.35 else ":bnd" if k2 < 0.50 else ""
            elif n == 0 and k2 < 0.10:
                flag = ":hdr"
            push("S%d%s" % (b, flag))
            if n <= 253 and not refused:
                sim.wire.append({"n": n, "slots": sim.bods[b]["slots"]})
                sim.nopen += n              # the peer's in-flight copies
        elif k < 0.65 and cs:
            n = r.choice([0, 1, 1, 2, 3])
            sel = [r.choice(cs) for _ in range(n)]
            ni = r.choice([0, 1, 2, 3])
            idxs = [r.choice([0, 0, 1, 2, n, n + 1, 5, 4294967295]) if r.random() < 0.5 else r.randrange(0, max(1, n)) for _ in range(ni)]
            push("I%s:%s%s" % (",".join(map(str, sel)) or "-", ",".join(map(str, idxs)) or "-", ":b" if r.random() < 0.5 else ""))
            sim.wire.append({"n": n, "slots": ni})
            sim.nopen += n
        elif k < 0.74 and sim.wire:
            wv = sim.wire.pop(0)
            push("V")
            sim.bods.append({"fds": [sim.new_obj() for _ in range(wv["n"])], "slots": wv["slots"]})
            sim.nopen -= wv["n"]            # the peer closes its copies
        elif k < 0.79 and bs:
            b = r.choice(bs)
            n = len(sim.bods[b]["fds"])
            idx = r.choice([0, n, n + 1, 4294967295, max(0, n - 1)]) if r.random() < 0.5 else r.randrange(0, max(1, n))
            push("U%d:%d" % (b, idx))
            if idx < n:
                sim.hnd.append(sim.bods[b]["fds"][idx])
        elif k < 0.84 and bs:
            b = r.choice(bs)
            if sim.bods[b]["slots"] == 0:
                continue
            j = r.randrange(sim.bods[b]["slots"])
            push("A%d:%d" % (b, j))
            fds = sim.bods[b]["fds"]
            # (for a crafted body the stored index decides; guess the common case)
            if j < len(fds):
                sim.hnd.append(fds[j])
        elif k < 0.89 and bs:
            # the dynamic Param API: get_param over leading params / unmarshall_all
            b = r.choice(bs)
            fds = sim.bods[b]["fds"]
            sl = sim.bods[b]["slots"]
            if r.random() < 0.7:
                kk = sl if r.random() < 0.6 else r.randrange(0, sl + 1)
                push("G%d:%d" % (b, kk))
            else:
                kk = sl
                push("M%d" % b)
            for j in range(min(kk, len(fds))):     # (a guess; a crafted body may fail as a whole)
                sim.hnd.append(fds[j])
        elif k < 0.915 and hs:
            h = r.choice(hs)
            push("C%d" % h); sim.hnd.append(sim.hnd[h])
        elif k < 0.93 and hs:
            h = r.choice(hs)
            push("Y%d" % h)
            if not sim.taken[sim.hnd[h]]:
                sim.hnd.append(sim.new_obj())
        elif k < 0.96 and hs:
            h = r.choice(hs)
            push("T%d" % h)
            o = sim.hnd[h]
            sim.hnd[h] = None
            if not sim.taken[o]:
                sim.taken[o] = True
                sim.cfds.append(True)
        elif k < 0.99 and hs:
            h = r.choice(hs)
            push("X%d" % h); sim.hnd[h] = None
        elif cs and r.random() < 0.5:
            c = r.choice(cs)
            push("K%d" % c); sim.cfds[c] = False; sim.nopen -= 1
        elif r.random() < 0.3:
            # an operation on something that may not exist (both sides skip it)
            push(r.choice(["X%d", "T%d", "C%d", "D%d", "R%d", "S%d", "W%d", "K%d"]) % r.randrange(0, 6))
    if not cleanup and sim.live_c() and r.random() < 0.16:
        # last operation: a frame with descriptors that cannot be delivered, then the connection is dropped
        cs = sim.live_c()
        push("Z%s%s:%s" % (r.choice("fp"), r.choice(["", "b"]), ",".join(str(r.choice(cs)) for _ in range(r.choice([0, 1, 1, 2, 3, 12]))) or "-"))
    if cleanup:
        while sim.wire:
            sim.wire.pop(0)
            push("V"); sim.bods.append({"fds": [], "slots": 0})
        for b in sim.live_b():
            push("D%d" % b)
        for h in sim.live_h():
            push("X%d" % h)
    return ";".join(ops)


# ----------------------------------------------------------------------------- parsing helpers

def parse_ops(line):
    return [o.strip() for o in line.split(";") if o.strip()]


def apply_orders(line, impl):
    """the model is told the order in which a HashMap handed its elements to the marshaller"""
    ops = parse_ops(line)
    if impl is None:
        return line
    out = []
    for op, io in zip(ops, impl["ops"]):
        if op[0] == "P" and io.get("ord") is not None:
            b, shape, items = op[1:].split(":")
            its = [x for x in items.split(",") if x.strip() not in ("", "-")]
            ordv = io["ord"]
            if sorted(ordv) == list(range(len(its))):
                its = [its[i] for i in ordv]
            op = "P%s:%s:%s" % (b, shape, ",".join(its) or "-")
        if op[0] == "G" and io.get("slots") is not None:
            # get_param works on whole top-level params: the harness rounded k down to a param boundary
            op = "G%s:%d" % (op[1:].split(":")[0], io["slots"])
        out.append(op)
    return ";".join(out)


def model_part(line):
    """the Z operation (undeliverable frame + dropping the connection) is judged by the audit alone"""
    return ";".join(o for o in parse_ops(line) if o[0] != "Z")


def load(s):
    try:
        return json.loads(s)
    except (ValueError, TypeError):
        return None


# ----------------------------------------------------------------------------- the property on the implementation's own trace

def roles(snap):
    """descriptor numbers the program can name: caller slots, handle variables, body lists"""
    fds = set()
    for c in snap["cfds"]:
        if c is not None:
            fds.add(c)
    for h in snap["hnd"]:
        if h is not None and h >= 0:
            fds.add(h)
    for b in snap["bods"]:
        if b is not None:
            for f in b["fds"]:
                if f >= 0:
                    fds.add(f)
    return fds


def lib_fds(snap):
    fds = set()
    for h in snap["hnd"]:
        if h is not None and h >= 0:
            fds.add(h)
    for b in snap["bods"]:
        if b is not None:
            fds |= {f for f in b["fds"] if f >= 0}
    return fds


def impl_violations(line, impl):
    """C11 evaluated on what the implementation did. Returns a list of strings (empty = holds),
    or None when the output cannot be interpreted."""
    if impl is None or "ops" not in impl:
        return None
    ops = parse_ops(line)
    if len(ops) != len(impl["ops"]):
        return None
    bad = []
    prev = {"open": [], "cfds": [], "hnd": [], "bods": [], "wire": []}
    born = {}                   # caller slot -> identity when the slot was created
    for k, (op, s) in enumerate(zip(ops, impl["ops"])):
        res = s["res"]
        if res.startswith("HARNESS") or res == "BADOP":
            return None
        where = "op %d (%s): " % (k, op)
        opn = dict((f, i) for f, i in s["open"])
        popn = dict((f, i) for f, i in prev["open"])
        for f, ok in s["closes"]:
            if not ok:
                bad.append(where + "the library closed descriptor %d which was not open (double close)" % f)
            if f in [c for c in prev["cfds"] if c is not None] and not (op[0] in "W"):
                bad.append(where + "the library closed descriptor %d which belongs to the caller" % f)
        # the caller's descriptors
        for i, c in enumerate(s["cfds"]):
            if c is None:
                continue
            if i not in born:
                born[i] = opn.get(c)
            if c not in opn:
                bad.append(where + "caller descriptor slot %d (fd %d) is no longer open" % (i, c))
            elif born[i] is not None and opn[c] != born[i]:
                bad.append(where + "caller descriptor slot %d (fd %d) now refers to another file" % (i, c))
            if c in lib_fds(s):
                bad.append(where + "descriptor %d is owned by the caller and by a library object at once" % c)
        # no leak / no dangling
        rl = roles(s)
        for f in opn:
            if f not in rl:
                bad.append(where + "descriptor %d is open but nothing owns it (leak)" % f)
        for f in rl:
            if f not in opn:
                bad.append(where + "descriptor %d is held by a handle or message but is closed" % f)
        # every body: UNIX_FDS = length of its list
        for bi, b in enumerate(s["bods"]):
            if b is not None and b["hdr"] >= 0 and b["hdr"] != len(b["fds"]):
                bad.append(where + "body %d: UNIX_FDS would be %d but the body holds %d descriptors" % (bi, b["hdr"], len(b["fds"])))
        kind = op[0]
        if kind == "P" and res != "invalid":
            b, shape, items = op[1:].split(":")
            b = int(b)
            its = [x for x in items.split(",") if x.strip() not in ("", "-")]      # already in marshalling order (apply_orders)
            pb = prev["bods"][b] if b < len(prev["bods"]) else None
            nb = s["bods"][b] if b < len(s["bods"]) else None
            if pb is not None and nb is not None:
                if res.startswith("pushed"):
                    n0 = len(pb["fds"])
                    want = list(range(n0, n0 + len(its)))
                    got = [int(x) for x in res.split(":")[1].split(",") if x != ""]
                    if got != want or nb["idx"] != pb["idx"] + want:
                        bad.append(where + "indices written %s / stored %s, but the duplicates sit at positions %s" % (got, nb["idx"][len(pb["idx"]):], want))
                    if nb["fds"][:n0] != pb["fds"] or len(nb["fds"]) != n0 + len(its):
                        bad.append(where + "the body's descriptor list is not the old list plus one entry per pushed descriptor")
                    else:
                        newf = nb["fds"][n0:]
                        if len(set(newf)) != len(newf) or any(f in popn for f in newf):
                            bad.append(where + "a pushed descriptor was not duplicated (the body holds a descriptor that was already open)")
                        for it, f in zip(its, newf):
                            src = None
                            if it[0] == "h":
                                h = int(it[1:])
                                src = prev["hnd"][h] if h < len(prev["hnd"]) else None
                            elif it[0] == "r":
                                c = int(it[1:])
                                src = prev["cfds"][c] if c < len(prev["cfds"]) else None
                            if src is not None and src >= 0 and f in opn and popn.get(src) != opn[f]:
                                bad.append(where + "the duplicate %d does not refer to the same file as its source %d" % (f, src))
                            if src is not None and src >= 0 and (src not in opn or opn[src] != popn.get(src)):
                                bad.append(where + "the source descriptor %d was closed or replaced by the push" % src)
                elif res == "err":
                    if nb != pb:
                        bad.append(where + "a failed push changed the body (descriptor list / indices / UNIX_FDS)")
                    if opn != popn:
                        bad.append(where + "a failed push changed the descriptor table: before %s after %s" % (sorted(popn), sorted(opn)))
        if kind == "R" and res == "ok":
            nb = s["bods"][int(op[1:])]
            if nb["fds"] or nb["idx"] or nb["hdr"] > 0:
                bad.append(where + "reset left %d descriptors attached to the body (UNIX_FDS %d, indices %s)" % (len(nb["fds"]), nb["hdr"], nb["idx"]))
        if kind in "RD" and res == "ok":
            b = int(op[1:])
            pb = prev["bods"][b]
            others = set()
            for i, x in enumerate(s["bods"]):
                if x is not None:
                    others |= set(x["fds"])
            others |= {h for h in s["hnd"] if h is not None}
            for f in pb["fds"]:
                if f >= 0 and f not in others and f in opn:
                    bad.append(where + "descriptor %d of the dropped/reset body is still open although no handle is left" % f)
        if kind == "S" and res.startswith("sent"):
            b = int(op[1:].split(":")[0])
            pb = prev["bods"][b]
            if any(f < 0 for f in pb["fds"]):
                bad.append(where + "a message was sent although %d of the %d descriptors of its body were taken: it announces descriptors it does not carry" % (sum(1 for f in pb["fds"] if f < 0), len(pb["fds"])))
            _, hdr, n = res.split(":")
            live = [f for f in pb["fds"] if f >= 0]
            if int(hdr) != len(pb["fds"]):
                bad.append(where + "UNIX_FDS on the wire is %s, the body's descriptor list has %d entries" % (hdr, len(pb["fds"])))
            if int(n) != len(live):
                bad.append(where + "%s descriptors arrived with the message, the body holds %d that were not taken" % (n, len(live)))
            elif s["wire"] and s["wire"][-1]["ids"] != [popn.get(f) for f in live]:
                bad.append(where + "the descriptors that arrived do not refer to the files of the body's descriptors, in order")
            if opn != popn:
                bad.append(where + "sending changed the sender's descriptor table")
        if kind == "S" and res == "err":
            b = int(op[1:].split(":")[0])
            pb = prev["bods"][b]
            if s["wire"] != prev["wire"] or opn != popn or s["bods"] != prev["bods"]:
                bad.append(where + "a refused send changed the wire, the descriptor table or a body")
            if all(f >= 0 for f in pb["fds"]) and len(pb["fds"]) <= 253 and pb["hdr"] >= 0:
                bad.append(where + "a message whose %d descriptors are all present was not sent: %s" % (len(pb["fds"]), s.get("detail")))
        if kind == "V" and res.startswith("b:") and prev["wire"]:
            nb = s["bods"][int(res[2:])]
            want = prev["wire"][0]["ids"]
            got = [opn.get(f) for f in nb["fds"]]
            if got != want:
                bad.append(where + "the received message's descriptors refer to %s, the message was sent with %s" % (got, want))
            if len(set(nb["fds"])) != len(nb["fds"]) or any(f in popn for f in nb["fds"]):
                bad.append(where + "a received descriptor is not a fresh descriptor of its own")
            for i, x in enumerate(s["bods"][:-1]):
                if x is not None and set(x["fds"]) & set(nb["fds"]):
                    bad.append(where + "a received descriptor is also attached to message %d" % i)
        if kind == "V" and res == "err" and prev["wire"]:
            bad.append(where + "a complete in-flight message could not be received: %s" % s.get("detail"))
        if kind == "Z" and res == "err":
            arrived = s.get("arrived", 0)
            cl = [f for f, ok in s["closes"]]
            if opn != popn:
                bad.append(where + "after an undeliverable frame with %d descriptors and dropping the connection the descriptor table differs: before %s after %s" % (arrived, sorted(popn), sorted(opn)))
            if len(cl) != arrived or len(set(cl)) != len(cl):
                bad.append(where + "%d descriptors arrived with the undeliverable frame, the library closed %s" % (arrived, cl))
            if any(f in popn for f in cl):
                bad.append(where + "the library closed a descriptor that was open before the frame arrived: %s" % cl)
            if s["cfds"] != prev["cfds"] or s["hnd"] != prev["hnd"] or s["bods"] != prev["bods"]:
                bad.append(where + "an undeliverable frame changed the caller's variables or a message")
        if kind == "U" and res != "invalid":
            b, idx = op[1:].split(":")
            pb = prev["bods"][int(b)]
            if int(idx) >= len(pb["fds"]):
                if res != "err":
                    bad.append(where + "index %s is beyond the %d descriptors of the message but the read succeeded" % (idx, len(pb["fds"])))
            else:
                if not res.startswith("h:"):
                    bad.append(where + "index %s is within the %d descriptors of the message but the read failed" % (idx, len(pb["fds"])))
                elif s["hnd"][int(res[2:])] != pb["fds"][int(idx)]:
                    bad.append(where + "the read returned descriptor %s, the message holds %s at index %s" % (s["hnd"][int(res[2:])], pb["fds"][int(idx)], idx))
            if opn != popn:
                bad.append(where + "reading a descriptor changed the descriptor table")
        if kind in "GM" and res != "invalid":
            if kind == "G":
                b, kk = op[1:].split(":")
                b, kk = int(b), int(kk)
            else:
                b = int(op[1:])
                kk = len(prev["bods"][b]["idx"])
            pb = prev["bods"][b]
            idxs = pb["idx"][:kk]
            what = "get_param" if kind == "G" else "unmarshall_all"
            if all(i < len(pb["fds"]) for i in idxs):
                if not res.startswith("hs:"):
                    bad.append(where + "%s: every stored index %s is within the %d descriptors of the message but the dynamic API failed: %s" % (what, idxs, len(pb["fds"]), s.get("detail")))
                else:
                    hs = [int(x) for x in res[3:].split(",") if x != ""]
                    got = [s["hnd"][h] for h in hs]
                    want = [pb["fds"][i] for i in idxs]
                    if got != want:
                        bad.append(where + "%s returned descriptors %s, the message holds %s at the stored indices %s" % (what, got, want, idxs))
                    if s["bods"][b] != pb:
                        bad.append(where + "%s changed the message's own descriptor list" % what)
            else:
                if res != "err":
                    bad.append(where + "%s: a stored index in %s is beyond the %d descriptors of the message but the call succeeded" % (what, idxs, len(pb["fds"])))
                elif kind == "G" and (s["bods"][b] != pb or s["hnd"] != prev["hnd"]):
                    bad.append(where + "a failed get_param changed the message or the caller's variables")
            if not (kind == "M" and res == "err") and opn != popn:
                bad.append(where + "%s changed the descriptor table: before %s after %s" % (what, sorted(popn), sorted(opn)))
            if not (kind == "M" and res == "err") and s["closes"]:
                bad.append(where + "%s closed descriptors %s" % (what, s["closes"]))
        if kind == "A" and res != "invalid":
            b, j = op[1:].split(":")
            pb = prev["bods"][int(b)]
            if int(j) < len(pb["idx"]):
                idx = pb["idx"][int(j)]
                if idx >= len(pb["fds"]):
                    if res != "err":
                        bad.append(where + "stored index %d is beyond the %d descriptors but parsing succeeded" % (idx, len(pb["fds"])))
                elif not res.startswith("h:"):
                    bad.append(where + "stored index %d is valid but parsing failed: %s" % (idx, s.get("detail")))
                elif s["hnd"][int(res[2:])] != pb["fds"][idx]:
                    bad.append(where + "parsing slot %s returned descriptor %s, the message holds %s at index %d" % (j, s["hnd"][int(res[2:])], pb["fds"][idx], idx))
        prev = s
    fin = impl.get("final", {})
    for f, ok in fin.get("closes", []):
        if not ok:
            bad.append("final: the library closed descriptor %d which was not open (double close)" % f)
    if fin.get("leftover"):
        bad.append("final: after every handle and message was dropped, descriptors %s are still open (leak)" % fin["leftover"])
    if fin.get("caller_missing"):
        bad.append("final: the caller's descriptors %s were closed by somebody else" % fin["caller_missing"])
    return bad


# ----------------------------------------------------------------------------- model vs implementation

def compare(line, impl, model):
    """first difference between the model's and the implementation's trace, or None"""
    if impl is None or model is None:
        return "unreadable output"
    ops = parse_ops(line)
    mo = model
    io = [s for o, s in zip(ops, impl["ops"]) if o[0] != "Z"]
    ops = [o for o in ops if o[0] != "Z"]
    if len(mo) != len(io):
        return "different number of operations"
    prev_m2r = {}
    for k, (op, m, s) in enumerate(zip(ops, mo, io)):
        where = "op %d (%s): " % (k, op)
        if m["res"] != s["res"]:
            return where + "result: model %s, implementation %s" % (m["res"], s["res"])
        m2r, r2m = {}, {}

        def pair(a, b):
            if a in m2r and m2r[a] != b:
                return False
            if b in r2m and r2m[b] != a:
                return False
            m2r[a] = b
            r2m[b] = a
            return True

        if len(m["cfds"]) != len(s["cfds"]) or len(m["hnd"]) != len(s["hnd"]) or len(m["bods"]) != len(s["bods"]):
            return where + "different numbers of slots / variables / bodies"
        for a, b in zip(m["cfds"], s["cfds"]):
            if (a is None) != (b is None):
                return where + "caller slot liveness differs"
            if a is not None and not pair(a, b):
                return where + "no renaming of descriptor numbers makes the caller slots agree"
        for a, b in zip(m["hnd"], s["hnd"]):
            if (a is None) != (b is None) or (a is not None and (a < 0) != (b < 0)):
                return where + "handle variable state differs (model %s, implementation %s)" % (a, b)
            if a is not None and a >= 0 and not pair(a, b):
                return where + "no renaming of descriptor numbers makes the handle variables agree"
        for bi, (a, b) in enumerate(zip(m["bods"], s["bods"])):
            if (a is None) != (b is None):
                return where + "body %d liveness differs" % bi
            if a is None:
                continue
            if len(a["fds"]) != len(b["fds"]):
                return where + "body %d holds %d descriptors in the model, %d in the implementation" % (bi, len(a["fds"]), len(b["fds"]))
            if a["idx"] != b["idx"]:
                return where + "body %d: indices in the bytes: model %s, implementation %s" % (bi, a["idx"], b["idx"])
            if b["hdr"] >= 0 and b["hdr"] != len(a["fds"]):
                return where + "body %d: UNIX_FDS %d, model %d" % (bi, b["hdr"], len(a["fds"]))
            for x, y in zip(a["fds"], b["fds"]):
                if (x < 0) != (y < 0):
                    return where + "body %d: taken state of a descriptor differs" % bi
                if x >= 0 and not pair(x, y):
                    return where + "no renaming of descriptor numbers makes body %d agree" % bi
        mtab = dict((f, o) for f, o in m["tab"])
        ropen = dict((f, i) for f, i in s["open"])
        if set(mtab) != set(m2r):
            return where + "MODEL: open descriptors %s without a role %s" % (sorted(mtab), sorted(m2r))
        if set(ropen) != set(r2m):
            return where + "open descriptors differ: implementation has %s open, the model's open set maps to %s" % (sorted(ropen), sorted(r2m))
        o2i, i2o = {}, {}

        def pair_file(o, i):
            if o in o2i and o2i[o] != i:
                return False
            if i in i2o and i2o[i] != o:
                return False
            o2i[o] = i
            i2o[i] = o
            return True

        for f, o in mtab.items():
            if not pair_file(o, ropen[m2r[f]]):
                return where + "descriptor %d (model %d) refers to a different open file than in the model" % (m2r[f], f)
        if len(m["wire"]) != len(s["wire"]):
            return where + "in-flight messages: model %d, implementation %d" % (len(m["wire"]), len(s["wire"]))
        for a, b in zip(m["wire"], s["wire"]):
            if len(a["ofds"]) != len(b["ids"]) or a["idx"] != b["idx"]:
                return where + "an in-flight message carries %d descriptors / indices %s, model %d / %s" % (len(b["ids"]), b["idx"], len(a["ofds"]), a["idx"])
            for o, i in zip(a["ofds"], b["ids"]):
                if not pair_file(o, i):
                    return where + "an in-flight descriptor refers to a different open file than in the model"
        mc = [int(e.split(":")[1]) for e in m["ev"] if e.startswith("close:")]
        rc = [f for f, ok in s["closes"]]
        if len(mc) != len(rc):
            return where + "the library closed %d descriptors, the model %d" % (len(rc), len(mc))
        for a, b in zip(mc, rc):
            if prev_m2r.get(a, "new") != (b if b in prev_m2r.values() else "new"):
                return where + "closes in a different order or of different descriptors: implementation %s, model %s" % (rc, mc)
        prev_m2r = m2r
    return None


# ----------------------------------------------------------------------------- running

class Runner:
    def __init__(self, ctx, exe, model):
        self.ctx = ctx
        self.exe = exe
        self.model = model
        self.failing = []
        self.disagree = []
        self.harness_trouble = []
        self.lines_done = []

    def run_pair(self, lines, timeout=1800):
        ok, impl, err = vlib.par_run_lines(self.exe, [], lines, timeout=timeout)
        if not ok:
            # a shard died (the library may have closed a descriptor the harness needs): one process per line
            impl = []
            for l in lines:
                rc, out, e2 = vlib.run_lines(self.exe, [], [l], timeout=300)
                impl.append(out[0] if rc == 0 and len(out) == 1 else "CRASH rc=%s %s" % (rc, e2[-300:]))
        impls = [load(x) for x in impl]
        mlines = [apply_orders(l, i) for l, i in zip(lines, impls)]
        ok, mod, err = vlib.par_run_lines(self.model, ["run"], [model_part(l) for l in mlines], timeout=timeout)
        if not ok:
            raise vlib.BrokenTie("model driver failed", err[-2000:])
        return impl, impls, mlines, [load(x) for x in mod]

    def batch(self, lines, kind):
        ctx = self.ctx
        if not lines:
            return
        raw, impls, mlines, mods = self.run_pair(lines)
        for line, r, a, ml, b in zip(lines, raw, impls, mlines, mods):
            v = impl_violations(ml, a)
            d = compare(ml, a, b)
            self.account(kind, ml, a)
            nontrivial = a is not None and any(o["res"].startswith("pushed") for o in a["ops"])
            ctx.case(ml, nontrivial=nontrivial,
                     sample={"history": ml, "kind": kind} if nontrivial and len(ctx.samples) < 6 and len(ml) < 200 else None)
            self.lines_done.append(ml)
            if v:
                self.failing.append((ml, v, a))
            if v is None:
                self.harness_trouble.append((ml, r[:400]))
            if d is not None:
                ctx.disagreements_checked += 1
                if not v:
                    self.disagree.append((ml, d))

    def account(self, kind, line, impl):
        ctx = self.ctx
        ctx.count("kind:" + kind)
        ops = parse_ops(line)
        ctx.count("history_len:%s" % ("1-9" if len(ops) < 10 else "10-19" if len(ops) < 20 else "20-29" if len(ops) < 30 else "30+"))
        if impl is None:
            ctx.count("outcome:unreadable")
            return
        names = {"O": "open", "K": "caller_close", "W": "wrap", "B": "new_body", "P": "push", "R": "reset", "D": "drop_body",
                 "S": "send", "I": "inject", "V": "recv", "U": "unmarshal", "A": "parse", "G": "get_param", "M": "unmarshall_all", "Z": "undeliverable_frame_then_drop_conn", "C": "clone", "Y": "dup", "T": "take",
                 "X": "drop_handle"}
        maxfd = 0
        big = {}                    # body number -> byte order (built bodies; a received body has its sender's)
        inflight = []
        for op, s in zip(ops, impl["ops"]):
            res = s["res"]
            tag = res.split(":")[0]
            ctx.count("op:%s:%s" % (names.get(op[0], op[0]), tag))
            if op[0] == "B" and tag == "b":
                big[int(res[2:])] = op[1:].strip() == "b"
                ctx.count("new_body_byteorder:%s" % ("big" if big[int(res[2:])] else "little"))
            if op[0] == "S" and tag == "sent":
                inflight.append(big.get(int(op[1:].split(":")[0]), False))
            if op[0] == "I" and tag == "ok":
                inflight.append(op.endswith(":b"))
                ctx.count("crafted_frame_byteorder:%s" % ("big" if inflight[-1] else "little"))
            if op[0] == "V" and inflight:
                bo = inflight.pop(0)
                if tag == "b":
                    big[int(res[2:])] = bo
                    nf = len(s["bods"][int(res[2:])]["fds"])
                    ctx.count("recv_byteorder:%s:%s" % ("big" if bo else "little", "0" if nf == 0 else "1" if nf == 1 else "2+"))
            if op[0] == "P" and tag == "pushed":
                b, shape, items = op[1:].split(":")
                if big.get(int(b)):
                    hi = [int(x) for x in res.split(":")[1].split(",") if x != ""]
                    its = [x.strip() for x in items.split(",") if x.strip() not in ("", "-")]
                    for it, ix in zip(its, hi):
                        if ix >= 1:
                            ctx.count("big_endian_body_index_ge_1:%s" % ("asrawfd" if it[0] == "r" else "unixfd"))
            if op[0] in "UAGM" and tag in ("h", "hs") and big.get(int(op[1:].split(":")[0])):
                ctx.count("read_from_big_endian_body:%s" % names.get(op[0], op[0]))
            if op[0] == "Z" and tag == "err":
                ctx.count("undeliverable_frame_byteorder:%s" % ("big" if op[1:].split(":")[0].endswith("b") else "little"))
            if op[0] == "P" and tag in ("pushed", "err"):
                b, shape, items = op[1:].split(":")
                n = len([x for x in items.split(",") if x.strip() not in ("", "-")])
                ctx.count("push_shape:%s:%s" % (shape, tag))
                ctx.count("push_width:%s" % ("1" if n == 1 else "2-5" if n <= 6 else "6-20" if n <= 20 else "21-253" if n <= 253 else "254+"))
                if tag == "err" and s["closes"]:
                    ctx.count("failed_push_closed_duplicates")
            if op[0] == "S" and tag == "sent" and "first" in s:
                nfd = int(res.split(":")[2])
                first, hl, wr = s["first"], s["hdrlen"], s.get("writes", 1)
                sched = ("single_write" if wr <= 1 else "first_write_ends_inside_header" if first < hl
                         else "first_write_ends_at_header_body_boundary" if first == hl else "first_write_ends_inside_body")
                ctx.count("send_schedule:%s:%s" % (sched, "with_descriptors" if nfd > 0 else "no_descriptors"))
                if wr > 1:
                    ctx.count("resumed_send_writes:%s" % ("2" if wr == 2 else "3-9" if wr < 10 else "10+"))
                want = op.split(":")[1] if ":" in op else ""
                if (want == "hdr" and not (wr > 1 and first < hl)) or (want == "bnd" and not (wr > 1 and first == hl)):
                    ctx.count("send_schedule_request_not_met:%s" % want)
            if op[0] == "V" and tag == "b":
                nf = len(s["bods"][int(res[2:])]["fds"])
                ctx.count("recv_descriptors:%s" % ("0" if nf == 0 else "1-3" if nf <= 3 else "4-10" if nf <= 10 else "11+"))
            if len(s["wire"]) >= 2:
                ctx.count("two_or_more_messages_in_flight_with_descriptors" if sum(1 for t in s["wire"] if t["ids"]) >= 2 else "two_or_more_messages_in_flight")
            maxfd = max(maxfd, len(s["open"]))
        ctx.count("max_open_descriptors:%s" % ("0-3" if maxfd <= 3 else "4-10" if maxfd <= 10 else "11-50" if maxfd <= 50 else "51+"))


def shrink(rn, line, still_bad, budget=60):
    ops = parse_ops(line)
    progress = True
    while progress and budget > 0:
        progress = False
        for i in range(len(ops) - 1, -1, -1):
            if budget <= 0:
                break
            cand = ops[:i] + ops[i + 1:]
            if not cand:
                continue
            budget -= 1
            l = ";".join(cand)
            try:
                raw, impls, mlines, mods = rn.run_pair([l], timeout=300)
            except vlib.BrokenTie:
                continue
            if still_bad(mlines[0], impls[0], mods[0]):
                ops = parse_ops(mlines[0])
                progress = True
    return ";".join(ops)


def coq_term(line):
    def item(x):
        x = x.strip()
        return "PBad" if x == "x" else ("PH %s%%nat" % x[1:] if x[0] == "h" else "PR %s%%nat" % x[1:])

    def lst(s, f):
        xs = [x for x in s.split(",") if x.strip() not in ("", "-")]
        return "[" + "; ".join(f(x) for x in xs) + "]"
    out = []
    for op in parse_ops(model_part(line)):
        k, a = op[0], op[1:]
        if k == "O":
            out.append("Open")
        elif k == "B":
            out.append("NewBody")
        elif k == "V":
            out.append("Recv")
        elif k == "P":
            b, _, items = a.split(":")
            out.append("Push %s%%nat %s" % (b, lst(items, item)))
        elif k == "S":
            out.append("Send %s%%nat" % a.split(":")[0])
        elif k == "I":
            cs, ix = a.split(":")[:2]
            out.append("Inject %s %s" % (lst(cs, lambda x: x.strip() + "%nat"), lst(ix, lambda x: x.strip())))
        elif k == "U":
            b, i = a.split(":")
            out.append("Unmarshal %s%%nat %s" % (b, i))
        elif k == "A":
            b, j = a.split(":")
            out.append("Parse %s%%nat %s%%nat" % (b, j))
        elif k == "G":
            b, j = a.split(":")
            out.append("Decode %s%%nat %s%%nat" % (b, j))
        elif k == "M":
            out.append("DecodeOwned %s%%nat" % a)
        else:
            name = {"K": "CallerClose", "W": "Wrap", "R": "Reset", "D": "DropBody", "C": "Clone", "Y": "DupH", "T": "Take", "X": "DropHandle"}[k]
            out.append("%s %s%%nat" % (name, a))
    return "(encode (observe [" + "; ".join(out) + "]))"


def cross_check_extraction(ctx, model, lines):
    if not lines:
        return
    v = ["From RB Require Import Base.Prelude Fd.Table Fd.History."]
    for l in lines:
        v.append("Eval vm_compute in %s." % coq_term(l))
    out = vlib.coq_eval("c11_cases", "\n".join(v) + "\n")
    blocks = re.findall(r"=\s*\[([^\]]*)\]", out)
    rc, enc, err = vlib.run_lines(model, ["encode"], [model_part(l) for l in lines], timeout=600)
    if rc != 0 or len(enc) != len(lines) or len(blocks) != len(lines):
        ctx.tie_broken("extraction cross-check could not be evaluated (%d coq results, %d ocaml results for %d cases)"
                       % (len(blocks), len(enc), len(lines)), out[-1500:] + err[-500:])
        return
    for l, b, e in zip(lines, blocks, enc):
        cv = [int(x) for x in re.findall(r"\d+", b)]
        ov = [int(x) for x in e.split()]
        ctx.count("extraction_cross_check_cases")
        if cv != ov:
            ctx.tie_broken("extracted OCaml model disagrees with vm_compute in Coq", "%s\ncoq=%s\nocaml=%s" % (l, cv[:80], ov[:80]))
            return


def anchor_sha():
    """text of the anchored functions, whitespace removed"""
    parts = []

    def grab(path, start, end=None):
        try:
            txt = open(os.path.join(vlib.REPO, path)).read()
        except OSError:
            parts.append("unreadable:" + path)
            return
        i = txt.find(start)
        if i < 0:
            parts.append("missing:" + start)
            return
        j = txt.find(end, i) if end else -1
        parts.append(txt[i:j] if j > 0 else txt[i:i + 1500])
    grab("rustbus/src/wire/wrapper_types/unixfd.rs", "struct UnixFdInner", "#[test]")
    grab("rustbus/src/wire/util.rs", "pub fn marshal_unixfd", "pub fn insert_u16")
    grab("rustbus/src/message_builder.rs", "pub fn get_raw_fds", "pub fn reserve")
    grab("rustbus/src/message_builder.rs", "fn push_mult_helper", "/// Append two things")
    grab("rustbus/src/connection/ll_conn.rs", "fn refill_buffer", "pub fn bytes_needed_for_current_message")
    grab("rustbus/src/connection/ll_conn.rs", "pub fn get_next_message", "impl SendConn")
    grab("rustbus/src/connection/ll_conn.rs", "pub fn write_once", "impl DuplexConn")
    grab("rustbus/src/wire/unmarshal_context.rs", "pub fn read_unixfd", "pub fn read_i64")
    return hashlib.sha256(re.sub(r"\s+", "", "".join(parts)).encode()).hexdigest()[:16]


def report(ctx, rn):
    if rn.failing:
        rn.failing.sort(key=lambda x: (len(x[0]), x[0]))
        seen = set()
        for line, v, a in rn.failing:
            key = re.sub(r"\d+", "N", v[0].split(": ", 1)[-1])[:60]
            if key in seen:
                continue
            seen.add(key)
            small = shrink(rn, line, lambda l, i, m: bool(impl_violations(l, i)))
            raw, impls, mlines, mods = rn.run_pair([small], timeout=300)
            sv = impl_violations(mlines[0], impls[0]) or v
            ctx.violation("descriptor handling: " + sv[0],
                          {"line": mlines[0], "violated": sv[:8], "impl": trace_summary(impls[0]),
                           "expected": trace_summary_model(mods[0]), "found_as": line,
                           "failing_histories_in_this_run": len(rn.failing)})
            if len(seen) >= 4:
                break
    elif rn.disagree:
        rn.disagree.sort(key=lambda x: (len(x[0]), x[0]))
        line, d = rn.disagree[0]
        small = shrink(rn, line, lambda l, i, m: compare(l, i, m) is not None and not impl_violations(l, i))
        raw, impls, mlines, mods = rn.run_pair([small], timeout=300)
        ctx.tie_broken("correspondence: the model and the implementation disagree on %d histories and the property predicate "
                       "does not fail on the implementation's own trace" % len(rn.disagree),
                       "shortest disagreeing history: %s\nfirst difference: %s\nimpl : %s\nmodel: %s"
                       % (mlines[0], compare(mlines[0], impls[0], mods[0]) or d, trace_summary(impls[0]), trace_summary_model(mods[0])))
    if rn.harness_trouble and not rn.failing:
        line, r = rn.harness_trouble[0]
        ctx.tie_broken("correspondence: the harness could not complete %d histories" % len(rn.harness_trouble),
                       "first: %s\noutput: %s" % (line, r))


def short(x):
    """long lists abbreviated, for replay files and messages"""
    if isinstance(x, list):
        if len(x) > 14:
            return [short(y) for y in x[:6]] + ["... %d more ..." % (len(x) - 12)] + [short(y) for y in x[-6:]]
        return [short(y) for y in x]
    if isinstance(x, dict):
        return dict((k, short(v)) for k, v in x.items())
    if isinstance(x, str) and len(x) > 300:
        return x[:300] + "..."
    return x


def trace_summary(impl):
    if impl is None:
        return "unreadable"
    return short([{"res": o["res"], "closes": o["closes"], "open": o["open"], "cfds": o["cfds"], "hnd": o["hnd"],
                   "bods": o["bods"], "wire": o["wire"]} for o in impl["ops"]][-4:] + [impl.get("final")])


def trace_summary_model(mod):
    if mod is None:
        return "unreadable"
    return short(mod[-4:])


# ----------------------------------------------------------------------------- entry points

def setup(ctx):
    ctx.rule = ("a case = one history: <= 25 generated operations (plus, in half of the cases, a tail that receives and drops everything) over "
                "caller descriptors (fresh pipes / unlinked files), UnixFd variables, <= 3 built bodies plus received ones, one connection: "
                "open, caller-close, UnixFd::new, new body (half of them MessageBuilder::with_byteorder(BigEndian): stored indices, UNIX_FDS and header big endian on this little-endian host; the audit reads the indices back in the body's byte order with its own walker), push (single / tuple / Vec / HashMap / Vec of tuples / push_params / push_param2..5 / push_variant / Vec of variants / "
                "with a 300 kB byte array / old Param API; elements UnixFd, &dyn AsRawFd, or one that fails, at any position; 25% of pushes "
                "fail), reset, drop, send (library -> raw peer socket with write_once(Nonblock) + resume; of the sends that carry descriptors 35% with "
                "the send buffer shrunk and a 40 kB header so that the first write ends inside the header, 15% sized so that it ends exactly at "
                "the header/body boundary; the peer keeps every descriptor of every recvmsg), inject (raw peer crafts a message with chosen indices; half of the frames big endian), receive "
                "(raw peer -> library), read_unixfd with in-range / out-of-range indices, parse a stored slot (typed API incl. Variant::get), the dynamic Param API (parser().get_param() over leading params, MarshalledMessage::unmarshall_all; descriptors at top level and inside arrays / structs / dict entries / variants; the decoded handles and the message are later dropped in either order), in 8% of histories a last operation outside the model: a frame with descriptors that cannot be delivered (header field that does not decode = failure before the descriptors leave RecvConn.fds_in / non-zero padding = failure after) (either byte order) followed by dropping the connection, judged by the audit and the close log alone, clone, dup, take, drop; 7% of "
                "histories contain one push of 11..253 descriptors. After EVERY operation /proc/self/fd + fstat are compared with the model's "
                "table up to renaming. distinct = distinct history text (after HashMap order feedback); non-trivial = at least one push succeeded")
    ctx.trusted = [
        "Coq 8.16.1 kernel incl. vm_compute (Print Assumptions: closed under the global context)",
        "std::sync::Arc modelled: clone = +1, drop = -1, destructor runs exactly once at 0 (DESIGN.md section 4)",
        "the kernel: dup/recvmsg return descriptors for the same open file description, close releases one number, SCM_RIGHTS keeps files alive in flight, at most 253 descriptors per sendmsg (EINVAL beyond) - exercised by the harness, not proved",
        "fresh descriptor numbers in the model vs lowest-free numbers in the kernel: bridged by comparing up to a renaming that preserves the open file (fstat dev:ino of distinct pipes/files)",
        "verif_hooks close shim (real close, logged with its result); harness/src/bin/c11.rs (auditor, peer side of the socket, independent body walker) and ocaml/c11/driver.ml",
        "OCaml extraction (ExtrOcamlBasic only), cross-checked against vm_compute on a sample each run",
        "checks/c11.py: generator, comparison up to renaming, property predicate",
    ]
    ctx.assumptions = [
        "one thread (interleavings of one shared handle are C12)",
        "dup(2)/recvmsg do not fail for lack of descriptors (RLIMIT_NOFILE is raised; EMFILE paths are not exercised)",
        "positions of descriptors in a message fit the u32 index (the theorem C11_index_is_position states the bound 2^32)",
        "operations naming a dropped/moved variable are skipped (Rust's ownership rules make them unwritable)",
        "short-write patterns in general are C10; here: first write inside the header / at the header-body boundary / inside the body (300 kB message), then resumed writes",
    ]


def corpus_lines():
    cdir = os.path.join(vlib.VERIF, "corpus", "C11")
    out = []
    if os.path.isdir(cdir):
        for f in sorted(os.listdir(cdir)):
            if f.endswith(".case"):
                out += [l.strip() for l in open(os.path.join(cdir, f)) if l.strip() and not l.startswith("#")]
    return out


def run(ctx):
    setup(ctx)
    ctx.try_proof()
    try:
        vlib.coq_make(["Fd/TableExamples.vo"])                # non-vacuity examples next to the theorems
        ctx.extra["examples"] = "Fd/TableExamples.v builds"
    except vlib.BrokenTie as bt:
        ctx.tie_broken("the non-vacuity examples Fd/TableExamples.v no longer check", bt.detail)
    exe = vlib.harness_build(["c11"], features=("verif_hooks",))["c11"]
    model = vlib.ocaml_build("c11")
    rn = Runner(ctx, exe, model)
    rng = ctx.rng
    thorough = ctx.tier == "thorough"
    sha = anchor_sha()
    drift = sha != ANCHOR_SHA
    ctx.extra["anchor_text_sha"] = sha
    ctx.extra["anchor_drift"] = drift

    rn.batch(corpus_lines(), "corpus")

    n = 20000 if thorough else (4000 if drift else 800)
    lines = [gen_history(rng, rng.choice([6, 10, 15, 20, 25, 25]), thorough) for _ in range(n)]
    for k in range(0, len(lines), 4000):
        rn.batch(lines[k:k + 4000], "generated")
        if len(rn.failing) > 500:
            break

    sample = rng.sample(rn.lines_done, min(len(rn.lines_done), 300 if thorough else 40))
    sample = [l for l in sample if len(l) < 400]
    cross_check_extraction(ctx, model, sample)
    report(ctx, rn)


def replay(ctx, body):
    setup(ctx)
    data = body.get("data", {})
    line = data.get("line")
    if not line:
        print("replay file carries no history (it records a broken proof/correspondence): %s" % body.get("what"))
        print(str(data)[:3000])
        return 2
    exe = vlib.harness_build(["c11"], features=("verif_hooks",))["c11"]
    model = vlib.ocaml_build("c11")
    rn = Runner(ctx, exe, model)
    raw, impls, mlines, mods = rn.run_pair([line], timeout=300)
    v = impl_violations(mlines[0], impls[0])
    d = compare(mlines[0], impls[0], mods[0])
    print("history        : %s" % mlines[0])
    print("implementation : %s" % json.dumps(trace_summary(impls[0]))[:3000])
    print("model          : %s" % json.dumps(trace_summary_model(mods[0]))[:3000])
    if v:
        print("REPRODUCED: property C11 violated: " + "; ".join(v[:6]))
        return 1
    if d:
        print("REPRODUCED: model and implementation disagree (%s); property predicate not violated on this trace" % d)
        return 1
    print("not reproduced: the implementation's trace satisfies the property and equals the model's up to renaming")
    return 0
