"""C05 - whole messages round-trip through header marshalling and are spec-conformant.

Proof: coq/Properties/C05.v (marshal model = specification encoding of the a(yv) header value for
EVERY message, refusal, flags, round trip through the decoder model; unbounded).
Tie: the real crate (harness bin c05: MessageBuilder / direct DynamicHeader, wire::marshal::marshal,
then unmarshal_header + unmarshal_dynamic_header + unmarshal_next_message) and the extracted model
(ocaml/c05) run on the same messages.  Independently of the model, the property is evaluated on
the implementation's own output: the header bytes must equal the extracted SPECIFICATION's
encoding (fixed part ++ spec_enc of the a(yv) value ++ zero padding), the decode-back must equal
the message that went in, and acceptance must agree with validators written here from the
specification text.

This module also holds the helpers shared with checks/c06.py.
"""
import concurrent.futures as cf
import glob
import os
import re
import struct
import subprocess
import zlib

import vlib

U32 = 1 << 32


def hx(s):
    b = s.encode() if isinstance(s, str) else bytes(s)
    return b.hex() if b else "-"


def ohx(s):
    """optional string field: None -> '-', '' -> 'e'"""
    if s is None:
        return "-"
    b = s.encode() if isinstance(s, str) else bytes(s)
    return b.hex() if b else "e"


# ------------------------------------------------------------------ running the two binaries

def run_proc(exe, lines, timeout=1800):
    p = subprocess.run([exe], input="\n".join(lines) + "\n", stdout=subprocess.PIPE, stderr=subprocess.PIPE,
                       text=True, timeout=timeout, env=dict(vlib.ENV) if hasattr(vlib, "ENV") else None)
    out = p.stdout.split("\n")
    if out and out[-1] == "":
        out.pop()
    return p.returncode, out, p.stderr


def run_sharded(exe, lines, what, per=150):
    """lines -> results in input order; a crash of a shard is retried line by line (so one aborting
    case costs one result, reported as 'CRASH')"""
    if not lines:
        return []
    n = max(1, min(vlib.NPROC, (len(lines) + per - 1) // per))
    chunks = [lines[i::n] for i in range(n)]
    outs = [None] * len(lines)

    def one(i):
        rc, o, e = run_proc(exe, chunks[i])
        if rc == 0 and len(o) == len(chunks[i]):
            return i, o
        res = []
        for l in chunks[i]:
            rc1, o1, e1 = run_proc(exe, [l])
            res.append(o1[0] if rc1 == 0 and len(o1) == 1 else "CRASH rc=%s %s" % (rc1, e1[-200:].replace("\n", " ")))
        return i, res
    with cf.ThreadPoolExecutor(n) as ex:
        for i, o in ex.map(one, range(n)):
            for k, r in enumerate(o):
                outs[i + k * n] = r
    return outs


def fields_of(line):
    """'B:.. H:.. D:ok be:0 ...' -> dict of the top-level K:value tokens (first occurrence), D keeps the rest"""
    d = {}
    toks = line.split(" ")
    i = 0
    while i < len(toks):
        t = toks[i]
        if t.startswith("D:"):
            d["D"] = " ".join([t[2:]] + toks[i + 1:])
            if d["D"].startswith("err"):
                d["D"] = "err"                      # the stage at which decoding failed is not compared
            break
        if ":" in t:
            k, v = t.split(":", 1)
            d.setdefault(k, v)
        i += 1
    return d


def parse_decoded(s):
    """'ok be:0 t:1 ... N:ok:..' -> dict ; 'err@fields' / 'err' -> {'ok': False}"""
    if not s.startswith("ok"):
        return {"ok": False}
    d = {"ok": True}
    for t in s.split(" ")[1:]:
        k, v = t.split(":", 1)
        d[k] = v
    return d


# ------------------------------------------------------------------ names, written from the specification text

NAME_CH = "[A-Za-z0-9_]"
RE_ELEM = re.compile(r"^[A-Za-z_][A-Za-z0-9_]*$")
RE_BUS_ELEM = re.compile(r"^[A-Za-z_-][A-Za-z0-9_-]*$")
RE_UNIQ_ELEM = re.compile(r"^[A-Za-z0-9_-]+$")
RE_PATH_ELEM = re.compile(r"^[A-Za-z0-9_]+$")


def py_valid_interface(s):
    if len(s.encode()) > 255:
        return False
    es = s.split(".")
    return len(es) >= 2 and all(RE_ELEM.match(e) for e in es)


def py_valid_member(s):
    return 0 < len(s.encode()) <= 255 and bool(RE_ELEM.match(s))


def py_valid_busname(s):
    if len(s.encode()) > 255:
        return False
    if s.startswith(":"):
        es = s[1:].split(".")
        return len(es) >= 2 and all(RE_UNIQ_ELEM.match(e) for e in es)
    es = s.split(".")
    return len(es) >= 2 and all(RE_BUS_ELEM.match(e) for e in es)


def py_valid_path(s):
    if s == "/":
        return True
    if not s.startswith("/"):
        return False
    return all(RE_PATH_ELEM.match(e) for e in s[1:].split("/"))


ALNUM = "ABCXYZabcxyz0189_"


def fill(r, n, first_ok="ABCxyz_"):
    """n name characters, the first not a digit"""
    if n <= 0:
        return ""
    return r.choice(first_ok) + "".join(r.choice(ALNUM) for _ in range(n - 1))


def iface_of_len(r, n):
    """a valid interface / error name of exactly n >= 3 bytes"""
    k = r.choice([2, 2, 3, 4]) if n >= 7 else 2
    k = min(k, (n + 1) // 2)
    rest = n - (k - 1)                       # characters that are not dots
    sizes = [1] * k
    for _ in range(rest - k):
        sizes[r.randrange(k)] += 1
    return ".".join(fill(r, s) for s in sizes)


def busname_of_len(r, n):
    if r.random() < 0.5 and n >= 4:
        body = iface_of_len(r, n - 1)
        # unique names may have elements starting with digits
        if r.random() < 0.5:
            body = "1" + body[1:] if body[0] != "." else body
        return ":" + body
    s = iface_of_len(r, n)
    if r.random() < 0.3 and len(s) > 3 and s[1] not in ".":
        s = s[0] + "-" + s[2:]
    return s


def member_of_len(r, n):
    return fill(r, n)


def path_of_len(r, n):
    if n <= 1:
        return "/"
    out = "/"
    while len(out) < n:
        room = n - len(out)
        k = room if room <= 2 or r.random() < 0.4 else r.randrange(1, room - 1)
        out += "".join(r.choice(ALNUM) for _ in range(k))
        if len(out) < n - 1:
            out += "/"
        elif len(out) == n - 1:
            out += r.choice(ALNUM)
    return out


LENS = list(range(3, 20)) + [23, 24, 31, 32, 63, 64, 100, 254, 255]

BAD_IFACE = ["", "a", "ab", "a.", ".a", "a..b", "1a.b", "a.1b", "a.b-c", "a b.c", "a.bé", "é.a", "a.b.", "a/b.c",
             "A" * 127 + "." + "B" * 128, "a." + "b" * 300, "a.b\x00", ":1.5"]
BAD_MEMBER = ["", "1a", "a.b", "a-b", "a b", "é", "aé", "M" * 256, "m\x00", "a/b"]
BAD_BUS = ["", "a", ":1", ":", "a.", ".a", "1a.b", "a.1b", "a..b", ":1..2", "a.b c", "a.é", "a." + "b" * 300, "a.b\x00", ":a.b/c"]
BAD_PATH = ["", "a", "/a/", "//", "/a//b", "/a-b", "/a.b", "/a b", "/é", "a/b", "/a\x00", "/a/b/"]


def gen_valid_names(r):
    """a dict of valid values for every string field"""
    n = r.choice(LENS)
    return {
        "iface": iface_of_len(r, r.choice(LENS)),
        "dest": busname_of_len(r, r.choice(LENS)),
        "sender": busname_of_len(r, r.choice(LENS)),
        "member": member_of_len(r, r.choice([1, 2] + LENS)),
        "path": path_of_len(r, r.choice([1, 2] + LENS + [300, 1000])),
        "err": iface_of_len(r, n),
    }


SERIALS = [1, 2, 255, 256, 65535, 65536, 0x7FFFFFFF, 0x80000000, 0x01020304, U32 - 2, U32 - 1]
STRS = ["", "a", "hello", "héllo €", "x" * 7, "y" * 8, "z" * 9, "s" * 300]


def gen_body(r):
    k = r.random()
    if k < 0.25:
        return "push:"
    if k < 0.8:
        items = []
        for _ in range(r.choice([1, 1, 2, 3, 5])):
            c = r.random()
            if c < 0.15:
                items.append("y%d" % r.randrange(256))
            elif c < 0.35:
                items.append("u%d" % r.choice([0, 1, U32 - 1, r.randrange(U32)]))
            elif c < 0.45:
                items.append("t%d" % r.choice([0, (1 << 64) - 1, r.randrange(1 << 64)]))
            elif c < 0.65:
                items.append("s" + hx(r.choice(STRS)))
            elif c < 0.72:
                items.append("o" + hx(path_of_len(r, r.choice(LENS))))
            elif c < 0.86:
                items.append("h")
            elif c < 0.93:
                items.append("vu%d" % r.randrange(U32))
            else:
                items.append("as" + ";".join(hx(x) for x in r.sample(STRS[1:], r.choice([0, 1, 3]))))
        return "push:" + ",".join(items)
    # hand-made body (from_parts): arbitrary bytes, a signature that may be invalid, 0..2 descriptors
    nbytes = r.choice([0, 1, 4, 7, 8, 9, 40])
    body = bytes(r.randrange(256) for _ in range(nbytes))
    sg = r.choice(["", "u", "s", "a{sv}", "(ii)", "y" * 255, "y" * 256, "(", "a", "a{vs}", "()", "uu", "é", "z"])
    nfds = r.choice([0, 0, 1, 2, 3])
    # some of the attached handles have had their descriptor taken (UnixFd::take_raw_fd on a clone): marshal must refuse
    taken = r.randrange(1, nfds + 1) if nfds and r.random() < 0.3 else 0
    return "raw:%s:%s:%d%s" % (hx(body), hx(sg), nfds, ":%d" % taken if taken else "")


class Msg:
    """one generated message (what goes into the harness line) plus what the generator knows about it"""
    __slots__ = ("mode", "bo", "typ", "flags", "serial", "rs", "iface", "dest", "sender", "member", "path", "err",
                 "body", "kinds", "stale")

    def line(self):
        return "m %s %s %d %d %d %s %s %s %s %s %s %s %s" % (
            self.mode, self.bo, self.typ, self.flags, self.serial, "-" if self.rs is None else str(self.rs),
            ohx(self.iface), ohx(self.dest), ohx(self.sender), ohx(self.member), ohx(self.path), ohx(self.err), self.body) + (
                " " + self.stale if getattr(self, "stale", None) else "")

    def names_valid(self):
        return ((self.iface is None or py_valid_interface(self.iface)) and
                (self.dest is None or py_valid_busname(self.dest)) and
                (self.sender is None or py_valid_busname(self.sender)) and
                (self.member is None or py_valid_member(self.member)) and
                (self.path is None or py_valid_path(self.path)) and
                (self.err is None or py_valid_interface(self.err)))

    def required_present(self):
        if self.typ == 1:
            return self.path is not None and self.member is not None
        if self.typ == 4:
            return self.path is not None and self.member is not None and self.iface is not None
        if self.typ == 2:
            return self.rs is not None
        if self.typ == 3:
            return self.err is not None and self.rs is not None
        return False


def gen_msg(r, idx, subset=None):
    m = Msg()
    m.kinds = []
    m.bo = "lB"[idx & 1]
    m.flags = (idx // 2) % 256                       # every flag byte, in both byte orders
    m.typ = r.choice([1, 2, 3, 4])
    m.serial = r.choice(SERIALS + [r.randrange(1, U32)])
    v = gen_valid_names(r)
    if subset is None:
        subset = r.randrange(128)
    present = lambda bit: bool(subset >> bit & 1)
    m.rs = r.choice(SERIALS + [r.randrange(1, U32)]) if present(0) else None
    m.iface = v["iface"] if present(1) else None
    m.dest = v["dest"] if present(2) else None
    m.sender = v["sender"] if present(3) else None
    m.member = v["member"] if present(4) else None
    m.path = v["path"] if present(5) else None
    m.err = v["err"] if present(6) else None
    # mostly make sure the fields required for the type are there
    if r.random() < 0.85:
        if m.typ in (1, 4):
            m.member = m.member or v["member"]
            m.path = m.path or v["path"]
        if m.typ == 4:
            m.iface = m.iface or v["iface"]
        if m.typ in (2, 3):
            m.rs = m.rs or r.choice(SERIALS)
        if m.typ == 3:
            m.err = m.err or v["err"]
    m.body = gen_body(r)
    # the builders only make sense with a body that is pushed into the message they built
    m.mode = "d" if m.body.startswith("raw:") else r.choice("db")
    # stale dynheader.serial / signature / num_fds, as a decoded or forwarded header carries them: values that DISAGREE
    # with the body; the marshaller must take signature and descriptor count from the body and the serial from its argument
    m.stale = None
    if r.random() < 0.5:
        m.stale = "X:%s:%s:%s" % (r.choice(["-", "1", str(U32 - 1), str(r.randrange(1, U32))]),
                                  ohx(r.choice([None, "", "u", "a{sv}", "(tt)", "yyyy"])),
                                  r.choice(["-", "0", "1", "2", "7", str(U32 - 1)]))
    k = r.random()
    if k < 0.08:
        m.typ = 0
        m.kinds.append("invalid-type")
    elif k < 0.30:
        f = r.choice(["iface", "dest", "sender", "member", "path", "err"])
        bad = {"iface": BAD_IFACE, "err": BAD_IFACE, "dest": BAD_BUS, "sender": BAD_BUS, "member": BAD_MEMBER, "path": BAD_PATH}[f]
        setattr(m, f, r.choice(bad))
        m.kinds.append("bad-" + f)
    return m


# ------------------------------------------------------------------ the property, evaluated on the implementation's output

def body_len_of(bhex):
    """length of a body as the harness prints it: hex, '-' (empty) or '#<len>.<crc32>' (op M: body built inside the harness)"""
    if bhex == "-":
        return 0
    if bhex.startswith("#"):
        return int(bhex[1:].split(".")[0])
    return len(bhex) // 2


MAX_MESSAGE = 1 << 27           # "The maximum length of a message, including header, header alignment padding, and body is 2^27"


def expected_decoded(m, body_hex, sig_hex, nfds):
    """what the decode-back must show for message m (fields as the harness prints them)"""
    return {"be": "1" if m.bo == "B" else "0", "t": str(m.typ), "f": str(m.flags), "ser": str(m.serial),
            "dser": str(m.serial),
            "bl": str(body_len_of(body_hex)),
            "rs": "-" if m.rs is None else str(m.rs),
            "i": ohx(m.iface), "d": ohx(m.dest), "sn": ohx(m.sender), "m": ohx(m.member), "p": ohx(m.path), "e": ohx(m.err),
            "g": "-" if body_hex == "-" else ("e" if sig_hex == "-" else sig_hex),
            "fd": "-" if nfds == 0 else str(nfds),
            "N": "ok:%s:%s:%d:%d:%d" % (body_hex, "-" if body_hex == "-" else sig_hex, nfds, m.typ, m.flags)}


def u32_at(b, off, be):
    return struct.unpack(">I" if be else "<I", b[off:off + 4])[0]


def judge_marshal(m, impl, model):
    """impl/model: dicts from fields_of. Returns (violations, correspondence_problems): lists of strings"""
    viol, corr = [], []
    bhex, shex_, nf = impl["B"].split(":")
    nf = int(nf)
    body_len = body_len_of(bhex)
    sig_ok = model.get("sigok")          # filled by the caller from the model's verdict on the signature (C07-proved validator)
    names_ok = m.names_valid()
    live = int(impl.get("L", nf))
    # the specification's header is always there (also when the model refuses): header + padding + body within 128 MiB
    fits = len(model["S"]) // 2 + body_len <= MAX_MESSAGE
    should_accept = (m.typ != 0 and names_ok and (body_len == 0 or sig_ok) and m.required_present() and live == nf and fits)
    H = impl["H"]
    if H == "err":
        if should_accept and model["H"] != "err":
            viol.append("marshal refuses a message whose type and names are valid")
    else:
        if m.typ == 0:
            viol.append("a message of type Invalid was marshalled")
        if not names_ok:
            viol.append("a message with an invalid name was marshalled")
        if live != nf:
            viol.append("a message whose body holds a descriptor handle whose descriptor was taken was marshalled")
        if m.typ != 0 and not m.required_present():
            viol.append("a message that lacks a header field its type requires was marshalled")
        if body_len and sig_ok is False:
            viol.append("a message with an invalid body signature was marshalled")
        if not fits:
            viol.append("a message longer than 128 MiB (header, padding and body) was marshalled")
        hb = bytes.fromhex(H)
        be = m.bo == "B"
        if len(hb) % 8 != 0 or len(hb) < 16:
            viol.append("header is not padded to an 8-byte boundary")
        else:
            if hb[0:1] != (b"B" if be else b"l") or hb[1] != m.typ or hb[2] != m.flags or hb[3] != 1:
                viol.append("fixed header bytes wrong")
            if u32_at(hb, 4, be) != body_len:
                viol.append("body length field differs from the body size")
            if u32_at(hb, 8, be) != m.serial:
                viol.append("serial field differs from the serial")
            hfl = u32_at(hb, 12, be)
            if not (16 + hfl <= len(hb) < 16 + hfl + 8) or any(hb[16 + hfl:]):
                viol.append("header field array length / zero padding wrong")
        # the specification's header, computed by the extracted spec_enc
        if model["S"] != H:
            viol.append("header bytes differ from the specification's encoding of the a(yv) header value")
        # decode-back
        d = parse_decoded(impl["D"])           # demanded for EVERY message that marshals
        if not d["ok"]:
            viol.append("the library's decoder rejects the marshalled message")
        else:
            exp = expected_decoded(m, bhex, shex_, nf)
            for k, v in exp.items():
                if d.get(k) != v:
                    viol.append("decode-back differs in %s: %s instead of %s" % (k, str(d.get(k))[:60], v[:60]))
                    break
    if impl["H"] != model["H"]:
        corr.append("header bytes / verdict: impl %s model %s" % (impl["H"][:80], model["H"][:80]))
    elif impl["H"] != "err" and model.get("D") is not None and impl["D"] != model["D"]:
        corr.append("decode-back: impl %s model %s" % (impl["D"][:200], model["D"][:200]))
    return viol, corr


def model_line_for(m_line, impl_fields):
    """driver line for an `m` harness line: same arguments, body replaced by the reported B: triple"""
    parts = m_line.split(" ")
    return " ".join(parts[:13] + ["B:" + impl_fields["B"]] + (["L:" + impl_fields["L"]] if "L" in impl_fields else []))


def py_flags_line():
    out = ["F"]
    for bit in (0, 1, 2):
        raw = 1 << bit
        s = []
        for x in range(256):
            s.append("%d%02x%02x%02x" % ((x >> bit) & 1, x | raw, x & ~raw & 255, x ^ raw))
        out.append("%d %s" % (raw, "".join(s)))
    return " ".join(out)


STD_CALLS = ["hello", "ping_bus", "list_names"]


NUL_STRS = ["a\x00b", "\x00", "x\x00", "\x00tail", "type='signal'\x00"]


def gen_std(r):
    """a standard_messages / reply constructor call; about a quarter of the string arguments contain a NUL byte
    (the only thing a Rust &str can hold that a D-Bus string cannot)"""
    serial = r.choice(SERIALS)
    k = r.randrange(12)
    v = gen_valid_names(r)
    nul = lambda alts: r.choice(NUL_STRS) if r.random() < 0.25 else r.choice(alts)
    if k < 3:
        return "s %s %d" % (STD_CALLS[k], serial)
    if k == 3:
        return "s ping %d %s" % (serial, hx(nul([v["dest"], "not a name", ":1.7"])))
    if k == 4:
        return "s request_name %d %s %d" % (serial, hx(nul([v["dest"], "", "x" * 300, "é"])), r.choice([0, 1, 2, 4, 7, U32 - 1]))
    if k in (5, 6, 7):
        return "s %s %d %s" % (["release_name", "add_match", "remove_match"][k - 5], serial,
                               hx(nul([v["dest"], "type='signal',interface='a.b'", "", "y" * 1000])))
    onul = lambda alts: r.choice(NUL_STRS) if r.random() < 0.12 else r.choice(alts)
    call = "%s %s %s %s %s" % (ohx(onul([None, v["iface"]])), ohx(onul([None, v["member"]])), ohx(onul([None, v["path"]])),
                               ohx(onul([None, v["sender"], v["sender"], "bad sender"])), r.choice(["-", "1", "77", str(U32 - 1)]))
    if k == 8:
        return "s unknown_method %d %s" % (serial, call)
    if k == 9:
        return "s invalid_args %d %s %s" % (serial, call, ohx(onul([None, "u", "a{sv}"])))
    if k == 10:
        return "s make_response %d %s" % (serial, call)
    return "s make_error_response %d %s %s %s" % (serial, call, hx(onul([v["err"], "bad name"])), ohx(nul([None, "", "failed: €"])))


def std_pushed(line):
    """the string arguments a constructor pushes into the body with push_param(..).unwrap() (directly or inside a
    formatted text), as byte strings; arguments that only go into header fields are not in this list"""
    p = line.split(" ")
    dec = lambda h: b"" if h in ("-", "e") else bytes.fromhex(h)
    name = p[1]
    if name in ("request_name", "release_name", "add_match", "remove_match"):
        return [dec(p[3])]
    if name == "unknown_method":
        return [dec(p[3]), dec(p[4]), dec(p[5])]
    if name == "invalid_args":
        return [dec(p[3]), dec(p[4]), dec(p[5]), dec(p[8])]
    if name == "make_error_response":
        return [dec(p[9])]
    return []


def in_class_D24(line):
    """known finding D24, class constructor-string-argument-contains-nul (Coq: KnownClass_D24)"""
    return any(b"\x00" in x for x in std_pushed(line))


def msg_from_M(mtxt, serial):
    """'l,1,0,-,iface,dest,sender,member,path,err' -> Msg"""
    p = mtxt.split(",")
    m = Msg()
    m.kinds = ["std"]
    m.stale = None
    m.mode = "d"
    m.bo = p[0]
    m.typ = int(p[1])
    m.flags = int(p[2])
    m.serial = serial
    m.rs = None if p[3] == "-" else int(p[3])
    dec = lambda h: None if h == "-" else ("" if h == "e" else bytes.fromhex(h).decode())
    m.iface, m.dest, m.sender, m.member, m.path, m.err = [dec(x) for x in p[4:10]]
    m.body = None
    return m


def ww_expected(fs):
    """the `ww` result the property demands for messages whose `m` results (fields_of) are fs"""
    sent = "".join("e" if f["H"] == "err" else "o" for f in fs)
    stream = "".join(f["H"] + ("" if f["B"].split(":")[0] == "-" else f["B"].split(":")[0]) for f in fs if f["H"] != "err")
    return "S:%s W:%s" % (sent, stream or "-")


def ww_first_difference(fs, got):
    want = ww_expected(fs)
    if not got.startswith("S:") or " W:" not in got:
        return "harness says: " + got[:80]
    if got.split(" ")[0] != want.split(" ")[0]:
        return "accepted/refused per message: %s, expected %s" % (got.split(" ")[0][2:], want.split(" ")[0][2:])
    gw, ww = got.split(" W:")[1], want.split(" W:")[1]
    k = next((j for j in range(min(len(gw), len(ww))) if gw[j] != ww[j]), min(len(gw), len(ww))) // 2
    pos, n = 0, 0
    for n, f in enumerate(fs):
        if f["H"] == "err":
            continue
        size = len(f["H"]) // 2 + body_len_of(f["B"].split(":")[0])
        if k < pos + size:
            return "%d bytes read, %d expected; first difference at byte %d = byte %d of message %d of %d" % (
                len(gw) // 2 if gw != "-" else 0, len(ww) // 2 if ww != "-" else 0, k, k - pos, n + 1, len(fs))
        pos += size
    return "%d bytes read, %d expected; bytes after the last message" % (len(gw) // 2, len(ww) // 2 if ww != "-" else 0)


# ------------------------------------------------------------------ bodies built inside the harness (op M): 16 MiB .. 128 MiB

def big_block(seed):
    """the 251 bytes harness/src/bin/c05.rs big_body repeats: high bytes of the LCG x -> x * 1103515245 + 12345 mod 2^32"""
    x, out = seed, bytearray()
    for _ in range(251):
        x = (x * 1103515245 + 12345) & 0xFFFFFFFF
        out.append((x >> 16) & 0xFF)
    return bytes(out)


def big_body_bytes(nbytes, seed, be):
    """the body `big:<nbytes>:<seed>:..` stands for: an `ay` of nbytes - 4 elements"""
    if nbytes < 4:
        return bytes(nbytes)
    n = nbytes - 4
    return struct.pack(">I" if be else "<I", n) + (big_block(seed) * (n // 251 + 1))[:n]


def big_token(nbytes, seed, be):
    return "#%d.%08x" % (nbytes, zlib.crc32(big_body_bytes(nbytes, seed, be)) & 0xFFFFFFFF)


def spec_e_line(m, blen, sig, nfds):
    """the `e` line of ocaml/c05/driver.ml (extracted SPECIFICATION only: fixed part ++ spec_enc of the a(yv) value) for message m
    with a body of blen bytes given as a NUMBER: fields in the order of Msg/MsgSpec.v fields_of_msg"""
    fs = []
    if m.rs is not None:
        fs.append("5 v u u %d" % m.rs)
    for code, v in ((2, m.iface), (6, m.dest), (7, m.sender), (3, m.member)):
        if v is not None:
            fs.append("%d v s s %s" % (code, hx(v)))
    if m.path is not None:
        fs.append("1 v o o %s" % hx(m.path))
    if m.err is not None:
        fs.append("4 v s s %s" % hx(m.err))
    if blen:
        fs.append("8 v g g %s" % hx(sig))
    if nfds:
        fs.append("9 v u u %d" % nfds)
    return " ".join(["e", m.bo, str(m.typ), str(m.flags), str(blen), str(m.serial), str(len(fs))] + fs)


def patch_blen(hexhdr, blen, be):
    """a header (hex) with its body length field set to blen"""
    return hexhdr[:8] + struct.pack(">I" if be else "<I", blen).hex() + hexhdr[16:]


def twin_line(m, sig, nfds):
    """driver `m` line of the same message with an 8-byte body of the same signature and descriptor count"""
    return "m d %s %d %d %d %s %s %s %s %s %s %s B:%s:%s:%d" % (
        m.bo, m.typ, m.flags, m.serial, "-" if m.rs is None else m.rs, ohx(m.iface), ohx(m.dest), ohx(m.sender),
        ohx(m.member), ohx(m.path), ohx(m.err), "00" * 8, hx(sig), nfds)


def big_model(m, drv, nbytes, sig, nfds):
    """(model dict for judge_marshal, problem or None) for message m with a body of nbytes that is NOT given to the extracted
    code byte by byte: S = the extracted specification's encoding with the body length as a number (op e); H = the model's
    header for the 8-byte twin with the body length field set (Msg/Header.v marshal_msg reads the body only through
    `len (m_body m)` and `is_nil (m_body m)`), Err beyond 128 MiB"""
    be = m.bo == "B"
    o = run_proc(drv, [twin_line(m, sig, nfds), spec_e_line(m, nbytes, sig, nfds), spec_e_line(m, 8, sig, nfds)])[1]
    if len(o) != 3 or not o[1].startswith("E:") or not o[2].startswith("E:"):
        return None, "driver failed: %s" % " | ".join(x[:200] for x in o)
    tw = fields_of(o[0])
    pad = lambda e: e + "00" * ((-(len(e) // 2)) % 8)
    e_big, v_big = o[1].split(" ")[0][2:], o[1].split(" ")[1]
    e_8 = o[2].split(" ")[0][2:]
    if "S" not in tw or pad(e_8) != tw["S"]:
        return None, "the `e` line built here does not give spec_header of the twin: %s vs %s" % (pad(e_8)[:200], tw.get("S", "?")[:200])
    S = pad(e_big)
    if tw["H"] == "err":
        H = "err"
    elif len(S) // 2 + nbytes > MAX_MESSAGE:
        H = "err"
    else:
        H = patch_blen(tw["H"], nbytes, be)
    return {"H": H, "S": S, "D": None, "sigok": True, "V": v_big}, None


def gen_big_msg(r, idx):
    """a message every part of which is valid, all four types, any subset of the optional fields"""
    while True:
        m = gen_msg(r, idx)
        if not m.kinds and m.required_present():
            break
    m.kinds = ["big"]
    m.mode = "d"
    return m


def big_line(m, nbytes, seed, sig, nfds):
    m.body = "big:%d:%d:%s:%d" % (nbytes, seed, hx(sig), nfds)
    return "M" + m.line()[1:]


def run_big(ctx, exe, drv, thorough):
    """bodies of 16 MiB and more, up to the 128 MiB message limit, in both byte orders"""
    r = ctx.sub_rng("big")
    plan = []
    for k, what in enumerate(["2^24-5", "2^24-4", "2^24-1", "2^24", "2^24+5", "40MB", "2^26+", "limit", "limit+1", "limit-8"] + (
            ["2^25", "2^24+2^16", "100MB", "limit-1", "limit+8"] if thorough else [])):
        for bo in (0, 1):
            m = gen_big_msg(r, 2 * r.randrange(1 << 20) + bo)
            nfds = r.choice([0, 0, 0, 1, 2])
            plan.append((what, m, nfds, r.randrange(1, U32)))
    sig = "ay"
    cases = []
    for what, m, nfds, seed in plan:
        be = m.bo == "B"
        tw = fields_of(run_proc(drv, [twin_line(m, sig, nfds)])[1][0])
        if "S" not in tw:
            ctx.tie_broken("extracted model driver failed on the 8-byte twin of a big message", twin_line(m, sig, nfds)[:300])
            continue
        hlen = len(tw["S"]) // 2
        nbytes = {"2^24-5": (1 << 24) - 5, "2^24-4": (1 << 24) - 4, "2^24-1": (1 << 24) - 1, "2^24": 1 << 24, "2^24+5": (1 << 24) + 5,
                  "40MB": 40 * 1000 * 1000 + r.randrange(1 << 20), "2^26+": (1 << 26) + r.randrange(1, 1 << 16), "2^25": 1 << 25,
                  "2^24+2^16": (1 << 24) + (1 << 16), "100MB": 100 * 1000 * 1000 + r.randrange(1 << 20),
                  "limit": MAX_MESSAGE - hlen, "limit+1": MAX_MESSAGE - hlen + 1, "limit-8": MAX_MESSAGE - hlen - 8,
                  "limit-1": MAX_MESSAGE - hlen - 1, "limit+8": MAX_MESSAGE - hlen + 8}[what]
        cases.append((what, m, nfds, seed, nbytes, big_line(m, nbytes, seed, sig, nfds)))
    # at most four harness processes at a time: each holds a few copies of its body
    outs = run_sharded(exe, [c[5] for c in cases], "harness", per=max(1, (len(cases) + 3) // 4))
    for (what, m, nfds, seed, nbytes, l), o in zip(cases, outs):
        ctx.case(l, nontrivial=True, sample={"line": l[:300], "impl": o[:300]} if what == "2^24+5" and m.bo == "B" else None)
        ctx.count("kind:big")
        ctx.count("big:" + what)
        ctx.count("bo:" + m.bo)
        if o.startswith(("CRASH", "PANIC")):
            ctx.disagreements_checked += 1
            ctx.violation("marshalling or decoding a message with a body of %d bytes panicked / crashed" % nbytes, {"line": l, "impl": o[:400]})
            continue
        f = fields_of(o)
        want_tok = big_token(nbytes, seed, m.bo == "B")
        if f.get("B") != "%s:%s:%d" % (want_tok, hx(sig), nfds):
            ctx.tie_broken("harness: the body built from a `big:` descriptor is not the one the check computes", "line: %s\nimpl: %s\nexpected body %s" % (l[:300], o[:300], want_tok))
            continue
        mf, problem = big_model(m, drv, nbytes, sig, nfds)
        if problem:
            ctx.tie_broken("extracted specification / model failed on a big message", "line: %s\n%s" % (l[:300], problem))
            continue
        if mf["V"] != "V:1":
            ctx.tie_broken("the extracted specification calls the header of a generated big message invalid", "line: %s" % l[:300])
            continue
        ctx.count("result:" + ("err" if f["H"] == "err" else "ok"))
        viol, corr = judge_marshal(m, f, mf)
        if viol or corr:
            ctx.disagreements_checked += 1
        if viol:
            ctx.violation(viol[0] + " (body of %d bytes)" % nbytes, {"line": l, "impl": o[:2000], "spec": mf["S"], "model": mf["H"], "all": viol})
        elif corr:
            ctx.tie_broken("correspondence: " + corr[0], "line: %s\nimpl: %s\nmodel: %s" % (l[:500], o[:1000], mf["H"][:1000]))


# ------------------------------------------------------------------ source drift (heuristic; never a verdict by itself)

ANCHOR_FILES = ["rustbus/src/wire/marshal.rs", "rustbus/src/wire/unmarshal.rs", "rustbus/src/wire/util.rs",
                "rustbus/src/wire/unmarshal_context.rs", "rustbus/src/wire/validate_raw.rs", "rustbus/src/params/validation.rs",
                "rustbus/src/message_builder.rs", "rustbus/src/standard_messages.rs", "rustbus/src/connection/ll_conn.rs"]
def drifted(ctx):
    """True when the check does not run on the committed sources the models were written against: VERIF_REPO points at another
    checkout (mutant testing), or the anchored files of the checkout under test differ from that checkout's own git HEAD
    (uncommitted edits, untracked or missing anchored files). The quick tier then runs with the thorough generators. Recorded in
    the evidence; never a verdict by itself. VERIF_NO_DRIFT_BOOST=1 switches the boost off (to measure detection at the true
    quick sizes)."""
    reasons = []
    if os.environ.get("VERIF_REPO"):
        reasons.append("VERIF_REPO is set")
    try:
        rc = subprocess.run(["git", "-C", vlib.REPO, "diff", "--quiet", "HEAD", "--"] + ANCHOR_FILES,
                            stdout=subprocess.DEVNULL, stderr=subprocess.DEVNULL).returncode
        if rc != 0:
            reasons.append("anchored files differ from the checkout's HEAD")
        un = subprocess.run(["git", "-C", vlib.REPO, "ls-files", "--others", "--exclude-standard", "--"] + ANCHOR_FILES,
                            stdout=subprocess.PIPE, stderr=subprocess.DEVNULL, text=True).stdout.strip()
        if un:
            reasons.append("untracked anchored files")
    except OSError:
        reasons.append("git not available")
    for f in ANCHOR_FILES:
        if not os.path.exists(os.path.join(vlib.REPO, f)):
            reasons.append("anchored file missing: " + f)
    ctx.extra["source_drift"] = bool(reasons)
    ctx.extra["source_drift_reasons"] = reasons
    if os.environ.get("VERIF_NO_DRIFT_BOOST") == "1":
        ctx.extra["drift_boost"] = "off (VERIF_NO_DRIFT_BOOST=1)"
        return False
    return bool(reasons)


# ------------------------------------------------------------------ the OCaml driver against in-Coq evaluation (thorough tier)

def coq_list(b):
    return "[" + "; ".join(str(x) for x in b) + "]"


def coq_opt_str(h):
    if h == "-":
        return "None"
    return "(Some %s)" % coq_list(b"" if h == "e" else bytes.fromhex(h))


def coq_opt_num(h):
    return "None" if h == "-" else "(Some %s)" % h


def coq_crosscheck(ctx, marshal_samples, decode_samples):
    """marshal_samples: (driver `m` line, driver output); decode_samples: (bytes, nfds, driver output).
    Generates one .v file in which Coq's own vm_compute must reproduce what the extracted driver printed."""
    out = ["From RB Require Import Base.Prelude Msg.Header Msg.HeaderSpec Msg.MsgSpec Msg.HeaderDecode."]
    n = 0
    for line, res in marshal_samples:
        p = line.split(" ")
        body = p[13].split(":")
        typ = {"1": "MCall", "2": "MReply", "3": "MError", "4": "MSignal"}.get(p[3], "MInvalid")
        m = ("{| m_typ := %s; m_flags := %s; m_be := %s; m_reply_serial := %s; m_interface := %s; m_destination := %s; "
             "m_sender := %s; m_member := %s; m_object := %s; m_error_name := %s; m_body := %s; m_sig := %s; m_nfds := %s; m_live := %s |}" % (
                 typ, p[4], "true" if p[2] == "B" else "false", coq_opt_num(p[6]), coq_opt_str(p[7]), coq_opt_str(p[8]),
                 coq_opt_str(p[9]), coq_opt_str(p[10]), coq_opt_str(p[11]), coq_opt_str(p[12]),
                 coq_list(b"" if body[1] == "-" else bytes.fromhex(body[1])), coq_list(b"" if body[2] == "-" else bytes.fromhex(body[2])), body[3],
                 (p[14][2:] if len(p) > 14 and p[14].startswith("L:") else body[3])))
        f = fields_of(res)
        want = "Err" if f["H"] == "err" else "Ok %s" % coq_list(bytes.fromhex(f["H"]))
        out.append("Example m%d : marshal_msg %s %s = %s. Proof. vm_compute. reflexivity. Qed." % (n, m, p[5], want))
        if f["H"] != "err":
            out.append("Example s%d : spec_header %s %s = %s. Proof. vm_compute. reflexivity. Qed." % (n, m, p[5], coq_list(bytes.fromhex(f["S"]))))
        n += 1
    for b, nf, res in decode_samples:
        d = parse_decoded(res[2:])
        if not d["ok"]:
            out.append("Example d%d : decode_header %s = Err. Proof. vm_compute. reflexivity. Qed." % (n, coq_list(b)))
        else:
            h = ("{| h_be := %s; h_typ := %s; h_flags := %s; h_body_len := %s; h_serial := %s; h_reply_serial := %s; h_interface := %s; "
                 "h_destination := %s; h_sender := %s; h_member := %s; h_object := %s; h_error_name := %s; h_signature := %s; h_unix_fds := %s |}" % (
                     "true" if d["be"] == "1" else "false", d["t"], d["f"], d["bl"], d["ser"], coq_opt_num(d["rs"]), coq_opt_str(d["i"]),
                     coq_opt_str(d["d"]), coq_opt_str(d["sn"]), coq_opt_str(d["m"]), coq_opt_str(d["p"]), coq_opt_str(d["e"]),
                     coq_opt_str(d["g"]), coq_opt_num(d["fd"])))
            out.append("Example d%d : decode_header %s = Ok (%s, %s). Proof. vm_compute. reflexivity. Qed." % (n, coq_list(b), h, d["used"]))
        n += 1
    try:
        vlib.coq_eval("c05_cross", "\n".join(out) + "\n")
        ctx.extra["driver_vs_coq_vm_compute"] = "%d samples agree" % n
    except vlib.BrokenTie as bt:
        ctx.tie_broken("the extracted OCaml driver differs from in-Coq vm_compute evaluation of the model", bt.detail[-1500:])


def builds(ctx):
    exe = vlib.harness_build(["c05"])["c05"]
    vlib.coq_make(["Msg/Ops.vo"])
    drv = vlib.ocaml_build("c05")
    return exe, drv


def sig_verdicts(drv, sigs):
    """validity of body signatures by the (C07-proved) model validator: a message with SIGNATURE field <sig> and
    nothing else wrong marshals iff the signature is valid. Uses the `m` op of the driver on a minimal signal."""
    sigs = list(sigs)
    lines = ["m d l 4 0 1 - 612e62 - - 4d 2f - B:00:%s:0" % s for s in sigs]
    out = run_sharded(drv, lines, "driver")
    return {s: not o.startswith("H:err") for s, o in zip(sigs, out)}


def run(ctx):
    thorough = ctx.tier == "thorough" or drifted(ctx)
    ctx.rule = "(filled in at the end of the run with the numbers of this run)"
    ctx.trusted = ["Coq 8.16.1 kernel (coqc), vm_compute for the 3x256 flag sweep, no native_compute",
                   "extraction with ExtrOcamlBasic only, ocamlfind ocamlopt 4.13.1",
                   "ocaml/c05/driver.ml and harness/src/bin/c05.rs (I/O wrappers), the name validators and byte checks in checks/c05.py",
                   "Wire/SpecEnc.v, Msg/HeaderSpec.v, Msg/MsgSpec.v, Names/Spec.v: my reading of the D-Bus specification",
                   "bodies of 16 MiB and more are built inside the harness from a descriptor (length and crc32 reported, recomputed "
                   "here); the extracted specification gets their length as a number (driver op e, tied to spec_header on an 8-byte "
                   "twin of the message), the model header is the twin's with the length field set (marshal_msg reads the body only "
                   "through len and is_nil) - python does that substitution"]
    ctx.assumptions = ["marshal() is called with an empty header buffer (the model's marshal_header starts from one); that SendConn::"
                       "send_message hands it one for EVERY message of a connection is observed, not proved: several messages per "
                       "connection, the whole byte stream read at the peer end",
                       "usize is 64 bit; ByteOrder::NATIVE is little endian on the machine the check runs on",
                       "strings are given as UTF-8 (Rust String); the body bytes/signature/descriptor count are inputs of the header "
                       "model (body marshalling is C01/C02)"]
    ctx.try_proof()
    exe, drv = builds(ctx)

    # ---------------- flags: exhaustive
    fi = run_proc(exe, ["f"])[1]
    fm = run_proc(drv, ["f"])[1]
    want = py_flags_line()
    ctx.evaluations += 768
    ctx.extra_distinct += 768
    ctx.count("flags:3x256", 768)
    if not fi or fi[0] != want:
        ctx.disagreements_checked += 1
        got = fi[0] if fi else "<no output>"
        # locate the first differing entry
        where = "?"
        gi, wi = got.split(" "), want.split(" ")
        for k in range(min(len(gi), len(wi))):
            if gi[k] != wi[k]:
                j = next((j for j in range(0, len(wi[k]), 7) if gi[k][j:j + 7] != wi[k][j:j + 7]), 0)
                where = "flag raw=%s byte=%d: is_set,set,unset,toggle = %s expected %s" % (wi[k - 1] if k else "?", j // 7, gi[k][j:j + 7], wi[k][j:j + 7])
                break
        ctx.violation("HeaderFlags helper disagrees with the bit of the flags byte", {"op": "f", "where": where})
    elif not fm or fm[0] != want:
        ctx.tie_broken("correspondence: extracted HeaderFlags model differs from the bit semantics", (fm or ["<none>"])[0][:300])

    # ---------------- messages
    r = ctx.sub_rng("msgs")
    msgs = []
    lines = []
    # corpus first
    for f in sorted(glob.glob(os.path.join(vlib.VERIF, "corpus", "C05", "*.case"))):
        for line in open(f):
            line = line.strip()
            if line and not line.startswith("#"):
                lines.append(line)
                msgs.append(None)
    ncorpus = len(lines)
    n = 20000 if thorough else 3000
    idx = 0
    if thorough:
        for subset in range(128):
            for rep in range(16):
                m = gen_msg(r, idx, subset)
                idx += 1
                msgs.append(m)
                lines.append(m.line())
    # name lengths over every residue mod 8 (interface x member x path), all seven fields present, both byte orders
    step = 1 if thorough else 3
    for li in range(3, 11, step):
        for lm in range(1, 9, step):
            for lp in range(1, 9, step):
                for bo in (0, 1):
                    m = gen_msg(r, idx * 2 + bo, 127)
                    idx += 1
                    m.kinds = ["residues"]
                    m.typ = 4
                    v = gen_valid_names(r)
                    m.rs = m.rs or 1
                    m.iface, m.member, m.path = iface_of_len(r, li), member_of_len(r, lm), path_of_len(r, lp)
                    m.dest, m.sender, m.err = v["dest"], v["sender"], v["err"]
                    msgs.append(m)
                    lines.append(m.line())
    # sizes beyond 16 and 8 bits: bodies of 64 KiB and more (the body length field), 255 and more descriptors (UNIX_FDS)
    for nbytes, nfd in [(65535, 0), (65536, 0), (65537, 1), (65536 + r.randrange(2, 5000), 0), (200 * 1024 + 3, 2),
                        (8, 255), (8, 256), (0, 257), (16, 300 + r.randrange(50)), (65536 + 8, 256)]:
        m = gen_msg(r, idx, 127)
        idx += 1
        m.kinds = ["sizes"]
        m.typ, m.mode, m.stale = 4, "d", None
        v = gen_valid_names(r)
        m.rs = m.rs or 1
        m.iface, m.member, m.path, m.dest, m.sender, m.err = v["iface"], v["member"], v["path"], v["dest"], v["sender"], v["err"]
        payload = bytes(r.getrandbits(8) for _ in range(max(0, nbytes - 4)))
        body = (struct.pack(">I" if m.bo == "B" else "<I", len(payload)) + payload) if nbytes >= 4 else b""
        m.body = "raw:%s:%s:%d" % (hx(body), hx("ay"), nfd)
        msgs.append(m)
        lines.append(m.line())
    while len(lines) < n + ncorpus:
        m = gen_msg(r, idx)
        idx += 1
        msgs.append(m)
        lines.append(m.line())
    nstd = 3000 if thorough else 600
    for _ in range(nstd):
        lines.append(gen_std(r))
        msgs.append(None)
    impl = run_sharded(exe, lines, "harness")
    # driver lines
    dl = []
    parsed = []
    for l, o, m in zip(lines, impl, msgs):
        if l.startswith("s ") and o.startswith("PANIC"):
            parsed.append(None)
            dl.append(l)                   # the constructor model says whether a panic is what the code must do here
            continue
        if o.startswith("CRASH") or o.startswith("PANIC"):
            parsed.append(None)
            dl.append("?")
            continue
        f = fields_of(o)
        parsed.append(f)
        if l.startswith("m "):
            dl.append(model_line_for(l, f))
        elif l.startswith("s "):
            dl.append(l)
        else:
            dl.append("?")
    model = run_sharded(drv, dl, "driver")
    # second round for the standard messages: their M: description, marshalled by the model
    std_idx = [i for i, l in enumerate(lines) if l.startswith("s ") and parsed[i] is not None]
    std_lines = []
    for i in std_idx:
        serial = int(lines[i].split(" ")[2])
        mm = msg_from_M(parsed[i]["M"], serial)
        msgs[i] = mm
        std_lines.append("m d %s %d %d %d %s %s %s %s %s %s %s B:%s" % (
            mm.bo, mm.typ, mm.flags, mm.serial, "-" if mm.rs is None else mm.rs, ohx(mm.iface), ohx(mm.dest), ohx(mm.sender),
            ohx(mm.member), ohx(mm.path), ohx(mm.err), parsed[i]["B"]))
    std_model = dict(zip(std_idx, run_sharded(drv, std_lines, "driver")))
    # signature verdicts for hand-made bodies
    sigs = set()
    for f in parsed:
        if f is not None:
            sigs.add(f["B"].split(":")[1])
    sv = sig_verdicts(drv, sigs)

    for i, (l, o, mo, m, f) in enumerate(zip(lines, impl, model, msgs, parsed)):
        if f is None and l.startswith("s ") and o.startswith("PANIC"):
            # a constructor panicked: known finding D24 exactly when a pushed string argument contains NUL, the panic is
            # the unwrap of StringContainsNullByte and the model (C05_standard_*: Panic on KnownClass_D24) says so too
            ctx.case(l, nontrivial=True)
            ctx.count("std:" + l.split(" ")[1])
            ctx.disagreements_checked += 1
            if in_class_D24(l) and "StringContainsNullByte" in o and mo == "M:PANIC":
                ctx.count("known:D24")
                if not ctx.known("D24", "a standard_messages / make_error_response constructor panics when a string argument "
                                        "contains NUL (push_param(..).unwrap()); e.g. `%s`" % l[:120]):
                    ctx.violation("a standard message constructor panicked on a string argument containing NUL", {"line": l, "impl": o[:400]})
            else:
                ctx.violation("a standard message constructor panicked%s" % (
                    " (not the unwrap of StringContainsNullByte)" if in_class_D24(l) else " although no pushed string argument contains NUL"),
                    {"line": l, "impl": o[:400], "model": mo[:200]})
            continue
        if f is None:
            ctx.disagreements_checked += 1
            ctx.violation("marshalling or decoding a message panicked / crashed", {"line": l, "impl": o[:400]})
            continue
        if l.startswith("s "):
            # constructor model vs implementation: header fields AND the pushed body
            if mo == "M:PANIC":
                ctx.disagreements_checked += 1
                if any(x and b"\x00" in x and x.hex() in f["B"].split(":")[0] for x in std_pushed(l)):
                    ctx.violation("a standard message constructor returned a message whose body holds a string with a NUL byte",
                                  {"line": l, "impl": o[:600]})
                else:
                    ctx.tie_broken("correspondence: the constructor model panics (a pushed string argument contains NUL), the constructor did not",
                                   "line: %s\nimpl: %s" % (l, o[:400]))
                continue
            if mo != "M:%s B:%s" % (f["M"], f["B"]):
                ctx.disagreements_checked += 1
                ctx.tie_broken("correspondence: standard message constructor differs from its model",
                               "line: %s\nimpl: M:%s B:%s\nmodel: %s" % (l, f["M"], f["B"], mo))
            mo = std_model[i]
            ctx.count("std:" + l.split(" ")[1])
        elif m is None:
            # corpus `m` line: rebuild the Msg from the line
            p = l.split(" ")
            dec = lambda h: None if h == "-" else ("" if h == "e" else bytes.fromhex(h).decode())
            m = Msg()
            m.kinds = ["corpus"]
            m.mode, m.bo, m.typ, m.flags, m.serial = p[1], p[2], int(p[3]), int(p[4]), int(p[5])
            m.rs = None if p[6] == "-" else int(p[6])
            m.iface, m.dest, m.sender, m.member, m.path, m.err = [dec(x) for x in p[7:13]]
            m.body = p[13]
        mf = fields_of(mo)
        if "H" not in mf or "S" not in mf:
            ctx.tie_broken("extracted model driver failed on a message", "line: %s\nmodel: %s" % (dl[i][:300], mo[:300]))
            continue
        mf["sigok"] = sv.get(f["B"].split(":")[1])
        nfields = sum(x is not None for x in (m.rs, m.iface, m.dest, m.sender, m.member, m.path, m.err))
        ctx.case(l, nontrivial=nfields >= 2,
                 sample={"line": l[:300], "impl": o[:300]} if nfields >= 4 and i % 97 == 0 else None)
        ctx.count("type:%d" % m.typ)
        ctx.count("result:" + ("err" if f["H"] == "err" else "ok"))
        ctx.count("fields:%d" % nfields)
        ctx.count("bo:" + m.bo)
        for k in m.kinds:
            ctx.count("kind:" + k)
        body = f["B"].split(":")
        ctx.count("body:" + ("empty" if body[0] == "-" else "nonempty") + ("+fds" if body[2] != "0" else "")
                  + ("+taken" if f.get("L", body[2]) != body[2] else ""))
        viol, corr = judge_marshal(m, f, mf)
        if viol or corr:
            ctx.disagreements_checked += 1
        if viol:
            ctx.violation(viol[0], {"line": l, "impl": o[:2000], "model": mo[:2000], "all": viol})
        elif corr:
            ctx.tie_broken("correspondence: " + corr[0], "line: %s\nimpl: %s\nmodel: %s" % (l[:500], o[:1000], mo[:1000]))
    ctx.count("corpus", ncorpus)

    # ---------------- a DECODED message (its dynheader carries serial, signature and num_fds of the old body) gets a
    # different body and is marshalled again: the header must be the specification's header for the new body
    r2 = ctx.sub_rng("remarshal")
    gen_idx = [i for i, m in enumerate(msgs) if m is not None and lines[i].startswith("m ") and m.body is not None and parsed[i] is not None
               and parsed[i]["H"] != "err" and m.required_present()]
    pick = r2.sample(gen_idx, min(len(gen_idx), 1500 if thorough else 300))
    rl, rmeta = [], []
    for i in pick:
        body2, serial2 = gen_body(r2), r2.choice(SERIALS)
        rl.append("r " + lines[i][2:] + " %s %d" % (body2, serial2))
        rmeta.append((msgs[i], serial2))
    rout = run_sharded(exe, rl, "harness")
    rml = []
    for (m, serial2), o in zip(rmeta, rout):
        f = fields_of(o) if o.startswith("R:ok") else None
        rml.append("?" if f is None else "m d %s %d %d %d %s %s %s %s %s %s %s B:%s" % (
            m.bo, m.typ, m.flags, serial2, "-" if m.rs is None else m.rs, ohx(m.iface), ohx(m.dest), ohx(m.sender),
            ohx(m.member), ohx(m.path), ohx(m.err), f["B"] + (" L:" + f["L"] if "L" in f else "")))
    rmodel = run_sharded(drv, rml, "driver")
    for l, o, ml, mo in zip(rl, rout, rml, rmodel):
        ctx.case(l, nontrivial=True)
        ctx.count("remarshal:" + o.split(" ")[0])
        if not o.startswith("R:ok"):
            ctx.disagreements_checked += 1
            ctx.violation("a marshalled message with its required fields could not be decoded again (%s)" % o[:40], {"line": l, "impl": o[:300]})
            continue
        f, mf = fields_of(o), fields_of(mo)
        if "S" not in mf:
            ctx.tie_broken("extracted model driver failed on a re-marshal case", "line: %s\nmodel: %s" % (ml[:300], mo[:300]))
        elif f["H"] != mf["H"]:
            ctx.disagreements_checked += 1
            if f["H"] != "err" and f["H"] != mf["S"]:
                ctx.violation("re-marshalling a decoded message with a new body: the header differs from the specification's header "
                              "(stale dynheader serial / signature / num_fds used?)", {"line": l, "impl": o[:1500], "model": mo[:1500]})
            else:
                ctx.tie_broken("correspondence: re-marshal verdict differs from the model", "line: %s\nimpl: %s\nmodel: %s" % (l[:400], o[:600], mo[:600]))

    # ---------------- bytes captured from the peer end of a real connection: one to four messages go through ONE connection
    # (send_message_write_all each, in order); everything the peer reads until the connection is closed must be header ++ body
    # of each message that marshals, in order, and nothing else (a message that does not marshal leaves no byte on the wire
    # and no trace in the next one's header).
    # (not the messages with hundreds of descriptors: one sendmsg carries at most 253, that limit is C10/C11's subject)
    pool = [i for i, m in enumerate(msgs) if m is not None and lines[i].startswith("m ") and m.body is not None and parsed[i] is not None
            and int(parsed[i]["B"].split(":")[2]) <= 200]
    okp = [i for i in pool if parsed[i]["H"] != "err"]
    erp = [i for i in pool if parsed[i]["H"] == "err"]
    sized = [i for i in okp if "sizes" in msgs[i].kinds]
    groups = []
    for i in sized:                                   # a 64 KiB .. 200 KiB message before and after an ordinary one
        groups.append([i, r2.choice(okp)])
        groups.append([r2.choice(okp), i])
    shapes = ["o", "oo", "oo", "ooo", "ooo", "oeo", "oeo", "eo", "oe", "oeeo", "ooeo", "xx", "xxx"]
    while len(groups) < (500 if thorough else 110):
        shape = r2.choice(shapes)
        groups.append([r2.choice(okp if c == "o" else erp if c == "e" and erp else pool) for c in shape])
    wl = ["ww " + " ; ".join(lines[i][2:] for i in g) for g in groups]
    wout = run_sharded(exe, wl, "harness", per=10)
    for g, l, o in zip(groups, wl, wout):
        ctx.case(l, nontrivial=len(g) >= 2)
        want, got, where = ww_expected([parsed[i] for i in g]), o, ""
        ctx.count("wire:messages-on-one-connection:%d" % len(g))
        for i in g:
            ctx.count("wire:" + ("err" if parsed[i]["H"] == "err" else "sent"))
        if got != want:
            ctx.disagreements_checked += 1
            ctx.violation("the bytes a peer reads from the connection are not marshal's header followed by the body, for each message in "
                          "order (%s)" % ww_first_difference([parsed[i] for i in g], got), {"line": l, "wire": got[:3000], "expected": want[:3000]})

    # ---------------- bodies of 16 MiB and more, built inside the harness from a short descriptor
    run_big(ctx, exe, drv, thorough)
    if ctx.tier == "thorough":
        picks = [i for i, l in enumerate(lines) if l.startswith("m ") and parsed[i] is not None and len(l) < 1500][:: max(1, len(lines) // 12)][:12]
        coq_crosscheck(ctx, [(dl[i], model[i]) for i in picks], [])

    # ---------------- the D19 witness: a 64 MiB object path (only the implementation; the property is checked directly)
    big = []
    for nbytes in ((1 << 26) - 40, 1 << 26):
        path = "/" + "a" * nbytes
        big.append("m d l 1 0 7 - - - - %s %s - raw:-:-:0" % (hx("Mem"), hx(path)))
    for l in big:
        rc, o, e = run_proc(exe, [l])
        ctx.evaluations += 1
        ctx.count("big-path")
        if rc != 0 or len(o) != 1:
            ctx.tie_broken("harness failed on the 64 MiB path case", e[-500:])
            continue
        i, j = o[0].find(" H:"), o[0].find(" D:")
        H, D = o[0][i + 3:j], o[0][j + 3:j + 40]
        if H != "err":
            hfl = struct.unpack("<I", bytes.fromhex(H[24:32]))[0]
            if hfl > (1 << 26):
                ctx.violation("marshal produced a header field array longer than 64 MiB", {"path_bytes": len(l), "hfl": hfl, "line": l[:80] + "..."})
            elif not D.startswith("ok"):
                ctx.violation("the library's decoder rejects a marshalled message (large path)", {"hfl": hfl, "decoded": D})
    ctx.exhaustive = False
    hg = ctx.histogram
    tot = lambda pre: sum(v for k, v in hg.items() if k.startswith(pre))
    ctx.rule = (
        "this run (%s sizes): %d generated messages = 4 types (+Invalid: %d) x subsets of the 7 optional header fields (thorough sizes: "
        "all 128 subsets x 16) x valid names of swept lengths (%d messages sweep interface x member x path lengths over every residue mod 8 "
        "in both byte orders) or one invalid name from a list of single-fault names (%d) x flags cycling through 0..255 in both byte orders x "
        "boundary serials x bodies (empty, pushed params incl. descriptors, hand-made bytes with valid/invalid signatures), built through "
        "MessageBuilder::with_byteorder (body pushed into the built message) or field by field, about half of them with stale "
        "dynheader.serial/signature/num_fds that disagree with the body; %d standard_messages / reply constructor calls, about a quarter "
        "of the pushed string arguments containing NUL (%d of them in the class of known finding D24); %d decoded messages given a "
        "different body and marshalled again; %d messages sent through %d real connections (1 to 4 per connection, messages that do not "
        "marshal in between, 64 KiB..200 KiB ones before and after small ones), the whole byte stream read at the peer end; %d messages with bodies of "
        "2^24-5 .. 128 MiB built inside the harness (around 2^24, 40 MB, 2^26, exactly at / 1 byte over the 128 MiB message limit, both byte orders); HeaderFlags "
        "exhaustively (3 x 256); a 64 MiB object path; %d messages with bodies of 64 KiB..200 KiB and/or 255..350 descriptors. A case is non-trivial when it has at least two header fields; distinct = distinct "
        "harness lines" % ("thorough" if thorough else "quick", sum(1 for l in lines if l.startswith("m ")), hg.get("type:0", 0), hg.get("kind:residues", 0),
                           tot("kind:bad-"), tot("std:"), hg.get("known:D24", 0), tot("remarshal:"), hg.get("wire:sent", 0) + hg.get("wire:err", 0),
                           tot("wire:messages-on-one-connection:"), hg.get("kind:big", 0), hg.get("kind:sizes", 0)))


def replay(ctx, body):
    data = body["data"]
    exe, drv = builds(ctx)
    if data.get("op") == "f":
        fi = run_proc(exe, ["f"])[1]
        ok = bool(fi) and fi[0] == py_flags_line()
        print("HeaderFlags table", "matches the bit semantics" if ok else "REPRODUCED: differs from the bit semantics: " + data.get("where", ""))
        return 0 if ok else 1
    l = data["line"]
    if l.startswith("ww "):
        parts = l[3:].split(" ; ")
        fs = [fields_of(run_proc(exe, ["m " + x])[1][0]) for x in parts]
        o = run_proc(exe, [l])[1]
        got, want = (o or ["<crash>"])[0], ww_expected(fs)
        print("%d messages through one connection" % len(parts))
        for x, f in zip(parts, fs):
            print("  m", x[:200], "->", "refused" if f["H"] == "err" else "%d header + %d body bytes" % (len(f["H"]) // 2, body_len_of(f["B"].split(":")[0])))
        print("wire    :", got[:600], "\nexpected:", want[:600])
        print("REPRODUCED: the bytes on the wire are not header ++ body of each message in order: " + ww_first_difference(fs, got)
              if got != want else "not reproduced")
        return 1 if got != want else 0
    if l.startswith("M "):
        o = run_proc(exe, [l])[1]
        print("line:", l[:400])
        print("impl:", (o or ["<crash>"])[0][:1500])
        if not o or o[0].startswith("PANIC"):
            print("REPRODUCED: crash/panic")
            return 1
        f = fields_of(o[0])
        p = l.split(" ")
        dec = lambda h: None if h == "-" else ("" if h == "e" else bytes.fromhex(h).decode())
        m = Msg()
        m.kinds = []
        m.mode, m.bo, m.typ, m.flags, m.serial = p[1], p[2], int(p[3]), int(p[4]), int(p[5])
        m.rs = None if p[6] == "-" else int(p[6])
        m.iface, m.dest, m.sender, m.member, m.path, m.err = [dec(x) for x in p[7:13]]
        _, nbytes, seed, sighex, nfds = p[13].split(":")
        mf, problem = big_model(m, drv, int(nbytes), bytes.fromhex(sighex).decode(), int(nfds))
        if problem:
            print("specification not available:", problem)
            return 2
        print("spec header :", mf["S"][:600], "\nmodel header:", mf["H"][:600])
        if f["B"].split(":")[0] != big_token(int(nbytes), int(seed), m.bo == "B"):
            print("not reproduced (the harness built a different body than the descriptor stands for)")
            return 0
        viol, corr = judge_marshal(m, f, mf)
        if viol:
            print("REPRODUCED:", "; ".join(viol))
            return 1
        print("not reproduced" + (" (model and implementation differ: %s)" % corr[0] if corr else ""))
        return 0
    if l.startswith("w "):
        o = run_proc(exe, [l])[1]
        om = run_proc(exe, ["m " + l[2:]])[1]
        f = fields_of(om[0])
        want = "W:err" if f["H"] == "err" else "W:" + f["H"] + ("" if f["B"].split(":")[0] == "-" else f["B"].split(":")[0])
        got = " ".join(t for t in o[0].split(" ") if not t.startswith(("B:", "L:"))) if o and o[0].startswith("B:") else (o or ["<crash>"])[0]
        print("line:", l[:300], "\nwire    :", got[:600], "\nexpected:", want[:600])
        print("REPRODUCED: the bytes on the wire are not header ++ body" if got != want else "not reproduced")
        return 1 if got != want else 0
    if l.startswith("r "):
        o = run_proc(exe, [l])[1]
        print("line:", l[:300], "\nimpl:", (o or ["<crash>"])[0][:800])
        if not o or not o[0].startswith("R:ok"):
            print("REPRODUCED: the marshalled message could not be decoded / re-marshalled")
            return 1
        f = fields_of(o[0])
        p = l.split(" ")
        ml = "m d %s B:%s" % (" ".join(p[2:5] + [p[-1]] + p[6:13]), f["B"])
        mo = run_proc(drv, [ml])[1][0]
        print("spec:", mo[:800])
        mf = fields_of(mo)
        bad = f["H"] != mf["H"] and f["H"] != mf.get("S")
        print("REPRODUCED: the re-marshalled header differs from the specification's header" if bad else "not reproduced")
        return 1 if bad else 0
    o = run_proc(exe, [l])[1]
    print("line:", l[:300])
    print("impl:", (o or ["<crash>"])[0][:1500])
    if not o or o[0].startswith("PANIC"):
        if l.startswith("s ") and o and in_class_D24(l) and "StringContainsNullByte" in o[0]:
            print("panic in the class of known finding D24 (a pushed string argument contains NUL)")
            return 0
        print("REPRODUCED: crash/panic")
        return 1
    f = fields_of(o[0])
    if l.startswith("s "):
        m = msg_from_M(f["M"], int(l.split(" ")[2]))
        ml = "m d %s %d %d %d %s %s %s %s %s %s %s B:%s" % (m.bo, m.typ, m.flags, m.serial, "-" if m.rs is None else m.rs, ohx(m.iface),
                                                             ohx(m.dest), ohx(m.sender), ohx(m.member), ohx(m.path), ohx(m.err), f["B"])
    else:
        p = l.split(" ")
        dec = lambda h: None if h == "-" else ("" if h == "e" else bytes.fromhex(h).decode())
        m = Msg()
        m.kinds = []
        m.mode, m.bo, m.typ, m.flags, m.serial = p[1], p[2], int(p[3]), int(p[4]), int(p[5])
        m.rs = None if p[6] == "-" else int(p[6])
        m.iface, m.dest, m.sender, m.member, m.path, m.err = [dec(x) for x in p[7:13]]
        ml = model_line_for(l, f)
    mo = run_proc(drv, [ml])[1][0]
    print("spec/model:", mo[:1500])
    mf = fields_of(mo)
    mf["sigok"] = sig_verdicts(drv, [f["B"].split(":")[1]])[f["B"].split(":")[1]]
    viol, corr = judge_marshal(m, f, mf)
    if viol:
        print("REPRODUCED:", "; ".join(viol))
        return 1
    print("not reproduced" + (" (model and implementation differ: %s)" % corr[0] if corr else ""))
    return 0
