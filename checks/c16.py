"""C16 - dynamic, trait, derive and macro APIs encode and decode identically.

Proof: coq/Properties/C16.v (derived struct = tuple of its fields for signature, marshalling, unmarshalling and
has_sig; the three enum generators marshal a case as the typed Variant of its type, decode hits to the case and
misses to Err / Catchall having consumed exactly the value; cross-decoding by composing C02 with decoder completeness).
Tie: harness/src/bin/c16.rs builds the same value through every API (tuple, derived struct, Param; typed Variant,
derived enum, dbus_variant_sig!, dbus_variant_var!, Param variant) after 0..15 prefix bytes in both byte orders,
reads every encoding back with every API, places variants of types outside the case lists between other parameters,
and asks derived structs for bodies of other signatures. Each output line is compared with the extracted model
(ocaml/c16, from coq/Wire/C16Ops.v) and - independently of the model - the property predicate is evaluated on the
implementation's own output.
"""
import glob
import os

import vlib
import wiregen as wg


# ----------------------------------------------------------------------------- type names
def to_tree(name):
    """harness type name (<..> derived struct, (..) tuple, v[..]) -> wiregen type tree (derived structs are structs)"""
    return wg.parse_ext(name.replace("<", "(").replace(">", ")"))


def erased(name):
    return wg.erased(to_tree(name))


def parse_desc(desc):
    """enum descriptor -> list of (kind, payload type name as a tuple/single type)"""
    cases = []
    for c in desc.split("|"):
        kind, body = c[0], c[2:]
        cases.append((kind, body if kind == "1" else "(" + body + ")"))
    return cases


# maps get at most one entry: two HashMap instances holding the same entries may iterate in different orders, which
# would make byte-for-byte comparison between APIs meaningless (entry order is covered by C01/C02)
def gen_value(r, name):
    return wg.ValGen(r, sizes=(0, 1, 1, 2, 2, 3), dict_sizes=(0, 1, 1)).gen(to_tree(name))


# ----------------------------------------------------------------------------- output lines
def fields(line):
    d = {}
    order = []
    for part in line.split(" "):
        if "=" in part:
            k, v = part.split("=", 1)
            d[k] = v
            order.append(k)
    return d, order


def canon_toks(s):
    """value tokens joined by '_' -> canonical token string (maps sorted)"""
    try:
        return wg.canon(s.replace("_", " "))
    except Exception:
        return "UNPARSABLE:" + s


def canon_line(line):
    """canonical form of an output line: value tokens canonicalised"""
    d, order = fields(line)
    out = []
    for k in order:
        parts = ["err" if p == "wrongsig" else p for p in d[k].split(",")]      # error variants are not compared
        parts = [canon_toks(p) if ("_" in p and not p.startswith("ok_")) else ("ok_" + canon_toks(p[3:]) if p.startswith("ok_") else p)
                 for p in parts]
        out.append(k + "=" + ",".join(parts))
    return " ".join(out)


def predicate(case, line):
    """the property evaluated on one implementation output line; returns None or what is wrong"""
    kind = case["op"]
    if line.startswith("PANIC") or line.startswith("BAD") or line == "?":
        return "the implementation panicked or could not run the case: " + line[:120]
    d, _ = fields(line)
    want = wg.canon(" ".join(case["toks"]))
    if kind == "ST":
        sig = ("y" * case["prefix"] + erased(case["shape"])).encode().hex()
        encs = [d.get("enc:" + a, "missing") for a in "TDP"]
        for a, e in zip("TDP", encs):
            if not e.startswith("ok,"):
                return "API %s refused a value of the common sub-language" % a
            if e.split(",")[1] != sig:
                return "API %s produced signature %s, the struct's signature is %s" % (a, e.split(",")[1], sig)
        if len(set(encs)) != 1:
            return "tuple, derived struct and Param tree produced different signature/bytes"
        for a in "TDP":
            for b in "TDP":
                got = d.get("dec:%s%s" % (a, b), "missing").split(",")
                if got[0] != "ok":
                    return "encoding by %s not decoded by %s: %s" % (a, b, got[0])
                if got[1] != "t1":
                    return "decoding by %s of the encoding by %s did not consume exactly the value" % (b, a)
                if canon_toks(got[2]) != want:
                    return "decoding by %s of the encoding by %s gives a different value" % (b, a)
        return None
    if kind == "HS":
        if not d.get("enc:O", "").startswith("ok,"):
            return "the other value was refused"
        same = erased(case["shape"]) == erased(case["other"])
        # same D-Bus signature but a variant inside holds another type: the read fails inside the variant, or succeeds
        # with the same value - either way no mismatch of STRUCT signatures is involved
        inner_differs = same and to_tree(case["shape"]) != to_tree(case["other"])
        for who in "DT":
            got = d.get("get:" + who, "missing").split(",")
            if inner_differs:
                if got[0] == "ok" and (got[1] != "t1" or canon_toks(got[2]) != want):
                    return "the %s misread a body whose variant holds another type" % ("derived struct" if who == "D" else "tuple")
                if got[0] not in ("ok", "wrongsig", "err"):
                    return "the %s neither read nor reported an error: %s" % ("derived struct" if who == "D" else "tuple", got[0])
            elif same:
                if got[0] != "ok" or got[1] != "t1" or canon_toks(got[2]) != want:
                    return "the %s did not read a body of its own signature" % ("derived struct" if who == "D" else "tuple")
            elif got[0] == "ok":
                return "the %s accepted a body of signature %s" % ("derived struct" if who == "D" else "tuple", erased(case["other"]))
            elif got[0] not in ("wrongsig", "err"):
                return "the %s neither matched nor reported a mismatch: %s" % ("derived struct" if who == "D" else "tuple", got[0])
        got = d.get("get:O", "missing").split(",")
        if got[0] != "ok" or got[1] != "t1" or canon_toks(got[2]) != want:
            return "the value's own type did not read it back"
        return None
    if kind == "EN":
        cases = parse_desc(case["desc"])
        sig = ("y" * case["prefix"] + "v").encode().hex()
        csig = erased(cases[case["case"]][1])
        first = [erased(c[1]) for c in cases].index(csig)
        wantv = wg.canon("v " + csig + " " + " ".join(case["toks"]))
        encs = [d.get("enc:" + a, "missing") for a in "VDSMP"]
        for a, e in zip("VDSMP", encs):
            if not e.startswith("ok,"):
                return "API %s refused a value of the common sub-language" % a
            if e.split(",")[1] != sig:
                return "API %s produced signature %s" % (a, e.split(",")[1])
        if len(set(encs)) != 1:
            return "the enum APIs produced different bytes for the same variant"
        for a in "VDSMP":
            for b in "VDSMP":
                got = d.get("dec:%s%s" % (a, b), "missing").split(",")
                if got[0] != "ok":
                    return "encoding by %s not decoded by %s: %s" % (a, b, got[0])
                if got[1] != "t1":
                    return "decoding by %s of the encoding by %s did not consume exactly the variant" % (b, a)
                if b in "DSM":
                    if got[2] != "c%d" % first:
                        return "enum %s decoded the encoding by %s to %s instead of case %d" % (b, a, got[2], first)
                    val = got[3]
                else:
                    val = got[2]
                if canon_toks(val) != wantv:
                    return "decoding by %s of the encoding by %s gives a different value" % (b, a)
        return None
    if kind == "EO":
        if not d.get("enc:V", "").startswith("ok,"):
            return "the typed Variant refused the value"
        osig = erased(case["other"])
        wantv = wg.canon("v " + osig + " " + " ".join(case["toks"]))
        got = d.get("read:D", "missing").split(",")
        if got[0] == "ok":
            return "the derived enum returned Ok for a variant of type %s, which is none of its cases" % osig
        if got[0] not in ("err", "wrongsig"):
            return "the derived enum neither decoded nor reported an error: %s" % got[0]
        if len(got) < 4 or got[1] != "next=ok" or got[2] != "a1" or canon_toks(got[3]) != wantv:
            return "after the derived enum's error the parser does not stand at the variant any more"
        for who in "SM":
            got = d.get("read:" + who, "missing").split(",")
            if got[0] != "ok":
                return "macro enum %s failed on a valid variant of an unknown type: %s" % (who, got[0])
            if got[2] != "catch":
                return "macro enum %s decoded a variant of type %s as %s" % (who, osig, got[2])
            if got[3] != osig:
                return "macro enum %s reports Catchall signature %s for %s" % (who, got[3], osig)
            if got[1] != "a1":
                return "macro enum %s returned Catchall without advancing exactly past the value" % who
            if who == "M" and (not got[4].startswith("ok_") or canon_toks(got[4][3:]) != wg.canon(" ".join(case["toks"]))):
                return "the Variant held by dbus_variant_var!'s Catchall does not give back the value"
        return None
    return "unknown case kind"


# ----------------------------------------------------------------------------- cases
def impl_line(c):
    if c["op"] == "ST":
        return "ST %s %s %d %s" % (c["shape"], c["bo"], c["prefix"], " ".join(c["toks"]))
    if c["op"] == "HS":
        return "HS %s %s %s %s" % (c["shape"], c["bo"], c["other"], " ".join(c["toks"]))
    if c["op"] == "EN":
        return "EN %s %s %d %d %s" % (c["set"], c["bo"], c["prefix"], c["case"], " ".join(c["toks"]))
    return "EO %s %s %d %s %s" % (c["set"], c["bo"], c["prefix"], c["other"], " ".join(c["toks"]))


def model_line(c):
    if c["op"] in ("EN", "EO"):
        parts = impl_line(c).split(" ")
        parts[1] = c["desc"]
        return " ".join(parts)
    return impl_line(c)


def make_cases(ctx, listing, thorough):
    r = ctx.sub_rng("c16")
    shapes = listing["shapes"].split(",")
    others = listing["others"].split(",")
    sets = {"E1": listing["E1"], "E2": listing["E2"]}
    cases = []
    nval = 30 if thorough else 3
    # structs: every shape x byte order x prefix 0..15
    for sh in shapes:
        for bo in ("le", "be"):
            for prefix in range(16):
                for _ in range(nval if prefix % 4 == 0 or thorough else 2):
                    cases.append({"op": "ST", "shape": sh, "bo": bo, "prefix": prefix, "toks": gen_value(r, sh)})
    # has_sig: every shape asked for every other body
    for sh in shapes:
        for ot in others:
            for _ in range(12 if thorough else 1):
                cases.append({"op": "HS", "shape": sh, "bo": r.choice(("le", "be")), "other": ot, "toks": gen_value(r, ot)})
    # enums: every case x byte order x prefix
    for name, desc in sets.items():
        cs = parse_desc(desc)
        for i, (kind, ty) in enumerate(cs):
            for bo in ("le", "be"):
                for prefix in range(16):
                    for _ in range(nval if prefix % 8 == 0 or thorough else 2):
                        cases.append({"op": "EN", "set": name, "desc": desc, "bo": bo, "prefix": prefix, "case": i,
                                      "toks": gen_value(r, ty)})
        inside = {erased(ty) for _, ty in cs}
        for ot in others:
            if erased(ot) in inside:
                continue
            prefixes = range(16) if thorough else sorted(r.sample(range(16), 8))
            for prefix in prefixes:
                for bo in (("le", "be") if thorough else (r.choice(("le", "be")),)):
                    for _ in range(3 if thorough else 1):
                        cases.append({"op": "EO", "set": name, "desc": desc, "bo": bo, "prefix": prefix, "other": ot,
                                      "toks": gen_value(r, ot)})
    return cases


def corpus_cases():
    out = []
    for p in sorted(glob.glob(os.path.join(vlib.VERIF, "corpus", "C16", "*.case"))):
        for line in open(p):
            line = line.strip()
            if not line or line.startswith("#"):
                continue
            out.append(eval(line, {"__builtins__": {}}))
    return out


def private_driver():
    """build the extracted driver and run it from a private copy: ocaml_build relinks ocaml/c16/driver on every call,
    so a concurrent run of this check could otherwise replace the file while it is being executed"""
    import shutil
    import subprocess
    os.makedirs(vlib.SCRATCH, exist_ok=True)
    mine = os.path.join(vlib.SCRATCH, "c16_driver_%d" % os.getpid())
    last = ""
    for _ in range(4):
        drv = vlib.ocaml_build("c16")
        try:
            shutil.copy(drv, mine)
            os.chmod(mine, 0o755)
            p = subprocess.run([mine], input="PING\n", stdout=subprocess.PIPE, stderr=subprocess.PIPE, text=True, timeout=60)
            if p.returncode == 0 and p.stdout.strip() == "?":
                return mine
            last = "rc=%s out=%r" % (p.returncode, p.stdout[:100])
        except OSError as e:
            last = str(e)
    raise vlib.BrokenTie("extracted c16 driver could not be started", last)


def run_cases(exe, drv, cases):
    ok, impl, err = vlib.par_run_lines(exe, [], [impl_line(c) for c in cases])
    if not ok:
        raise vlib.BrokenTie("c16 harness crashed", err)
    ok, model, err = vlib.par_run_lines(drv, [], [model_line(c) for c in cases])
    if not ok:
        raise vlib.BrokenTie("extracted c16 model crashed", err)
    return impl, model


def run(ctx):
    thorough = ctx.tier == "thorough"
    ctx.rule = ("case = (scenario, Rust type / enum, byte order, prefix length 0..15 of preceding u8 parameters, value): ST = one struct value "
                "through tuple, derived struct and Param tree, each encoding decoded by all three; HS = a derived struct asked to read a body "
                "of another (or its own) signature; EN = one enum case through typed Variant, derived enum, dbus_variant_sig!, "
                "dbus_variant_var! and Param variant, each encoding decoded by all five; EO = a variant of a type outside the enum's cases "
                "between other parameters, read by the three enums. Values are boundary-biased; maps have at most one entry. "
                "non-trivial = everything except HS cases whose other type is not a struct; distinct = distinct case lines")
    ctx.trusted = ["Coq 8.16.1 kernel", "extraction (ExtrOcamlBasic only) + ocaml/c16/driver.ml", "harness/src/bin/c16.rs, wirelib.rs",
                   "Wire/SpecEnc.v as the reading of the wire format (through C02 and decoder completeness)"]
    ctx.assumptions = ["usize is 64 bit, native byte order is little endian",
                       "UnixFd values and maps with several entries are exercised by C01/C02, not here",
                       "marshalling the Catchall case of the macro enums is unimplemented!() by design and outside the property"]
    if not os.environ.get("VERIF_SKIP_PROOF"):
        ctx.try_proof()
    exe = vlib.harness_build(["c16"])["c16"]
    vlib.coq_make(["Wire/C16Ops.vo"])
    drv = private_driver()
    try:
        _, out, _ = vlib.run_lines(exe, [], ["LIST"])
        listing, _ = fields(out[0])
        cases = corpus_cases() + make_cases(ctx, listing, thorough)
        impl, model = run_cases(exe, drv, cases)
    finally:
        try:
            os.remove(drv)
        except OSError:
            pass
    for c, li, lm in zip(cases, impl, model):
        line = impl_line(c)
        nontrivial = not (c["op"] == "HS" and not erased(c["other"]).startswith("("))
        ctx.case(line, nontrivial=nontrivial,
                 sample={"case": line[:160], "impl": li[:200]} if (nontrivial and ctx.evaluations % 211 == 0) else None)
        ctx.count("op:" + c["op"])
        ctx.count("bo:" + c["bo"])
        if "prefix" in c:
            ctx.count("prefix%8=" + str(c["prefix"] % 8))
        if c["op"] in ("ST", "HS"):
            ctx.count("shape:" + c["shape"])
        else:
            ctx.count("set:" + c["set"])
        why = predicate(c, li)
        agree = canon_line(li) == canon_line(lm)
        if why:
            ctx.disagreements_checked += 1
            ctx.violation(why, {"case": c, "line": line, "model_line": model_line(c), "impl": li, "model": lm})
        elif not agree:
            ctx.disagreements_checked += 1
            ctx.tie_broken("correspondence: c16 model and implementation differ although the property predicate holds on the implementation's output",
                           "%s\nimpl : %s\nmodel: %s" % (line, li, lm))


def replay(ctx, body):
    d = body["data"]
    exe = vlib.harness_build(["c16"])["c16"]
    vlib.coq_make(["Wire/C16Ops.vo"])
    drv = private_driver()
    try:
        impl, model = run_cases(exe, drv, [d["case"]])
    finally:
        try:
            os.remove(drv)
        except OSError:
            pass
    print("case :", d["line"])
    print("impl :", impl[0])
    print("model:", model[0])
    why = predicate(d["case"], impl[0])
    print("REPRODUCED: " + why if why else "not reproduced")
    return 1 if why else 0
