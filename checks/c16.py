"""C16 - dynamic, trait, derive and macro APIs encode and decode identically.

Proof: coq/Properties/C16.v (derived struct = tuple of its fields for signature, marshalling, unmarshalling and
has_sig; the three enum generators marshal a case as the typed Variant of its type, decode hits to the case and
misses to Err / Catchall having consumed exactly the value; cross-decoding by composing C02 with decoder completeness).
Tie: harness/src/bin/c16.rs builds the same value through every API (tuple, derived struct, Param; typed Variant,
derived enum, dbus_variant_sig!, dbus_variant_var!, Param variant) after 0..15 prefix bytes in both byte orders,
reads every encoding back with every API, places variants of types outside the case lists between other parameters,
and asks derived structs for bodies of other signatures. The Param tree is built three ways - enum literals (P), the public
conversion API of params/conversion.rs and params/container_constructors.rs (C: From<T>/From<&T>, TryFrom for Container,
make_* / push / insert) and the borrowed flavours (R: *Ref variants through make_*_ref) - and decoded Params are read back
through TryFrom<&Base> / as_* / into_* / From<&Param> (X); arrays of every fixed-size primitive (u8 i16 u16 i32 u32 i64 u64 f64) go as raw
slices (Vec<E>, &[E], [E; N], Cow<[E]>: the valid_slice() memory-copy path in the native byte order, the element loop in the other) through
the struct shapes of the harness's `slices` list and the enum set E6, in both byte orders, against the Param tree, which has no such path; the model treats all of these as the identity on the abstract
value, so C and R are compared with the model's P and X with the model's get_param. Enum set E3 has cases whose signatures
have 255, 256 and 320 bytes: beyond 255 every API must refuse alike (fix dec59e1). Each output line is compared with the extracted model
(ocaml/c16, from coq/Wire/C16Ops.v) and - independently of the model - the property predicate is evaluated on the
implementation's own output.
"""
import glob
import os

import vlib
import wiregen as wg


# ----------------------------------------------------------------------------- type names
def to_tree(name):
    """harness type name (<..> derived struct, (..) tuple, v[..]) -> wiregen type tree (derived structs are structs)"""
    return wg.parse_ext(name.replace("<", "(").replace(">", ")"))


def erased(name):
    return wg.erased(to_tree(name))


def parse_desc(desc):
    """enum descriptor -> list of (kind, payload type name as a tuple/single type)"""
    cases = []
    for c in desc.split("|"):
        kind, body = c[0], c[2:]
        cases.append((kind, body if kind == "1" else "(" + body + ")"))
    return cases


def sig_valid(sig):
    """a variant's signature: at most 255 bytes, at most 32 nested arrays and 32 nested structs"""
    if len(sig) > 255:
        return False
    depth_a = depth_s = 0
    stack = []          # open brackets; pending array prefixes are counted until their element ends
    arrays = 0          # arrays whose element type is being read
    # walk: every 'a' opens an array level that closes when its single element type is complete
    def walk(i, a, st):
        c = sig[i]
        if c == "a":
            if a + 1 > 32:
                raise ValueError
            if sig[i + 1] == "{":
                j = walk(i + 3, a + 1, st)      # key is one basic char
                return j + 1                    # the closing brace
            return walk(i + 1, a + 1, st)
        if c == "(":
            if st + 1 > 32:
                raise ValueError
            j = i + 1
            while sig[j] != ")":
                j = walk(j, a, st + 1)
            return j + 1
        return i + 1
    try:
        i = 0
        while i < len(sig):
            i = walk(i, 0, 0)
        return True
    except ValueError:
        return False


def parse_kind(kind):
    """container kind (E at the enum leaves) -> tree with ('E',) leaves"""
    pos = [0]

    def one():
        c = kind[pos[0]]
        pos[0] += 1
        if c == "E":
            return ("E",)
        if c == "a":
            if kind[pos[0]] == "{":
                k = kind[pos[0] + 1]
                pos[0] += 2
                v = one()
                pos[0] += 1
                return ("e", k, v)
            return ("a", one())
        if c in "(<":
            close = ")" if c == "(" else ">"
            fs = []
            while kind[pos[0]] != close:
                fs.append(one())
            pos[0] += 1
            return ("r", fs)
        return ("b", c)
    return one()


def kind_erased(t):
    return "v" if t[0] == "E" else (t[1] if t[0] == "b" else "a" + kind_erased(t[1]) if t[0] == "a"
                                   else "a{" + t[1] + kind_erased(t[2]) + "}" if t[0] == "e"
                                   else "(" + "".join(kind_erased(x) for x in t[1]) + ")")


def gen_container(r, t, cases):
    k = t[0]
    if k == "E":
        _, ty = r.choice(cases)
        return ["v", erased(ty)] + gen_value(r, ty)
    if k == "b":
        return wg.gen_base(r, t[1])
    if k == "a":
        n = r.choice((0, 1, 1, 2, 2, 3))
        out = ["a", kind_erased(t[1]), str(n)]
        for _ in range(n):
            out += gen_container(r, t[1], cases)
        return out
    if k == "e":
        n = r.choice((0, 1, 1))
        out = ["e", t[1], kind_erased(t[2]), str(n)]
        for _ in range(n):
            out += wg.gen_base(r, t[1]) + gen_container(r, t[2], cases)
        return out
    out = ["r", str(len(t[1]))]
    for f in t[1]:
        out += gen_container(r, f, cases)
    return out


# maps get at most one entry: two HashMap instances holding the same entries may iterate in different orders, which
# would make byte-for-byte comparison between APIs meaningless (entry order is covered by C01/C02)
def gen_value(r, name, sizes=(0, 1, 1, 2, 2, 3)):
    return wg.ValGen(r, sizes=sizes, dict_sizes=(0, 1, 1)).gen(to_tree(name))


# ----------------------------------------------------------------------------- output lines
def fields(line):
    d = {}
    order = []
    for part in line.split(" "):
        if "=" in part:
            k, v = part.split("=", 1)
            d[k] = v
            order.append(k)
    return d, order


def canon_toks(s):
    """value tokens joined by '_' -> canonical token string (maps sorted)"""
    try:
        return wg.canon(s.replace("_", " "))
    except Exception:
        return "UNPARSABLE:" + s


def canon_field(v):
    parts = ["err" if p == "wrongsig" else p for p in v.split(",")]      # error variants are not compared
    parts = [canon_toks(p) if ("_" in p and not p.startswith("ok_")) else ("ok_" + canon_toks(p[3:]) if p.startswith("ok_") else p)
             for p in parts]
    return ",".join(parts)


ST_ENC, ST_DEC = "TDPCR", "TDPX"
EN_ENC, EN_DEC = "VWDSMPCR", "VDSMPX"


def expected_from_model(case, mline):
    """the model has one Param API: the conversion (C) and borrowed (R) ways of building the tree are P, reading a
    decoded Param through the conversion API (X) is get_param"""
    m, _ = fields(mline)
    if case["op"] == "EC":
        return m
    if case["op"] not in ("ST", "EN"):
        return m
    decs = ST_DEC if case["op"] == "ST" else EN_DEC
    encs = ST_ENC if case["op"] == "ST" else EN_ENC
    for a, src in (("C", "P"), ("R", "P"), ("W", "V")):      # W = push_variant: marshal_as_variant, like the Variant wrapper
        if a not in encs:
            continue
        if "enc:" + src in m:
            m["enc:" + a] = m["enc:" + src]
        for b in decs:
            if "dec:" + src + b in m:
                m["dec:%s%s" % (a, b)] = m["dec:" + src + b]
    for a in encs:
        if "dec:%sP" % a in m:
            m["dec:%sX" % a] = m["dec:%sP" % a]
    return m


def agrees(case, li, lm):
    d, _ = fields(li)
    m = expected_from_model(case, lm)
    keys = [k for k in d if not k.startswith("sigs:") and not k.startswith("valid:")]
    if case["op"] == "EC":
        # the harness has no dbus_variant_var! / params::Variant flavour of the derived-struct kind
        avail = {k[4:] for k in d if k.startswith("enc:")}
        m = {k: v for k, v in m.items() if set(k.split(":")[1]) <= avail}
    if sorted(keys) != sorted(m):
        return False
    return all(canon_field(d[k]) == canon_field(m[k]) for k in keys)


def predicate(case, line):
    """the property evaluated on one implementation output line; returns None or what is wrong"""
    kind = case["op"]
    if line.startswith("PANIC") or line.startswith("BAD") or line == "?":
        return "the implementation panicked or could not run the case: " + line[:120]
    d, _ = fields(line)
    want = wg.canon(" ".join(case["toks"]))
    if kind == "ST":
        sig = ("y" * case["prefix"] + erased(case["shape"])).encode().hex()
        encs = [d.get("enc:" + a, "missing") for a in ST_ENC]
        for a in "CR":
            if d.get("sigs:" + a) != erased(case["shape"]):
                return "Param::make_signature / sig() / Type::from(&Param) of the tree built by %s: %s" % (a, d.get("sigs:" + a))
        for a, e in zip(ST_ENC, encs):
            if not e.startswith("ok,"):
                return "API %s refused a value of the common sub-language" % a
            if e.split(",")[1] != sig:
                return "API %s produced signature %s, the struct's signature is %s" % (a, e.split(",")[1], sig)
        if len(set(encs)) != 1:
            return "tuple, derived struct and the Param trees (literal, conversion API, borrowed) produced different signature/bytes"
        for a in ST_ENC:
            for b in ST_DEC:
                got = d.get("dec:%s%s" % (a, b), "missing").split(",")
                if got[0] != "ok":
                    return "encoding by %s not decoded by %s: %s" % (a, b, got[0])
                if got[1] != "t1":
                    return "decoding by %s of the encoding by %s did not consume exactly the value" % (b, a)
                if canon_toks(got[2]) != want:
                    return "decoding by %s of the encoding by %s gives a different value" % (b, a)
        return None
    if kind == "HS":
        if not d.get("enc:O", "").startswith("ok,"):
            return "the other value was refused"
        same = erased(case["shape"]) == erased(case["other"])
        # same D-Bus signature but a variant inside holds another type: the read fails inside the variant, or succeeds
        # with the same value - either way no mismatch of STRUCT signatures is involved
        inner_differs = same and to_tree(case["shape"]) != to_tree(case["other"])
        for who in "DT":
            got = d.get("get:" + who, "missing").split(",")
            if inner_differs:
                if got[0] == "ok" and (got[1] != "t1" or canon_toks(got[2]) != want):
                    return "the %s misread a body whose variant holds another type" % ("derived struct" if who == "D" else "tuple")
                if got[0] not in ("ok", "wrongsig", "err"):
                    return "the %s neither read nor reported an error: %s" % ("derived struct" if who == "D" else "tuple", got[0])
            elif same:
                if got[0] != "ok" or got[1] != "t1" or canon_toks(got[2]) != want:
                    return "the %s did not read a body of its own signature" % ("derived struct" if who == "D" else "tuple")
            elif got[0] == "ok":
                return "the %s accepted a body of signature %s" % ("derived struct" if who == "D" else "tuple", erased(case["other"]))
            elif got[0] not in ("wrongsig", "err"):
                return "the %s neither matched nor reported a mismatch: %s" % ("derived struct" if who == "D" else "tuple", got[0])
        got = d.get("get:O", "missing").split(",")
        if got[0] != "ok" or got[1] != "t1" or canon_toks(got[2]) != want:
            return "the value's own type did not read it back"
        return None
    if kind == "EN":
        cases = parse_desc(case["desc"])
        sig = ("y" * case["prefix"] + "v").encode().hex()
        csig = erased(cases[case["case"]][1])
        first = [erased(c[1]) for c in cases].index(csig)
        wantv = wg.canon("v " + csig + " " + " ".join(case["toks"]))
        encs = [d.get("enc:" + a, "missing") for a in EN_ENC]
        for a in "CR":
            if d.get("sigs:" + a) != "v/" + csig:
                return "Param::make_signature / sig() / Type::from(&Param) of the variant built by %s: %s" % (a, d.get("sigs:" + a))
        if not sig_valid(csig):
            # a variant's signature has at most 255 bytes and 32 array / 32 struct levels: every API refuses, and
            # leaves the body as it was
            untouched = "err,%s,%s" % (("y" * case["prefix"]).encode().hex() or "-",
                                       bytes((i * 37 + 1) % 256 for i in range(case["prefix"])).hex() or "-")
            for a, e in zip(EN_ENC, encs):
                if e.startswith("ok,"):
                    return "API %s marshalled a variant whose signature the protocol forbids (%d bytes: %s...)" % (a, len(csig), csig[:40])
                if e != untouched:
                    return "API %s refused the over-long variant signature but left something in the body" % a
            return None
        for a, e in zip(EN_ENC, encs):
            if not e.startswith("ok,"):
                return "API %s refused a value of the common sub-language" % a
            if e.split(",")[1] != sig:
                return "API %s produced signature %s" % (a, e.split(",")[1])
        if len(set(encs)) != 1:
            return "the enum APIs produced different bytes for the same variant"
        for a in EN_ENC:
            for b in EN_DEC:
                got = d.get("dec:%s%s" % (a, b), "missing").split(",")
                if got[0] != "ok":
                    return "encoding by %s not decoded by %s: %s" % (a, b, got[0])
                if got[1] != "t1":
                    return "decoding by %s of the encoding by %s did not consume exactly the variant" % (b, a)
                if b in "DSM":
                    if got[2] != "c%d" % first:
                        return "enum %s decoded the encoding by %s to %s instead of case %d" % (b, a, got[2], first)
                    val = got[3]
                else:
                    val = got[2]
                if canon_toks(val) != wantv:
                    return "decoding by %s of the encoding by %s gives a different value" % (b, a)
        return None
    if kind == "EO":
        if not d.get("enc:V", "").startswith("ok,"):
            return "the typed Variant refused the value"
        osig = erased(case["other"])
        wantv = wg.canon("v " + osig + " " + " ".join(case["toks"]))
        got = d.get("read:D", "missing").split(",")
        if got[0] == "ok":
            return "the derived enum returned Ok for a variant of type %s, which is none of its cases" % osig
        if got[0] not in ("err", "wrongsig"):
            return "the derived enum neither decoded nor reported an error: %s" % got[0]
        if len(got) < 4 or got[1] != "next=ok" or got[2] != "a1" or canon_toks(got[3]) != wantv:
            return "after the derived enum's error the parser does not stand at the variant any more"
        for who in "SM":
            got = d.get("read:" + who, "missing").split(",")
            if got[0] != "ok":
                return "macro enum %s failed on a valid variant of an unknown type: %s" % (who, got[0])
            if got[2] != "catch":
                return "macro enum %s decoded a variant of type %s as %s" % (who, osig, got[2])
            if got[3] != osig:
                return "macro enum %s reports Catchall signature %s for %s" % (who, got[3], osig)
            if got[1] != "a1":
                return "macro enum %s returned Catchall without advancing exactly past the value" % who
            if who == "M" and (not got[4].startswith("ok_") or canon_toks(got[4][3:]) != wg.canon(" ".join(case["toks"]))):
                return "the Variant held by dbus_variant_var!'s Catchall does not give back the value"
        return None
    if kind == "EC":
        t = parse_kind(case["kind"])
        sig = ("y" * case["prefix"] + kind_erased(t)).encode().hex()
        avail = [k[4:] for k in d if k.startswith("enc:")]
        need = "DSP" if case["kind"].startswith("<") else "DSMQP"
        if sorted(avail) != sorted(need):
            return "container scenario: encoders %s, expected %s" % ("".join(avail), need)
        encs = [d["enc:" + a] for a in avail]
        for a, e in zip(avail, encs):
            if not e.startswith("ok,"):
                return "container of enums: API %s refused a value of the common sub-language" % a
            if e.split(",")[1] != sig:
                return "container of enums: API %s produced signature %s" % (a, e.split(",")[1])
            if d.get("valid:" + a) != "true":
                return "the body marshalled by API %s fails the crate's own validate()" % a
        if len(set(encs)) != 1:
            return "a container of enum values and the same container of variants were marshalled to different bytes"
        for a in avail:
            for b in avail:
                got = d.get("dec:%s%s" % (a, b), "missing").split(",")
                if got[0] != "ok":
                    return "container of enums: encoding by %s not decoded by %s: %s" % (a, b, got[0])
                if got[1] != "t1":
                    return "container of enums: decoding by %s of the encoding by %s did not consume exactly the value" % (b, a)
                if canon_toks(got[2]) != want:
                    return "container of enums: decoding by %s of the encoding by %s gives a different value" % (b, a)
        return None
    if kind == "CV":
        tag, payload = case["toks"]
        names = {"y": ("u8", "byte"), "b": ("bool", "bool"), "n": ("i16", "i16"), "q": ("u16", "u16"), "i": ("i32", "i32"),
                 "u": ("u32", "u32"), "x": ("i64", "i64"), "t": ("u64", "u64")}
        if tag in names:
            t, a = names[tag]
            want_fields = ["try_%s:%s" % (t, payload), "as_%s:%s" % (a, payload), "into_%s:%s" % (a, payload)]
        elif tag == "d":
            want_fields = ["try_f64:" + payload, "into_f64:" + payload]
        elif tag == "s" and case["mode"] == "C":
            want_fields = ["try_String:" + payload, "as_str:" + payload, "into_string:" + payload]
        elif tag == "s":
            want_fields = ["try_str:" + payload, "as_str:" + payload, "into_str:" + payload]
        else:
            want_fields = []
        want_line = " ".join(["sig=" + tag] + want_fields + ["twins=true"])
        if line != want_line:
            return "conversions of a Base value: got '%s', the value converts only to its own type: '%s'" % (line[:200], want_line)
        return None
    if kind == "CF":
        if "ACCEPTED" in line.replace("push_right=ACCEPTED", "").replace("insert_right=ACCEPTED", ""):
            return "a conversion / constructor accepted what it must refuse: " + line
        for must in ("push_right=ACCEPTED", "insert_right=ACCEPTED", "ok_vec=au", "ok_map=a{ys}", "ok_struct=(ys)", "ok_variant=v",
                     "empty_vec=refused", "empty_map=refused", "mixed_vec=refused", "push_into_variant=refused"):
            if must not in line.split(" "):
                return "conversion / constructor probe: expected %s in: %s" % (must, line)
        return None
    return "unknown case kind"


# ----------------------------------------------------------------------------- cases
def impl_line(c):
    if c["op"] == "CV":
        return "CV %s %s" % (c["mode"], " ".join(c["toks"]))
    if c["op"] == "CF":
        return "CF"
    if c["op"] == "EC":
        return "EC %s %s %d %s" % (c["kind"], c["bo"], c["prefix"], " ".join(c["toks"]))
    if c["op"] == "ST":
        return "ST %s %s %d %s" % (c["shape"], c["bo"], c["prefix"], " ".join(c["toks"]))
    if c["op"] == "HS":
        return "HS %s %s %s %s" % (c["shape"], c["bo"], c["other"], " ".join(c["toks"]))
    if c["op"] == "EN":
        return "EN %s %s %d %d %s" % (c["set"], c["bo"], c["prefix"], c["case"], " ".join(c["toks"]))
    return "EO %s %s %d %s %s" % (c["set"], c["bo"], c["prefix"], c["other"], " ".join(c["toks"]))


def model_line(c):
    if c["op"] == "EC":
        return "EC %s %s %s %d %s" % (c["desc"], c["kind"], c["bo"], c["prefix"], " ".join(c["toks"]))
    if c["op"] in ("EN", "EO"):
        parts = impl_line(c).split(" ")
        parts[1] = c["desc"]
        return " ".join(parts)
    return impl_line(c)


def make_cases(ctx, listing, thorough):
    r = ctx.sub_rng("c16")
    shapes = listing["shapes"].split(",")
    others = listing["others"].split(",")
    sets = {"E1": listing["E1"], "E2": listing["E2"]}
    gaps = arity_gaps(shapes, others)
    if gaps:
        raise vlib.BrokenTie("c16 generator: no HS body one field longer / shorter than the shapes of arity " + ", ".join(gaps),
                             "add the struct types to OTHERS / with_other! in harness/src/bin/c16.rs")
    cases = [{"op": "CF", "bo": "le", "toks": []}]
    # every conversion of a Base value, boundary values of every base type, both construction flavours
    for mode in "CR":
        for tag in "ybnqiuxtdsog":
            for _ in range(12 if thorough else 6):
                cases.append({"op": "CV", "mode": mode, "bo": "le", "toks": wg.gen_base(r, tag)})
        for bits in (0, 1 << 63, 0x7FF8000000000000, 0x7FF0000000000001, 0xFFF0000000000000, 0x3FF8000000000000):
            cases.append({"op": "CV", "mode": mode, "bo": "le", "toks": ["d", str(bits)]})
        for tag, n in (("n", 0x8000), ("n", 0xFFFF), ("i", 0x80000000), ("i", 0xFFFFFFFF), ("x", 1 << 63), ("x", (1 << 64) - 1)):
            cases.append({"op": "CV", "mode": mode, "bo": "le", "toks": [tag, str(n)]})
    # enums in element position: every container kind x byte order x prefix
    cs1 = parse_desc(listing["E1"])
    for kind in listing["kinds"].split(","):
        t = parse_kind(kind)
        for bo in ("le", "be"):
            for prefix in range(16):
                for _ in range(30 if thorough else 2):
                    cases.append({"op": "EC", "kind": kind, "desc": listing["E1"], "bo": bo, "prefix": prefix,
                                  "toks": gen_container(r, t, cs1)})
    # several cases with one signature (the first answers); short signatures at and beyond the nesting limits
    for name in ("E4", "E5"):
        desc = listing[name]
        for i, (kind, ty) in enumerate(parse_desc(desc)):
            for bo in ("le", "be"):
                for prefix in (range(16) if thorough else sorted(r.sample(range(16), 4))):
                    cases.append({"op": "EN", "set": name, "desc": desc, "bo": bo, "prefix": prefix, "case": i,
                                  "toks": gen_value(r, ty, sizes=(0, 1) if name == "E5" else (0, 1, 1, 2, 2, 3))})
    # enum cases whose signatures have 255 / 256 / 320 bytes: all three case shapes, all enum flavours
    desc3 = listing["E3"]
    for i, (kind, ty) in enumerate(parse_desc(desc3)):
        for bo in ("le", "be"):
            for prefix in (range(16) if thorough else sorted(r.sample(range(16), 2))):
                cases.append({"op": "EN", "set": "E3", "desc": desc3, "bo": bo, "prefix": prefix, "case": i,
                              "toks": gen_value(r, ty, sizes=(0, 1))})   # small arrays: the model is slow on big bodies
    nval = 30 if thorough else 3
    # structs: every shape x byte order x prefix 0..15
    for sh in shapes:
        for bo in ("le", "be"):
            for prefix in range(16):
                for _ in range(nval if prefix % 4 == 0 or thorough else 2):
                    cases.append({"op": "ST", "shape": sh, "bo": bo, "prefix": prefix, "toks": gen_value(r, sh)})
    # raw slices of every fixed-size primitive (u8 i16 u16 i32 u32 i64 u64 f64) through Vec<E> / &[E] / [E; N] / Cow<[E]> against
    # the Param tree, which has no memory-copy path: every shape x BOTH byte orders x prefix 0..15 (valid_slice() chooses
    # between the copy and the element loop by byte order; the two must give the same bytes and read each other's)
    slice_sizes = (0, 1, 1, 2, 3, 3, 4, 5, 8)      # 0 1 2 4 5 8 go through [E; N], the rest through the unsized [E]
    for sh in listing["slices"].split(","):
        for bo in ("le", "be"):
            for prefix in range(16):
                for _ in range(nval if thorough else (2 if prefix % 4 == 0 else 1)):
                    cases.append({"op": "ST", "shape": sh, "bo": bo, "prefix": prefix, "toks": gen_value(r, sh, sizes=slice_sizes)})
    # the same arrays as enum case payloads: typed Variant, push_variant, derived enum, both macro enums, Param variants
    desc6 = listing["E6"]
    for i, (kind, ty) in enumerate(parse_desc(desc6)):
        for bo in ("le", "be"):
            for prefix in (range(16) if thorough else sorted(r.sample(range(16), 6))):
                for _ in range(nval if thorough else 2):
                    cases.append({"op": "EN", "set": "E6", "desc": desc6, "bo": bo, "prefix": prefix, "case": i,
                                  "toks": gen_value(r, ty, sizes=slice_sizes)})
    # has_sig: every shape asked for every other body
    for sh in shapes:
        for ot in others:
            for _ in range(12 if thorough else 1):
                cases.append({"op": "HS", "shape": sh, "bo": r.choice(("le", "be")), "other": ot, "toks": gen_value(r, ot)})
    # enums: every case x byte order x prefix
    for name, desc in sets.items():
        cs = parse_desc(desc)
        for i, (kind, ty) in enumerate(cs):
            for bo in ("le", "be"):
                for prefix in range(16):
                    for _ in range(nval if prefix % 8 == 0 or thorough else 2):
                        cases.append({"op": "EN", "set": name, "desc": desc, "bo": bo, "prefix": prefix, "case": i,
                                      "toks": gen_value(r, ty)})
        inside = {erased(ty) for _, ty in cs}
        for ot in others:
            if erased(ot) in inside:
                continue
            prefixes = range(16) if thorough else sorted(r.sample(range(16), 8))
            for prefix in prefixes:
                for bo in (("le", "be") if thorough else (r.choice(("le", "be")),)):
                    for _ in range(3 if thorough else 1):
                        cases.append({"op": "EO", "set": name, "desc": desc, "bo": bo, "prefix": prefix, "other": ot,
                                      "toks": gen_value(r, ot)})
    return cases


def arity_gaps(shapes, others):
    """has_sig is written once per tuple arity (1..4) and generated per derived struct: for every arity n among the shapes the
    bodies offered in HS must include a struct of n+1 fields whose first n are those of a shape of arity n, and (n > 1) one of n-1
    fields that is a prefix of such a shape. Returns the arities for which one is missing."""
    def fs(name):
        t = to_tree(name)
        return [wg.erased(x) for x in t[1]] if t[0] == "r" else None
    sf = [f for f in map(fs, shapes) if f]
    of = [f for f in map(fs, others) if f]
    gaps = []
    for n in sorted({len(f) for f in sf}):
        mine = [f for f in sf if len(f) == n]
        if not any(len(o) == n + 1 and o[:n] in mine for o in of):
            gaps.append("%d+1" % n)
        if n > 1 and not any(len(o) == n - 1 and any(f[:n - 1] == o for f in mine) for o in of):
            gaps.append("%d-1" % n)
    return gaps


def corpus_cases():
    out = []
    for p in sorted(glob.glob(os.path.join(vlib.VERIF, "corpus", "C16", "*.case"))):
        for line in open(p):
            line = line.strip()
            if not line or line.startswith("#"):
                continue
            out.append(eval(line, {"__builtins__": {}}))
    return out


def private_driver():
    """build the extracted driver and run it from a private copy: ocaml_build relinks ocaml/c16/driver on every call,
    so a concurrent run of this check could otherwise replace the file while it is being executed"""
    import shutil
    import subprocess
    os.makedirs(vlib.SCRATCH, exist_ok=True)
    mine = os.path.join(vlib.SCRATCH, "c16_driver_%d" % os.getpid())
    last = ""
    for _ in range(4):
        drv = vlib.ocaml_build("c16")
        try:
            shutil.copy(drv, mine)
            os.chmod(mine, 0o755)
            p = subprocess.run([mine], input="PING\n", stdout=subprocess.PIPE, stderr=subprocess.PIPE, text=True, timeout=60)
            if p.returncode == 0 and p.stdout.strip() == "?":
                return mine
            last = "rc=%s out=%r" % (p.returncode, p.stdout[:100])
        except OSError as e:
            last = str(e)
    raise vlib.BrokenTie("extracted c16 driver could not be started", last)


MODELLED = ("ST", "HS", "EN", "EO", "EC")


def run_cases(exe, drv, cases):
    ok, impl, err = vlib.par_run_lines(exe, [], [impl_line(c) for c in cases])
    if not ok:
        raise vlib.BrokenTie("c16 harness crashed", err)
    model = [None] * len(cases)
    idx = [i for i, c in enumerate(cases) if c["op"] in MODELLED and c.get("set") != "E3"]
    ok, mout, err = vlib.par_run_lines(drv, [], [model_line(cases[i]) for i in idx])
    if not ok:
        raise vlib.BrokenTie("extracted c16 model crashed", err)
    for i, o in zip(idx, mout):
        model[i] = o
    # the E3 lines (signatures of 255..320 bytes, bodies of 1.5 kB) take seconds each in the extracted model, whose
    # validator and cursor work on binary-N indices into lists: one process per line, all cores
    slow = [i for i, c in enumerate(cases) if c["op"] in MODELLED and c.get("set") == "E3"]
    if slow:
        import concurrent.futures as cf
        with cf.ThreadPoolExecutor(vlib.NPROC) as ex:
            res = list(ex.map(lambda i: vlib.run_lines(drv, [], [model_line(cases[i])]), slow))
        for i, (rc, o, e) in zip(slow, res):
            if rc != 0 or len(o) != 1:
                raise vlib.BrokenTie("extracted c16 model crashed", "rc=%s %s" % (rc, e[-1000:]))
            model[i] = o[0]
    return impl, model


def run(ctx):
    thorough = ctx.tier == "thorough"
    ctx.rule = "set after the cases are generated"
    ctx.trusted = ["Coq 8.16.1 kernel", "extraction (ExtrOcamlBasic only) + ocaml/c16/driver.ml", "harness/src/bin/c16.rs, wirelib.rs",
                   "Wire/SpecEnc.v as the reading of the wire format (through C02 and decoder completeness)"]
    ctx.assumptions = ["usize is 64 bit, native byte order is little endian",
                       "UnixFd values and maps with several entries are exercised by C01/C02, not here",
                       "marshalling the Catchall case of the macro enums is unimplemented!() by design and outside the property"]
    if not os.environ.get("VERIF_SKIP_PROOF"):
        ctx.try_proof()
    exe = vlib.harness_build(["c16"])["c16"]
    vlib.coq_make(["Wire/C16Ops.vo"])
    drv = private_driver()
    try:
        _, out, _ = vlib.run_lines(exe, [], ["LIST"])
        listing, _ = fields(out[0])
        cases = corpus_cases() + make_cases(ctx, listing, thorough)
        nop = {}
        for c in cases:
            nop[c["op"]] = nop.get(c["op"], 0) + 1
        slices = set(listing["slices"].split(","))
        nslice = sum(1 for c in cases if c["op"] == "ST" and c["shape"] in slices)
        ne6 = sum(1 for c in cases if c["op"] == "EN" and c["set"] == "E6")
        ctx.rule = ("case = (scenario, Rust type / enum, byte order, prefix length 0..15 of preceding u8 parameters, value). "
                    "ST (%d cases this run) = one struct value through tuple, derived struct and the Param tree built three ways (enum literals, the "
                    "params conversion/constructor API, the borrowed *Ref flavours): 5 encodings x 4 readers (tuple, derived, get_param, get_param read "
                    "back through TryFrom/as_*/into_*), of which %d cases are the raw-slice shapes: arrays of u8 i16 u16 i32 u32 i64 u64 f64 as Vec<E>, "
                    "&[E], [E; N] / [E] and Cow<[E]> (Signature::valid_slice: memory copy in the native byte order, element loop in the other) against "
                    "the Param tree, every element type in both byte orders at every prefix, also nested (aad, aaq, a{yai}); HS (%d) = a derived struct and the tuple of its fields asked to read a body of another (or its own) signature, among them for every "
                    "arity 1..4 a struct with one field more and one with one field fewer (the 5-field one is a derived struct: tuples end at 4); "
                    "EN (%d) = one enum case through typed Variant, derived enum, dbus_variant_sig!, dbus_variant_var! and the three Param variants: "
                    "8 encodings x 6 readers, including enum E3 whose case signatures have 255, 256 and 320 bytes "
                    "(beyond 255 all must refuse alike), E4 with several cases of one signature (the first answers) and E5 with short signatures at and "
                    "beyond the 32-level nesting limits (33 nested Vec / tuples: all must refuse alike), push_variant as an eighth encoding; "
                    "E6 (%d of the EN cases) has the same raw-slice arrays as case payloads (single, unnamed-multiple, named) in both byte orders; "
                    "EC (%d) = enum E1 of all three generators and params::Variant in element position of Vec, HashMap, tuples, Vec of tuples and a "
                    "derived struct, against the Param tree of the same variants: encodings identical, pass validate(), every reader reads every encoding; "
                    "EO (%d) = a variant of a type outside the enum's cases between other parameters, read by the three enums; CV (%d) = every "
                    "TryFrom<&Base>/as_*/into_* on one Base built by From<T> or From<&T>/&str; CF (%d) = constructors/conversions that must refuse. "
                    "The conversions are the identity on the model's abstract value, so C/R are compared with the model's Param API and CV/CF with "
                    "the predicate only. %d cases in all this run (counted; the design's 'about 5,000' for the quick tier was an estimate). Values are boundary-biased; "
                    "maps have at most one entry. non-trivial = everything except CF and HS cases whose other type is not a struct; distinct = distinct case lines"
                    % (nop.get("ST", 0), nslice, nop.get("HS", 0), nop.get("EN", 0), ne6, nop.get("EC", 0), nop.get("EO", 0), nop.get("CV", 0), nop.get("CF", 0), len(cases)))
        impl, model = run_cases(exe, drv, cases)
    finally:
        try:
            os.remove(drv)
        except OSError:
            pass
    for c, li, lm in zip(cases, impl, model):
        line = impl_line(c)
        nontrivial = not (c["op"] == "HS" and not erased(c["other"]).startswith("(")) and c["op"] != "CF"
        ctx.case(line, nontrivial=nontrivial,
                 sample={"case": line[:160], "impl": li[:200]} if (nontrivial and ctx.evaluations % 211 == 0) else None)
        ctx.count("op:" + c["op"])
        ctx.count("bo:" + c["bo"])
        if "prefix" in c:
            ctx.count("prefix%8=" + str(c["prefix"] % 8))
        if c["op"] in ("ST", "HS"):
            ctx.count("shape:" + c["shape"])
            if c["op"] == "ST" and c["shape"] in slices:
                for e in "ynqiuxtd":
                    if "a" + e in c["shape"]:
                        ctx.count("raw slice of %s, %s, %s" % (e, c["bo"], "non-empty" if ("a %s 0" % e) not in " ".join(c["toks"]) else "some empty"))
        elif c["op"] in ("EN", "EO"):
            ctx.count("set:" + c["set"])
        elif c["op"] == "EC":
            ctx.count("kind:" + c["kind"])
        why = predicate(c, li)
        agree = lm is None or agrees(c, li, lm)
        if why:
            ctx.disagreements_checked += 1
            ctx.violation(why, {"case": c, "line": line[:4000], "model_line": model_line(c)[:4000], "impl": li[:6000], "model": (lm or "")[:6000]})
        elif not agree:
            ctx.disagreements_checked += 1
            ctx.tie_broken("correspondence: c16 model and implementation differ although the property predicate holds on the implementation's output",
                           "%s\nimpl : %s\nmodel: %s" % (line[:3000], li[:3000], lm[:3000]))


def replay(ctx, body):
    d = body["data"]
    exe = vlib.harness_build(["c16"])["c16"]
    vlib.coq_make(["Wire/C16Ops.vo"])
    drv = private_driver()
    try:
        impl, model = run_cases(exe, drv, [d["case"]])
    finally:
        try:
            os.remove(drv)
        except OSError:
            pass
    print("case :", d["line"])
    print("impl :", impl[0])
    print("model:", model[0])
    why = predicate(d["case"], impl[0])
    print("REPRODUCED: " + why if why else "not reproduced")
    return 1 if why else 0
