"""C13 - serials are fresh, non-zero and increasing; replies are correlated to their call.

Proof: coq/Properties/C13.v (all histories of alloc_serial / send_message, all headers; unbounded).
Tie: histories of 1-200 operations run on a real connection (harness bin c13), the serial is read from the
returned value and from bytes 8..12 of each message at the peer; replies are built from headers that were
marshalled and decoded, then marshalled and decoded again. The extracted model (ocaml/c13) runs on the same
lines. Independently the property predicate is evaluated on the implementation's own output.
"""
import glob
import os

import vlib
import shutil

from checks.c10 import run_sharded, run_proc, parse_kv, private_scratch

U32 = 1 << 32


def hx(s):
    b = s.encode() if isinstance(s, str) else s
    return b.hex() if b else "-"


# ------------------------------------------------------------------ generators

def expand_resend(line):
    """r:<c|W> sends the message OBJECT of the last s / z / r operation again: for the model and for the predicate
    that is a send of the same message value (same byte order, same preset - the caller never changed it, same
    validity) through the API named in the op"""
    toks = line.split(" ")
    if toks[0] not in ("hist", "rhist") or not any(t.startswith("r:") for t in toks):
        return line
    out = [toks[0]]
    prev = None
    for t in toks[1:]:
        f = t.split(":")
        if f[0] == "r" and prev is not None:
            t = "s:%s:%s:%s:%s" % (prev[0], prev[1], prev[2], f[1])
        elif f[0] == "s":
            prev = (f[1], f[2], f[3])
        elif f[0] == "z":
            prev = (f[1], f[2], "g")
        out.append(t)
    return " ".join(out)


def drop_orphan_resends(ops):
    """a resend needs a message object made earlier in the history"""
    out, have = [], False
    for o in ops:
        if o[0] in "sz":
            have = True
        if o.startswith("r:") and not have:
            continue
        out.append(o)
    return out or ["a"]


def gen_hist(r, maxlen):
    n = r.choice([1, 2, 3, 5, 10, 20, 50, 100, 200]) if maxlen >= 200 else r.randrange(1, maxlen + 1)
    ops = []
    counter = 1
    resend = r.choice([0.0, 0.0, 0.1, 0.3])
    for _ in range(n):
        k = r.random()
        if ops and r.random() < resend:
            # the message object of the last s / z / r operation once more (the caller does not touch it in between)
            ops.append("r:%s" % r.choice("cW"))
            counter += 1
        elif k < 0.35:
            ops.append("a")
            counter += 1
        elif k < 0.70:
            ops.append("s:%s:-:g:%s" % (r.choice("lB"), r.choice("cW")))
            counter += 1
        elif k < 0.78 and n <= 50:
            preset = "-" if r.random() < 0.6 else str(r.choice([1, 7, U32 - 1, counter, counter + 2, r.randrange(1, U32)]))
            good = r.random() < 0.85
            kk = r.choice([0, 0, 1, 2, 5])
            ops.append("p:%s:%s:%s:%d" % (r.choice("lB"), preset, "g" if good else "b", kk))
            counter += kk + (1 if preset == "-" else 0)
        elif k < 0.84 and n <= 100:
            # a send that is not completed: refused at zero bytes and dropped / given up after a partial write / I/O error
            preset = "-" if r.random() < 0.6 else str(r.choice([1, 1, 7, U32 - 1, counter, max(1, counter - 1), r.randrange(1, U32)]))
            kind = r.choice(["z", "f", "f", "q"] if n <= 50 else ["z", "f", "f"])
            ops.append("%s:%s:%s" % (kind, r.choice("lB"), preset) + (":" + r.choice("cW") if kind == "f" else ""))
            if preset == "-":
                counter += 1
        elif k < 0.90:
            p = r.choice([1, 2, U32 - 1, U32 - 2, 0x80000000, 0x01020304, counter, counter + 1, max(1, counter - 1),
                          r.randrange(1, U32), r.randrange(1, 300)])
            ops.append("s:%s:%d:g:%s" % (r.choice("lB"), p, r.choice("cW")))
        else:
            preset = "-" if r.random() < 0.7 else str(r.randrange(1, U32))
            ops.append("s:%s:%s:b:%s" % (r.choice("lB"), preset, r.choice("cW")))
            if preset == "-":
                counter += 1
    if n >= 3 and r.random() < 0.1:
        # the peer goes away somewhere in the second half; afterwards only allocations, sends (which fail) and bad descriptors
        at = r.randrange(n // 2, n)
        tail = [o for o in ops[at:] if o == "a" or o.startswith("s:") or o.startswith("f:") or o.startswith("r:")]
        ops = ops[:at] + ["g"] + tail
    return "hist " + " ".join(drop_orphan_resends(ops))


def gen_boundary_hist(r):
    """histories that reach the end of the serial space and go on with sends"""
    left = r.choice([1, 2, 3, 5])
    ops = ["x%d" % (U32 - 2 - left)]
    for _ in range(left + r.choice([1, 2])):
        k = r.random()
        if k < 0.2:
            ops.append("a")
        elif k < 0.6:
            ops.append("s:%s:-:g:%s" % (r.choice("lB"), r.choice("cW")))
        elif k < 0.75:
            ops.append("s:%s:%d:g:%s" % (r.choice("lB"), r.choice([1, U32 - 1, U32 - 2]), r.choice("cW")))
        elif k < 0.9:
            ops.append("f:%s:-:%s" % (r.choice("lB"), r.choice("cW")))
        else:
            ops.append("z:%s:-" % r.choice("lB"))
    # operations the unchanged code never reaches (it panics when the serials are used up); code that goes on
    # instead shows here what it hands out
    ops += ["s:%s:-:g:c" % r.choice("lB"), "s:%s:-:g:%s" % (r.choice("lB"), r.choice("cW")), "a"]
    return "hist " + " ".join(ops)


def gen_rhist(r):
    n = r.choice([2, 5, 10, 30])
    ops = []
    for _ in range(n):
        k = r.random()
        if k < 0.3:
            ops.append("a")
        elif k < 0.55:
            # the same message object again: through RpcConn::send_message(&mut msg) (c) or through the SendConn under it (W)
            ops.append("r:%s" % r.choice("ccW"))
        else:
            ops.append("s:%s:%s:%s:%s" % (r.choice("lB"), "-" if k < 0.9 else str(r.randrange(1, U32)), "g" if r.random() < 0.9 else "b", r.choice("cccW")))
    return "rhist " + " ".join(drop_orphan_resends(ops))


ELEMS = ["a", "Ab", "x_1", "org", "example", "Iface9", "_u", "Z" * 20]


def gen_busname(r):
    if r.random() < 0.5:
        return ":%d.%d" % (r.randrange(1, 100), r.randrange(0, 100000))
    return ".".join(r.choice(ELEMS) for _ in range(r.choice([2, 3, 5])))


def gen_iface(r):
    return ".".join(r.choice(ELEMS) for _ in range(r.choice([2, 3, 6])))


def gen_path(r):
    if r.random() < 0.15:
        return "/"
    return "".join("/" + r.choice(ELEMS) for _ in range(r.choice([1, 2, 4])))


def gen_reply(r):
    kind = r.choice(["resp", "err", "unk", "inv", "resp", "err", "unk", "inv", "rawunk", "rawinv"])
    raw = kind.startswith("raw")
    serial = str(r.choice([1, 2, 77, U32 - 1, 0x80000000, 0x01020304, r.randrange(1, U32)]))
    if raw and r.random() < 0.4:
        serial = "-"
    none_or = lambda f, p: f(r) if r.random() < p else None
    sender = none_or(gen_busname, 0.7)
    dest = none_or(gen_busname, 0.5)
    iface = none_or(gen_iface, 0.6)
    member = r.choice(ELEMS)
    obj = gen_path(r)
    if raw:
        if r.random() < 0.3:
            member = None
        if r.random() < 0.3:
            obj = None
        k = r.random()
        if k < 0.25:
            member = (member or "M") + "\x00" + "x"
        elif k < 0.35:
            iface = "a.b\x00"
        elif k < 0.45:
            obj = "/o\x00"
        elif k < 0.55:
            sender = "not a bus name"          # hand-built: anything goes, the reply cannot be marshalled
    sig = r.choice([None, None, "u", "a{sv}", "(ii)s"]) if kind in ("inv", "rawinv") else None
    if kind == "rawinv" and r.random() < 0.15:
        sig = "u\x00"
    name = ".".join(r.choice(ELEMS) for _ in range(r.choice([2, 3])))
    text = r.choice([None, "", "failed", "something went wrong: é€", "x" * 300])
    o = lambda s: "none" if s is None else hx(s)
    return ("reply %s serial=%s sender=%s iface=%s member=%s object=%s dest=%s sig=%s name=%s text=%s bo=%s rserial=%d rbo=%s" % (
        kind, serial, o(sender), o(iface), o(member), o(obj), o(dest), o(sig), hx(name), o(text), r.choice("lB"),
        r.choice([1, 9, U32 - 1, r.randrange(1, U32)]), r.choice("lBn")))


# ------------------------------------------------------------------ property predicate on the implementation's output

def hist_predicate(line, out):
    """the property on the implementation's own output. None: the kernel did not allow the partial / refused
    write this history needs. The serials the connection hands out (alloc_serial, ctx.serial() / returned serial of
    every message without a preset, completed or not) must be non-zero, < 2^32 and strictly increasing; a preset
    serial is used as it is; reported == on the wire; a panic only when the serials are used up."""
    ops = expand_resend(line).split(" ")[1:]
    toks = out.split(" ")
    if "NOPARTIAL" in toks or "NOZERO" in toks:
        return None
    bad = []
    # the caller's message after the call: the library takes &MarshalledMessage (or &mut in RpcConn::send_message) and
    # must leave the preset serial (or its absence) as the caller made it; otherwise the next send of the same object
    # is not a send 'without a preset serial' any more
    written = []
    for i, t in enumerate(toks):
        parts = t.split(":")
        m = [x for x in parts if x.startswith("mut")]
        if m:
            pre = ops[i].split(":")[2] if i < len(ops) and ops[i].count(":") >= 2 else "?"
            written.append("%s -> %s (operation %d)" % (pre, m[0][3:], i + 1))
            toks[i] = ":".join(x for x in parts if not x.startswith("mut"))
    if written:
        bad.append("the send wrote to the caller's message: dynheader.serial before -> after the call: " + ", ".join(written[:4])
                   + (" and %d more" % (len(written) - 4) if len(written) > 4 else ""))
    st = {"last": 0, "hidden": 0}

    def fresh(ser, what):
        if not (0 < ser < U32) or ser <= st["last"]:
            bad.append("%s %d after %d (must be non-zero, < 2^32 and greater than every serial handed out before)" % (what, ser, st["last"]))
        st["last"] = max(st["last"], ser)

    def chosen(f, ser, what):
        """serial of a message: preset or fresh; ser None when the API does not show it"""
        if f[2] != "-":
            if ser is not None and ser != int(f[2]):
                bad.append("preset serial %s was used as %d (%s)" % (f[2], ser, what))
        elif ser is None:
            st["hidden"] += 1
        else:
            fresh(ser, what)

    closed = False
    for i, o in enumerate(ops):
        if i >= len(toks):
            bad.append("%d results for %d operations" % (len(toks), len(ops)))
            break
        t = toks[i]
        f = o.split(":")
        if t == "PANIC":
            takes = o == "a" or o.startswith("x") or (f[0] in "spzqf" and f[2] == "-")
            if not (takes and st["last"] + st["hidden"] >= U32 - 2) and not o.startswith("x"):
                bad.append("alloc_serial/send_message panicked although serials are left (last handed out: %d)" % st["last"])
            if o.startswith("x") and st["last"] + st["hidden"] + int(o[1:]) < U32 - 1:
                bad.append("alloc_serial panicked although serials are left")
            break
        if o == "g":
            closed = True
            continue
        if o == "a":
            if not t.startswith("a:"):
                bad.append("alloc_serial gave %s" % t)
                continue
            fresh(int(t[2:]), "alloc_serial returned")
        elif o.startswith("x"):
            if not t.startswith("x:"):
                bad.append("alloc_serial gave %s" % t)
                continue
            ser = int(t[2:])
            if ser - st["last"] < int(o[1:]):
                bad.append("%s allocations after serial %d ended at %d" % (o[1:], st["last"], ser))
            fresh(ser, "alloc_serial returned")
        elif f[0] in ("s", "p") and f[3] == "b":
            if t != "e" and not (f[0] == "p" and t.startswith("e:")):
                bad.append("a message with an invalid member name was sent: %s" % t)
                continue
            if f[2] == "-":
                st["hidden"] += 1
            for x in (t[2:].split("+") if t.startswith("e:") else []):
                fresh(int(x), "alloc_serial returned")
        elif f[0] == "s" and closed:
            if not t.startswith("io:"):
                bad.append("a send to a closed peer gave %s" % t)
                continue
            chosen(f, None if t == "io:-" else int(t[3:]), "ctx.serial() of a send that failed with EPIPE")
        elif f[0] in ("s", "p"):
            resumed = f[0] == "p"
            parts = t.split(":")
            if parts[0] != f[0]:
                bad.append("sending a valid message failed (%s)" % t)
                continue
            if resumed and (len(parts) < 5 or not parts[2].isdigit()):
                bad.append("the resumed send did not deliver the whole message (%s)" % t)
                continue
            between = []
            if resumed:
                between = [int(x) for x in parts[4].split("+")] if parts[4] != "-" else []
                if len(between) != int(f[4]):
                    bad.append("%d allocations asked, %d made" % (int(f[4]), len(between)))
                parts = parts[:4] + parts[5:]
            if len(parts) > 4:
                bad.append("SendMessageContext::serial() is %s but write()/write_all returned %s" % (parts[4][3:], parts[1]))
            rep, wire, flag = int(parts[1]), int(parts[2]), parts[3]
            if rep != wire:
                bad.append("reported serial %d but the header on the wire carries %d" % (rep, wire))
            if flag != f[1]:
                bad.append("byte order flag %s for a %s message" % (flag, f[1]))
            chosen(f, rep, "serial of a sent message")
            for x in between:
                fresh(x, "alloc_serial (while a send was suspended) returned")
        elif f[0] in ("z", "q", "f"):
            parts = t.split(":")
            if parts[0] != f[0] or len(parts) < 2 or any(x.startswith("leak") or x.startswith("sent") or x == "droppanic" for x in parts):
                bad.append({"z": "a send refused at zero bytes and dropped", "q": "a send given up after a partial write",
                            "f": "a send with a closed descriptor"}[f[0]] + " gave %s" % t)
                continue
            ser = None if parts[1] == "-" else int(parts[1])
            chosen(f, ser, "ctx.serial() of a send that was not completed")
            if f[0] == "q" and len(parts) >= 4:
                if int(parts[2]) != ser:
                    bad.append("ctx.serial() %s but the (partial) header on the wire carries %s" % (parts[1], parts[2]))
                if parts[3] != f[1]:
                    bad.append("byte order flag %s for a %s message" % (parts[3], f[1]))
        else:
            bad.append("unknown operation %s" % o)
    return bad


def hello_predicate(line, out):
    kv = parse_kv(line)
    want = "hello serial=%d result=%s" % (int(kv["pre"]) + 1, "ok" if kv["reply"] == "same" else "err")
    return [] if out == want else ["send_hello after %s allocations with a reply carrying %s reply serial: %s (expected %s)" % (kv["pre"], kv["reply"], out, want)]


def reply_predicate(line, out):
    toks = line.split(" ")
    kind = toks[1]
    kv = parse_kv(" ".join(toks[2:]))
    if out in ("CALLMERR", "CALLDERR"):
        return None if kind.startswith("raw") else ["a valid call header could not be marshalled/decoded (%s)" % out]
    if out.startswith("PANIC"):
        # legitimate only for hand-built headers with a NUL byte in the formatted text
        nul = any("00" in [kv[k][i:i + 2] for i in range(0, len(kv[k]), 2)] for k in ("iface", "member", "object", "sig") if kv[k] not in ("none", "-"))
        if kind.startswith("raw") and nul:
            return []
        return ["a reply constructor panicked on a header without NUL bytes"]
    first, _, second = out.partition(" ; ")
    a = parse_colon(first)
    bad = []
    if a["RS"] != kv["serial"]:
        bad.append("reply_serial %s for a call with serial %s" % (a["RS"], kv["serial"]))
    if a["D"] != kv["sender"]:
        bad.append("destination %s for a call from %s" % (a["D"], kv["sender"]))
    want_t = "2" if kind == "resp" else "3"
    if a["T"] != want_t:
        bad.append("message type %s" % a["T"])
    if a["OWN"] != "-":
        bad.append("the reply carries a preset serial %s" % a["OWN"])
    if second.startswith("dT"):
        d = parse_colon(second)
        if d["dRS"] != kv["serial"] or d["dD"] != kv["sender"] or d["dT"] != want_t:
            bad.append("after marshal+decode: reply_serial %s destination %s type %s" % (d["dRS"], d["dD"], d["dT"]))
        if d["dS"] != kv["rserial"]:
            bad.append("the reply was marshalled with serial %s, decoded %s" % (kv["rserial"], d["dS"]))
    elif not kind.startswith("raw"):
        bad.append("the reply to a decoded call could not be marshalled/decoded (%s)" % second)
    return bad


def parse_colon(s):
    d = {}
    for t in s.split(" "):
        if ":" in t:
            k, v = t.split(":", 1)
            d[k] = v
    return d


def strip_api(line):
    """the line as the model driver reads it: no API choice, no peer; after the peer is gone (g) every
    send that marshals is a send that fails with an I/O error (f)"""
    toks = expand_resend(line).split(" ")
    if toks[0] not in ("hist", "rhist"):
        return line
    out = ["hist"]
    closed = False
    for t in toks[1:]:
        f = t.split(":")
        if t == "g":
            closed = True
        elif f[0] == "s" and closed and f[3] == "g":
            out.append("f:%s:%s" % (f[1], f[2]))
        elif f[0] == "s":
            out.append(":".join(f[:4]))
        elif f[0] == "f":
            out.append(":".join(f[:3]))
        else:
            out.append(t)
    return " ".join(out)


def normalise_impl(out):
    """the implementation's tokens in the model's vocabulary"""
    res = []
    for t in out.split(" "):
        if t == "g":
            continue
        t = ":".join(x for x in t.split(":") if not x.startswith("mut"))
        res.append("f:" + t[3:] if t.startswith("io:") else t)
    return res


def same_as_model(out, model_obs):
    a, b = normalise_impl(out), model_obs.split(" ")
    if len(a) != len(b):
        return False
    for x, y in zip(a, b):
        if x == "f:-" and y.startswith("f:"):
            continue                      # send_message_write_all does not show the serial of a failed send
        if x != y:
            return False
    return True


def coq_crosscheck(ctx, lines, impl):
    """a few short histories evaluated by coqc itself (vm_compute run_ops) and compared with what the
    implementation did: guards the extraction and the OCaml driver"""
    import re
    cand = [(l, o) for l, (o, _) in zip([expand_resend(x) for x in lines], impl)
            if l.startswith("hist ") and o and "PANIC" not in o and "NOPARTIAL" not in o and 3 <= len(l.split(" ")) <= 14
            and all(t == "a" or t[0] in "sp" for t in l.split(" ")[1:]) and ":mut" not in o]
    resent = set(expand_resend(x) for x in lines if " r:" in x)
    picked = ([c for c in cand if " p:" in c[0]][:5] + [c for c in cand if " p:" not in c[0] and c[0] not in resent][:5]
              + [c for c in cand if c[0] in resent][:4])
    if not picked:
        return
    terms = []
    for l, _ in picked:
        ops = []
        for o in l.split(" ")[1:]:
            if o == "a":
                ops.append("OpAlloc")
            elif o.startswith("p:"):
                f = o.split(":")
                ops.append("OpSendResumed (mk %s %s %s) %s" % ("BE" if f[1] == "B" else "LE", "None" if f[2] == "-" else "(Some %s)" % f[2],
                                                              "255" if f[3] == "b" else "0", f[4]))
            else:
                f = o.split(":")
                ops.append("OpSend (mk %s %s %s)" % ("BE" if f[1] == "B" else "LE", "None" if f[2] == "-" else "(Some %s)" % f[2],
                                                    "255" if f[3] == "b" else "0"))
        terms.append("Eval vm_compute in (match run_ops flds [%s] conn_init with Ok (_, evs) => Some (flat_map obs evs) | _ => None end)." % "; ".join(ops))
    v = ("From RB Require Import Base.Prelude Conn.Serial Conn.SerialProofs.\n"
         "Definition mk (bo : endian) (p : option N) (flags : N) : message := {| msg_typ := MCall; msg_flags := flags; msg_dyn := {| dh_interface := None; dh_member := None; dh_object := None; dh_destination := None; dh_serial := p; dh_sender := None; dh_signature := None; dh_error_name := None; dh_response_serial := None; dh_num_fds := None |}; msg_bo := bo; msg_body := []; msg_raw_fds := [] |}.\n"
         "Definition flds (m : message) : option (list N) := if msg_flags m =? 255 then None else Some [].\n"
         "Definition ws (hb : list N) : N := match wire_serial hb with Some s => s | None => 0 end.\n"
         "Definition al (b : list N) : list (N * N * N) := map (fun s => (0, s, 0)) b.\n"
         "Definition obs (e : event) : list (N * N * N) := match e with EvAlloc s => [(0, s, 0)] | EvSent _ r hb => [(1, r, ws hb)] | EvSendErr _ b => (2, 0, 0) :: al b | EvSentResumed _ b r hb => (3, r, ws hb) :: al b | EvAbandoned _ r hb => [(4, r, ws hb)] end.\n"
         + "\n".join(terms) + "\n")
    out = vlib.coq_eval("c13_cross", v)
    blocks = re.split(r"^\s*= ", out, flags=re.M)[1:]
    if len(blocks) != len(picked):
        ctx.tie_broken("in-Coq evaluation printed %d results for %d terms" % (len(blocks), len(picked)), out[-1500:])
        return
    for blk, (l, o) in zip(blocks, picked):
        got = [tuple(int(x) for x in t) for t in re.findall(r"\(\s*(\d+),\s*(\d+),\s*(\d+)\s*\)", blk)]
        want = []
        for t in o.split(" "):
            f = t.split(":")
            if f[0] == "a":
                want.append((0, int(f[1]), 0))
            elif f[0] == "e":
                want.append((2, 0, 0))
                want += [(0, int(x), 0) for x in (f[1].split("+") if len(f) > 1 else [])]
            elif f[0] == "p":
                want.append((3, int(f[1]), int(f[2])))
                want += [(0, int(x), 0) for x in (f[4].split("+") if f[4] != "-" else [])]
            else:
                want.append((1, int(f[1]), int(f[2])))
        ctx.count("in_coq_vm_compute_cases")
        if got != want:
            ctx.disagreements_checked += 1
            ctx.tie_broken("correspondence: Coq's own evaluation of the model (vm_compute run_ops) differs from the implementation",
                           "line: %s\nimpl: %s\ncoq: %s" % (l[:300], o[:300], " ".join(blk.split())[:400]))


def run(ctx):
    thorough = ctx.tier == "thorough"
    ctx.rule = ("histories = 1-200 operations on one real connection drawn from alloc_serial, send_message+write_all / "
                "send_message_write_all of a fresh-serial message, of a message with a preset serial (boundary values, values "
                "colliding with the counter), and of a message that fails to marshal (it burns a serial), and of a 200 kB message that is suspended after "
                "a real partial write (into_progress), sees 0-5 alloc_serial calls, is resumed (resume) and written to the end, the "
                "serial returned by write() and by the resumed context compared with bytes 8..12 the peer read; little/big endian. "
                "Sends that are NOT completed keep their serial: refused at zero bytes on a socket the harness filled, context "
                "dropped (z); force_finish after a real partial write (q); a closed attached descriptor -> EBADF through "
                "write_all + force_finish_on_error or send_message_write_all (f); the peer shut down -> EPIPE for every "
                "later send (g); each followed by further sends/allocations. The same message OBJECT sent again (r: the harness "
                "keeps the MarshalledMessage of the last s / z / r operation and passes it to send_message+write_all, "
                "send_message_write_all or RpcConn::send_message(&mut msg) once more, up to dozens of times, with allocations "
                "and other sends in between; for the model that is OpSend of the same message value) and, after every send, "
                "the caller's msg.dynheader.serial compared with what the caller put there. Histories through RpcConn::alloc_serial / "
                "RpcConn::send_message with resends through RpcConn and through the SendConn under it (rhist); DuplexConn::send_hello after 0-40 allocations against a peer whose reply "
                "carries the Hello's serial, another one, or none (hello). Histories that start 1-5 serials before the end of "
                "the serial space (x<n> = n alloc_serial calls, about 6 s each; the model driver fast-forwards with alloc_many, "
                "theorem C13_alloc_many) and go on with sends up to and beyond the 'run out of serials' panic. "
                "Plus one history that exhausts the 2^32-2 serials by alloc_serial alone. replies = make_response / make_error_response / "
                "unknown_method / invalid_args on headers that were marshalled and decoded (random serial, sender, "
                "destination, interface present or absent) and on hand-built headers (no serial, NUL bytes, invalid names); "
                "each reply is marshalled and decoded again. A history is non-trivial when it mixes at least two kinds of "
                "operation; a reply case when the call has a sender or is hand-built")
    ctx.trusted = ["Coq 8.16.1 kernel (coqc), no native_compute", "extraction with ExtrOcamlBasic only, ocamlfind ocamlopt 4.13.1",
                   "ocaml/c13/driver.ml and harness/src/bin/c13.rs (I/O wrappers)",
                   "the reading of the D-Bus header layout in Conn/SerialProofs.v wire_serial (byte 0 endianness, bytes 8..12 serial)"]
    ctx.assumptions = ["one connection is used from one thread (alloc_serial takes &mut self)",
                       "preset serials are NonZeroU32 values; they are not tracked by the counter, so a preset serial may equal a fresh one (the statement only orders the serials the connection itself hands out)",
                       "the header field array is produced by wire::marshal (C05); the model takes it as a parameter",
                       "MarshalledMessageBody::new() uses the native byte order (little endian on the checked platform)"]
    ctx.try_proof()
    exe = vlib.harness_build(["c13"])["c13"]
    vlib.coq_make(["Conn/SerialProofs.vo"])
    drv = vlib.ocaml_build("c13")

    lines = []
    for f in sorted(glob.glob(os.path.join(vlib.VERIF, "corpus", "C13", "*.case"))):
        for line in open(f):
            line = line.strip()
            if line and not line.startswith("#"):
                lines.append(line)
    ctx.count("corpus", len(lines))
    r = ctx.sub_rng("gen")
    for _ in range(5000 if thorough else 600):
        lines.append(gen_hist(r, 200))
    for _ in range(20000 if thorough else 2500):
        lines.append(gen_reply(r))
    r2 = ctx.sub_rng("gen2")
    for _ in range(400 if thorough else 60):
        lines.append(gen_rhist(r2))
    for pre in ([0, 1, 2, 5, 40] if not thorough else range(0, 60)):
        for mode in ("same", "other", "none"):
            lines.append("hello pre=%d reply=%s" % (pre, mode))
    for _ in range(12 if thorough else 4):          # about 6 s of alloc_serial calls each, run in parallel
        lines.append(gen_boundary_hist(r2))
    lines = list(dict.fromkeys(lines))
    # the end of the serial space (about 6 s of alloc_serial calls): the last serial is 2^32-2, the next call panics
    exhaust = "hist x%d a a" % (U32 - 3)
    all_lines = lines + [exhaust]
    tmp = private_scratch()
    try:
        impl = run_sharded(exe, all_lines, timeout=1200 if thorough else 300)
    finally:
        shutil.rmtree(tmp, ignore_errors=True)
    model = run_sharded(drv, [strip_api(l) for l in lines], timeout=1200 if thorough else 300)

    coq_crosscheck(ctx, lines, impl)

    # exhaustion: predicted by theorem C13_history_outcome (nallocs < 2^32-1 <-> no panic) and Conn/SerialExamples.v ex_last_serial
    out, err = impl[-1]
    if out is None:
        ctx.tie_broken("harness c13 failed on the serial exhaustion history", err)
    else:
        ctx.case(exhaust, nontrivial=True, sample={"input": exhaust, "impl": out})
        ctx.count("hist:exhaustion")
        want = "x:%d a:%d PANIC" % (U32 - 3, U32 - 2)
        if out != want:
            ctx.disagreements_checked += 1
            toks = out.split(" ")
            serials = [int(t.split(":")[1]) for t in toks if ":" in t]
            if any(not (0 < s < U32) for s in serials) or serials != sorted(set(serials)) or "PANIC" not in toks[-1:]:
                ctx.violation("at the end of the serial space the connection hands out a zero, repeated or decreasing serial instead of panicking",
                              {"line": exhaust, "impl": out, "expected": want})
            else:
                ctx.tie_broken("correspondence: serial exhaustion differs from the model (%s)" % want, out)

    for line, (out, err), (mo, merr) in zip(lines, impl[:-1], model):
        is_hist = line.startswith("hist") or line.startswith("rhist")
        if out is None:
            ctx.tie_broken("harness c13 crashed or hung", "%s\n%s" % (line[:300], err))
            continue
        if mo is None:
            ctx.tie_broken("extracted model driver c13 crashed", "%s\n%s" % (line[:300], merr))
            continue
        if line.startswith("hello"):
            ctx.case(line, nontrivial=True, sample={"input": line, "impl": out} if "pre=5" in line else None)
            ctx.count("hello:" + parse_kv(line)["reply"])
            viol = hello_predicate(line, out)
            differs = out != mo
        elif is_hist:
            nresend = sum(1 for o in line.split(" ")[1:] if o.startswith("r:"))
            ops = expand_resend(line).split(" ")[1:]
            ctx.count("ops:same_message_object_sent_again", nresend)
            kinds = {("R",)} if nresend else set()
            kinds |= {("a" if o == "a" else o[0] if o[0] in "xgzqf" else "r" if o.startswith("p:") else "b" if ":b:" in o else "p" if o.split(":")[2] != "-" else "s") for o in ops}
            ctx.case(line, nontrivial=len(kinds) >= 2,
                     sample={"input": line[:150], "impl": out[:150]} if len(ops) in (5, 10) else None)
            ctx.count("hist:len<=10" if len(ops) <= 10 else "hist:len<=50" if len(ops) <= 50 else "hist:len<=200")
            ctx.count("ops:alloc", sum(1 for o in ops if o == "a"))
            ctx.count("ops:send_fresh", sum(1 for o in ops if o.startswith("s:") and o.split(":")[2] == "-" and ":g:" in o))
            ctx.count("ops:send_preset", sum(1 for o in ops if o.startswith("s:") and o.split(":")[2] != "-" and ":g:" in o))
            ctx.count("ops:send_marshal_error", sum(1 for o in ops if ":b:" in o))
            ctx.count("ops:send_suspended_and_resumed", sum(1 for o in ops if o.startswith("p:") and ":g:" in o))
            ctx.count("ops:alloc_while_suspended", sum(int(o.split(":")[4]) for o in ops if o.startswith("p:")))
            ctx.count("ops:send_dropped_at_zero_bytes(full socket)", sum(1 for o in ops if o.startswith("z:")))
            ctx.count("ops:send_force_finished_after_partial_write", sum(1 for o in ops if o.startswith("q:")))
            ctx.count("ops:send_io_error_EBADF", sum(1 for o in ops if o.startswith("f:")))
            ctx.count("ops:send_io_error_EPIPE", sum(1 for t in out.split(" ") if t.startswith("io:")))
            if line.startswith("rhist"):
                ctx.count("hist:through_RpcConn")
            if ops and ops[0].startswith("x"):
                ctx.count("hist:near_2^32")
            viol = hist_predicate(line, out)
            if viol is None:
                ctx.count("hist:no_partial_write_possible")
                continue
            model_obs = mo.split(" issued=")[0]
            differs = not same_as_model(out, model_obs)
        else:
            kind = line.split(" ")[1]
            kv = parse_kv(line)
            ctx.case(line, nontrivial=(kv["sender"] != "none" or kind.startswith("raw")),
                     sample={"input": line[:200], "impl": out[:200]} if kind in ("unk", "rawinv") else None)
            ctx.count("reply:" + kind)
            ctx.count("reply:sender_present" if kv["sender"] != "none" else "reply:sender_absent")
            if out.startswith("PANIC"):
                ctx.count("reply:panic(NUL in hand-built header)")
            viol = reply_predicate(line, out)
            if viol is None:
                ctx.count("reply:hand-built call not marshallable")
                continue
            differs = out.partition(" ; ")[0].split(" ")[0:5] != mo.split(" ")[0:5] if not out.startswith("PANIC") else not mo.startswith("PANIC")
        if viol:
            ctx.violation("; ".join(viol[:3]), {"line": line, "impl": out, "model": mo})
        elif differs:
            ctx.disagreements_checked += 1
            ctx.tie_broken("correspondence: implementation and model differ although the property predicate holds",
                           "line: %s\nimpl: %s\nmodel: %s" % (line[:400], out[:400], mo[:400]))
    ctx.exhaustive = False


def replay(ctx, body):
    data = body["data"]
    exe = vlib.harness_build(["c13"])["c13"]
    line = data["line"]
    tmp = private_scratch()
    try:
        rc, out, err = run_proc(exe, [line], 600)
    finally:
        shutil.rmtree(tmp, ignore_errors=True)
    if not out:
        print("harness failed:", err[-500:])
        return 2
    print("line:", line[:600])
    print("impl:", out[0][:600])
    if line.startswith("hist x") and "expected" in data:
        ok = out[0] == data.get("expected")
        print("expected:", data.get("expected"))
        print("not reproduced" if ok else "REPRODUCED: serial exhaustion does not end in a panic after 2^32-2")
        return 0 if ok else 1
    viol = (hist_predicate(line, out[0]) if line.split(" ")[0] in ("hist", "rhist") else
            hello_predicate(line, out[0]) if line.startswith("hello") else reply_predicate(line, out[0]))
    if viol:
        print("REPRODUCED:", "; ".join(viol[:5]))
        return 1
    print("not reproduced (the property predicate holds on the implementation's output)")
    return 0
