"""C06 - header decoding accepts exactly valid headers and skips unknown fields.

Proof: coq/Properties/C06.v (decode model accepts <-> ValidHeader, unknown fields skipped, frame
length, totality; unbounded).
Tie: headers are ENCODED BY THE SPECIFICATION (extracted spec_enc of the a(yv) value, ocaml/c05 op
`e`): known fields in random order, both byte orders, unknown fields (codes 10..255) with variants
of generated signatures inserted at every position, all 256 flag bytes; then every single-fault
corruption and random bytes.  The same bytes go to the real decoder (harness bin c05:
unmarshal_header + unmarshal_dynamic_header + unmarshal_next_message, and
RecvConn::bytes_needed_for_current_message on a fresh connection whose peer end received the
bytes) and to the extracted decoder model.  The model is proved to accept exactly the
specification's valid headers, so an accept/reject or decoded-field difference is a concrete
violation with the byte string as witness; for spec-generated headers the expected verdict and
fields are additionally known from the generator itself.
"""
import glob
import os
import struct

import vlib
from checks.c05 import (run_proc, run_sharded, hx, ohx, parse_decoded, gen_valid_names, builds, drifted, coq_crosscheck, SERIALS, U32, LENS,
                        BAD_IFACE, BAD_MEMBER, BAD_BUS, BAD_PATH, path_of_len)

BASICS = "ybnqiuxtdhsog"


# ------------------------------------------------------------------ types and values (token syntax of ocaml/c05/driver.ml)

def gen_type(r, depth):
    k = r.random()
    if depth <= 0 or k < 0.40:
        return r.choice(BASICS)
    if k < 0.50:
        return "v"
    if k < 0.70:
        return ("a", gen_type(r, depth - 1))
    if k < 0.82:
        return ("e", r.choice("ysuxo"), gen_type(r, depth - 1))
    return ("r", [gen_type(r, depth - 1) for _ in range(r.choice([1, 2, 2, 3]))])


def sig_of(t):
    if isinstance(t, str):
        return t
    if t[0] == "a":
        return "a" + sig_of(t[1])
    if t[0] == "e":
        return "a{" + t[1] + sig_of(t[2]) + "}"
    return "(" + "".join(sig_of(x) for x in t[1]) + ")"


STRS = ["", "a", "hello", "héllo €", "x" * 7, "y" * 8, "z" * 9]
SIGS = ["", "u", "a{sv}", "(ii)s", "aay", "v"]
BITS = {"y": 8, "n": 16, "q": 16, "i": 32, "u": 32, "h": 32, "x": 64, "t": 64, "d": 64}


def gen_val(r, t, depth=2, bad=None):
    """tokens of a value of type t; `bad` (a one-element list) asks for one invalid leaf somewhere"""
    if isinstance(t, str):
        want_bad = bad is not None and bad and r.random() < 0.5
        if t == "b":
            if want_bad:
                bad.pop()
                return ["b", str(r.choice([2, 255, U32 - 1]))]
            return ["b", str(r.randrange(2))]
        if t == "s":
            if want_bad:
                bad.pop()
                return ["s", r.choice([b"a\x00b", b"\xff", b"\xc3", b"\xed\xa0\x80"]).hex()]
            return ["s", hx(r.choice(STRS))]
        if t == "o":
            if want_bad:
                bad.pop()
                return ["o", hx(r.choice(BAD_PATH[1:]))]
            return ["o", hx(path_of_len(r, r.choice([1, 2, 5, 9, 17])))]
        if t == "g":
            if want_bad:
                bad.pop()
                return ["g", hx(r.choice(["(", "a", "a{vs}", "z", "()"]))]
            return ["g", hx(r.choice(SIGS))]
        if t == "v":
            inner = gen_type(r, depth - 1)
            return ["v", sig_of(inner)] + gen_val(r, inner, depth - 1, bad)
        bits = BITS[t]
        return [t, str(r.choice([0, 1, (1 << bits) - 1, r.randrange(1 << bits)]))]
    if t[0] == "a":
        n = r.choice([0, 0, 1, 2, 3])
        out = ["a", sig_of(t[1]), str(n)]
        for _ in range(n):
            out += gen_val(r, t[1], depth - 1, bad)
        return out
    if t[0] == "e":
        n = r.choice([0, 1, 2])
        out = ["e", t[1], sig_of(t[2]), str(n)]
        for _ in range(n):
            out += gen_val(r, t[1], depth - 1, None)
            out += gen_val(r, t[2], depth - 1, bad)
        return out
    out = ["r", str(len(t[1]))]
    for x in t[1]:
        out += gen_val(r, x, depth - 1, bad)
    return out


def variant_chain(k, leaf=("y", "5")):
    """the value tokens of k nested variants around a byte"""
    toks = list(leaf)
    sig = leaf[0]
    for _ in range(k):
        toks = ["v", sig] + toks
        sig = "v"
    return sig, toks


# level patterns (v variant, d dict a{y..}, a array, s struct), cycled outermost first: every kind of container below an unknown
# field's variant, dict levels alone with variants, dicts of arrays, dicts in structs, runs of one kind between two variants
CHAIN_PATTERNS = ["v", "vd", "dv", "vda", "vsd", "vdd", "vads", "v" + "d" * 15, "v" + "a" * 7 + "d" * 7 + "s" * 7, "vdvs", "va", "vs"]


def level_chain(pattern, k, leaf=("y", "5")):
    """the signature and value tokens of k single-child containers in each other around a byte (dict keys are bytes)"""
    toks = list(leaf)
    sig = leaf[0]
    for i in reversed(range(k)):
        c = pattern[i % len(pattern)]
        if c == "v":
            toks, sig = ["v", sig] + toks, "v"
        elif c == "a":
            toks, sig = ["a", sig, "1"] + toks, "a" + sig
        elif c == "s":
            toks, sig = ["r", "1"] + toks, "(" + sig + ")"
        else:
            toks, sig = ["e", "y", sig, "1", "y", "3"] + toks, "a{y" + sig + "}"
    return sig, toks


# ------------------------------------------------------------------ headers

class Field:
    __slots__ = ("code", "sig", "toks", "known_val")

    def __init__(self, code, sig, toks, known_val=None):
        self.code, self.sig, self.toks, self.known_val = code, sig, toks, known_val

    def tokens(self):
        return [str(self.code), "v", self.sig] + self.toks


def known_field(code, value):
    """value: str for the name fields, int for 5 and 9"""
    if code == 1:
        return Field(1, "o", ["o", hx(value)], value)
    if code in (2, 3, 4, 6, 7):
        return Field(code, "s", ["s", hx(value)], value)
    if code == 8:
        return Field(8, "g", ["g", hx(value)], value)
    return Field(code, "u", ["u", str(value)], value)


def unknown_field(r, depth=3, bad=None):
    t = gen_type(r, depth)
    code = r.choice([10, 11, 42, 127, 128, 200, 254, 255, r.randrange(10, 256)])
    return Field(code, sig_of(t), gen_val(r, t, depth, bad))


class Hdr:
    """a header described at the level of the specification"""

    def __init__(self, be, typ, flags, blen, serial, fields):
        self.be, self.typ, self.flags, self.blen, self.serial, self.fields = be, typ, flags, blen, serial, fields

    def e_line(self, nfields=None):
        fs = self.fields if nfields is None else self.fields[:nfields]
        toks = ["e", "B" if self.be else "l", str(self.typ), str(self.flags), str(self.blen), str(self.serial), str(len(fs))]
        for f in fs:
            toks += f.tokens()
        return " ".join(toks)

    def expected(self):
        """the decoded fields the property demands for a valid header"""
        d = {"be": "1" if self.be else "0", "t": str(self.typ), "f": str(self.flags), "bl": str(self.blen), "ser": str(self.serial),
             "dser": str(self.serial), "rs": "-", "i": "-", "d": "-", "sn": "-", "m": "-", "p": "-", "e": "-", "g": "-", "fd": "-"}
        key = {1: "p", 2: "i", 3: "m", 4: "e", 5: "rs", 6: "d", 7: "sn", 8: "g", 9: "fd"}
        for f in self.fields:
            if f.code in key:
                v = f.known_val
                d[key[f.code]] = str(v) if isinstance(v, int) else ohx(v)
        return d


def gen_header(r, idx):
    be = bool(idx & 1)
    flags = (idx // 2) % 256
    typ = r.choice([1, 2, 3, 4])
    v = gen_valid_names(r)
    fields = []
    need = {1: [1, 3], 2: [5], 3: [4, 5], 4: [1, 2, 3]}[typ]
    vals = {1: v["path"], 2: v["iface"], 3: v["member"], 4: v["err"], 5: r.choice(SERIALS), 6: v["dest"], 7: v["sender"],
            8: r.choice(SIGS), 9: r.choice([0, 1, 2, 7, U32 - 1])}
    for c in range(1, 10):
        if c in need or r.random() < 0.4:
            fields.append(known_field(c, vals[c]))
    r.shuffle(fields)
    blen = r.choice([0, 0, 1, 7, 8, 24, 100])
    return Hdr(be, typ, flags, blen, r.choice(SERIALS + [r.randrange(1, U32)]), fields)


def pad8(n):
    return (-n) % 8


def message_bytes(E, blen, r):
    """header up to the field array ++ zero padding ++ body"""
    return E + bytes(pad8(len(E))) + bytes(r.randrange(256) for _ in range(blen))


# ------------------------------------------------------------------ the check

def parse_E(line):
    p = line.split(" ")
    if len(p) != 2 or not p[0].startswith("E:") or not p[1].startswith("V:"):
        return None, None
    return (b"" if p[0][2:] == "-" else bytes.fromhex(p[0][2:])), p[1][2:] == "1"


def spec_needed(b):
    """bytes_needed by the specification's frame formula, or 'err' (python, from the property text)"""
    if len(b) < 16:
        return "16"
    if b[0:1] not in (b"l", b"B") or not (1 <= b[1] <= 4) or b[3] != 1:
        return "err"
    be = b[0:1] == b"B"
    u = lambda off: struct.unpack(">I" if be else "<I", b[off:off + 4])[0]
    blen, serial, hfl = u(4), u(8), u(12)
    if serial == 0 or hfl > (1 << 26):
        return "err"
    n = 16 + hfl + pad8(16 + hfl) + blen
    return "err" if n > (1 << 27) else str(n)


def run(ctx):
    thorough = ctx.tier == "thorough" or drifted(ctx)
    ctx.rule = "(filled in at the end of the run with the numbers of this run)"
    ctx.trusted = ["Coq 8.16.1 kernel (coqc), no native_compute", "extraction with ExtrOcamlBasic only, ocamlfind ocamlopt 4.13.1",
                   "ocaml/c05/driver.ml and harness/src/bin/c05.rs (I/O wrappers), the generators in checks/c06.py",
                   "Wire/SpecEnc.v, Msg/HeaderSpec.v, Names/Spec.v: my reading of the D-Bus specification"]
    ctx.assumptions = ["bytes_needed_for_current_message is observed on a fresh connection after the bytes were written to the peer end "
                       "and (for >= 16 bytes) one read_once, which reads at most 16 bytes",
                       "usize is 64 bit"]
    ctx.try_proof()
    exe, drv = builds(ctx)
    r = ctx.sub_rng("hdrs")

    # ---------------- 1. specification-level headers (op e)
    cases = []          # (kind, Hdr, expect_valid or None)
    nvalid = 2600 if thorough else 520
    for idx in range(nvalid):
        h = gen_header(r, idx)
        cases.append(("valid", h, True))
        # unknown field at every position (one case per position for a few headers, one random position for the rest)
        positions = range(len(h.fields) + 1) if idx % 8 == 0 else [r.randrange(len(h.fields) + 1)]
        for p in positions:
            u = unknown_field(r)
            cases.append(("unknown@%d" % min(p, 9), Hdr(h.be, h.typ, h.flags, h.blen, h.serial, h.fields[:p] + [u] + h.fields[p:]), True))
        k = idx % 16
        f = list(h.fields)
        if k == 0 and f:                                     # duplicated known field
            f.insert(r.randrange(len(f) + 1), r.choice(f))
            cases.append(("fault:duplicate", Hdr(h.be, h.typ, h.flags, h.blen, h.serial, f), False))
        elif k == 1:                                         # missing required field
            need = {1: [1, 3], 2: [5], 3: [4, 5], 4: [1, 2, 3]}[h.typ]
            drop = r.choice(need)
            cases.append(("fault:missing-required", Hdr(h.be, h.typ, h.flags, h.blen, h.serial, [x for x in f if x.code != drop]), False))
        elif k == 2 and f:                                   # wrong variant type for a known code
            i = r.randrange(len(f))
            wrong = {"o": ["s", "g", "u", "v"], "s": ["o", "g", "u", "ay"], "g": ["s", "o", "y"], "u": ["i", "s", "t", "h"]}[f[i].sig]
            w = r.choice(wrong)
            toks = {"s": ["s", hx("a.b")], "o": ["o", hx("/a")], "g": ["g", hx("u")], "u": ["u", "7"], "i": ["i", "7"], "t": ["t", "7"],
                    "h": ["h", "0"], "y": ["y", "7"], "v": ["v", "u", "u", "7"], "ay": ["a", "y", "0"]}[w]
            f[i] = Field(f[i].code, w, toks)
            cases.append(("fault:wrong-type", Hdr(h.be, h.typ, h.flags, h.blen, h.serial, f), False))
        elif k == 3 and f:                                   # invalid text in a name field
            i = r.randrange(len(f))
            bad = {1: BAD_PATH, 2: BAD_IFACE, 3: BAD_MEMBER, 4: BAD_IFACE, 6: BAD_BUS, 7: BAD_BUS, 8: ["(", "a", "a{vs}", "()", "z", "y" * 256]}.get(f[i].code)
            if bad:
                val = r.choice(bad)
                if f[i].code == 8 and len(val) > 255:
                    val = "("
                f[i] = known_field(f[i].code, val)
                cases.append(("fault:bad-text", Hdr(h.be, h.typ, h.flags, h.blen, h.serial, f), False))
        elif k == 4:                                         # zero reply serial
            f = [x for x in f if x.code != 5] + [known_field(5, 0)]
            r.shuffle(f)
            cases.append(("fault:reply-serial-0", Hdr(h.be, h.typ, h.flags, h.blen, h.serial, f), False))
        elif k == 5:                                         # field code 0
            u = unknown_field(r)
            u.code = 0
            f.insert(r.randrange(len(f) + 1), u)
            cases.append(("fault:code-0", Hdr(h.be, h.typ, h.flags, h.blen, h.serial, f), False))
        elif k == 6:                                         # invalid value inside an unknown field
            bad = [1]
            u = unknown_field(r, 3, bad)
            f.insert(r.randrange(len(f) + 1), u)
            cases.append(("unknown-maybe-bad", Hdr(h.be, h.typ, h.flags, h.blen, h.serial, f), None))
        elif k == 7:                                         # nesting limit inside an unknown field (header array, struct, variant count)
            kk = r.choice([1, 30, 59, 60, 61, 62, 63, 64, 65, 78, 125])
            sig, toks = level_chain(r.choice(CHAIN_PATTERNS), kk)
            f.insert(r.randrange(len(f) + 1), Field(r.randrange(10, 256), sig, toks))
            cases.append(("unknown-depth:%d" % kk, Hdr(h.be, h.typ, h.flags, h.blen, h.serial, f), kk <= 61))
        elif k == 8:                                         # type byte / serial at the specification level
            cases.append(("fault:type", Hdr(h.be, r.choice([0, 5, 6, 255, r.randrange(5, 256)]), h.flags, h.blen, h.serial, f), False))
        elif k == 9:
            cases.append(("fault:serial-0", Hdr(h.be, h.typ, h.flags, h.blen, 0, f), False))
    # the nesting limit inside an unknown field with EVERY kind of level (the field array, its struct and the field's variant are 3
    # levels; 61 more are allowed below), each pattern at each depth around the limit and far beyond it
    for pi, pat in enumerate(CHAIN_PATTERNS):
        for kk in (60, 61, 62, 63, 64, 78, 125, 300):
            h = gen_header(r, 2 * pi + kk)
            f = list(h.fields)
            sig, toks = level_chain(pat, kk)
            f.insert(r.randrange(len(f) + 1), Field(r.randrange(10, 256), sig, toks))
            cases.append(("unknown-depth:%d" % kk, Hdr(h.be, h.typ, h.flags, h.blen, h.serial, f), kk <= 61))
    # several unknown fields in one header, also with the SAME unknown code twice: "no field occurs twice" is read as a rule
    # about the fields the specification defines (codes 1..9); unknown codes are skipped one by one, repeated or not
    for idx in range(nvalid // 4):
        h = gen_header(r, idx)
        f = list(h.fields)
        us = [unknown_field(r) for _ in range(r.choice([2, 2, 3, 4]))]
        if r.random() < 0.5:
            us[1].code = us[0].code
        for u in us:
            f.insert(r.randrange(len(f) + 1), u)
        cases.append(("unknown-several" + ("-same-code" if us[1].code == us[0].code else ""), Hdr(h.be, h.typ, h.flags, h.blen, h.serial, f), True))
    # a name that is valid for ANOTHER kind of field but not for its own, for each of the six name-carrying fields: a decoder
    # that runs the wrong validator on a field accepts one of these (or rejects a valid header above)
    CROSS = {1: ["a.b", "Member", ":1.5", "a-b.c"],                    # interface / member / unique name / bus name as PATH
             2: [":1.5", "a-b.c", "Member", "/a/b"],                   # bus names, member, path as INTERFACE
             3: ["a.b", ":1.5", "a-b.c", "/a"],                        # interface, bus names, path as MEMBER
             4: [":1.5", "a-b.c", "Member", "/a/b"],                   # ... as ERROR_NAME
             6: ["Member", "/a/b", "_x"],                              # member, path as DESTINATION
             7: ["Member", "/a/b", "_x"]}                              # member, path as SENDER
    for code, names in CROSS.items():
        for nm in names:
            for rep in range(2 if thorough else 1):
                h = gen_header(r, r.randrange(1 << 20))
                f = [x for x in h.fields if x.code != code]
                f.insert(r.randrange(len(f) + 1), known_field(code, nm))
                cases.append(("fault:cross-kind-name:%d" % code, Hdr(h.be, h.typ, h.flags, h.blen, h.serial, f), False))
    # wrong variant type although the value's TEXT / NUMBER is valid for the field, for every code: only the type is at fault
    def retyped(code, val):
        """fields with code `code` carrying the valid value `val` under every wrong type that can hold it"""
        if code == 1:
            return [Field(1, "s", ["s", hx(val)]), Field(1, "v", ["v", "o", "o", hx(val)]), Field(1, "v", ["v", "s", "s", hx(val)])]
        if code in (2, 4, 6, 7):
            return [Field(code, "v", ["v", "s", "s", hx(val)]), Field(code, "(s)", ["r", "1", "s", hx(val)]), Field(code, "as", ["a", "s", "1", "s", hx(val)])]
        if code == 3:          # a member name can also be a valid signature ("s", "as", "u", ..) and then fits type g
            return [Field(3, "g", ["g", hx(r.choice(["s", "as", "u", "ii", "v"]))]), Field(3, "v", ["v", "s", "s", hx(val)])]
        if code == 8:
            return [Field(8, "s", ["s", hx(val)]), Field(8, "v", ["v", "g", "g", hx(val)])]
        v = val if val else 1
        return [Field(code, "i", ["i", str(v % (1 << 31))]), Field(code, "h", ["h", str(v)]), Field(code, "t", ["t", str(v)]),
                Field(code, "q", ["q", str(v % 65536)]), Field(code, "v", ["v", "u", "u", str(v)])]
    for idx in range(nvalid // 2):
        h = gen_header(r, idx)
        vn = gen_valid_names(r)
        code = 1 + idx % 9
        val = {1: vn["path"], 2: vn["iface"], 3: vn["member"], 4: vn["err"], 5: r.choice(SERIALS), 6: vn["dest"], 7: vn["sender"],
               8: r.choice(["u", "a{sv}", "s"]), 9: r.choice([1, 2, 7])}[code]
        for wf in retyped(code, val):
            f = [x for x in h.fields if x.code != code]
            f.insert(r.randrange(len(f) + 1), wf)
            cases.append(("fault:wrong-type-valid-text:%d" % code, Hdr(h.be, h.typ, h.flags, h.blen, h.serial, f), False))
    elines = [h.e_line() for _, h, _ in cases]
    eout = run_sharded(drv, elines, "driver")

    # ---------------- 2. byte strings: the encodings above and their byte-level corruptions
    inputs = []         # (kind, bytes, nfds, Hdr or None, spec_valid or None)
    for f in sorted(glob.glob(os.path.join(vlib.VERIF, "corpus", "C06", "*.case"))):
        for line in open(f):
            line = line.strip()
            if line and not line.startswith("#"):
                inputs.append(("corpus", bytes.fromhex(line), 0, None, None))
    ncorpus = len(inputs)
    prefix_req = []     # (input index of the valid message, Hdr) for padding-between-fields faults
    for (kind, h, exp), eo, el in zip(cases, eout, elines):
        E, V = parse_E(eo)
        if E is None:
            ctx.tie_broken("extracted specification failed to encode a generated header", "line: %s\nout: %s" % (el[:400], eo[:200]))
            continue
        if exp is not None and V != exp:
            ctx.tie_broken("generator and extracted specification disagree on the validity of a generated header (%s)" % kind,
                           "line: %s\nspec says valid=%s" % (el[:600], V))
            continue
        msg = message_bytes(E, h.blen, r)
        inputs.append((kind, msg, r.choice([0, 0, 1, 2]), h, V))
        if kind == "valid":
            base = msg
            be = h.be
            u32 = lambda n: struct.pack(">I" if be else "<I", n)
            hfl = len(E) - 16
            mut = []
            mut.append(("fault:endianness", bytes([r.choice([0, 76, 98, 108 ^ 32, 255, r.randrange(256)])]) + base[1:]))
            mut.append(("fault:version", base[:3] + bytes([r.choice([0, 2, 3, 255])]) + base[4:]))
            mut.append(("fault:type-byte", base[:1] + bytes([r.choice([0, 5, 6, 128, 255])]) + base[2:]))
            mut.append(("fault:serial-bytes", base[:8] + bytes(4) + base[12:]))
            if pad8(len(E)):
                p = len(E) + r.randrange(pad8(len(E)))
                mut.append(("fault:padding-before-body", base[:p] + bytes([r.randrange(1, 256)]) + base[p + 1:]))
            dk = r.choice([1, 2, 3, 4, 7, 8, 9, 16])
            mut.append(("fault:hfl+%d" % dk, base[:12] + u32(hfl + dk) + base[16:]))
            if hfl >= dk:
                mut.append(("fault:hfl-%d" % dk, base[:12] + u32(hfl - dk) + base[16:]))
            mut.append(("fault:hfl-huge", base[:12] + u32(r.choice([(1 << 26) + 1, 1 << 27, U32 - 1])) + base[16:]))
            cut = r.randrange(len(base)) if len(base) else 0
            mut.append(("fault:truncated", base[:cut]))
            mut.append(("fault:body-len", base[:4] + u32(h.blen + r.choice([1, 2, 8])) + base[8:]))
            if h.blen:
                mut.append(("fault:body-len-short", base[:4] + u32(h.blen - 1) + base[8:]))
            mut.append(("extra-trailing-bytes", base + bytes(r.choice([1, 3, 8]))))
            # a random single byte of the field array changed
            if hfl:
                p = 16 + r.randrange(hfl)
                mut.append(("fault:random-byte", base[:p] + bytes([base[p] ^ r.choice([1, 2, 4, 8, 16, 32, 64, 128, 255])]) + base[p + 1:]))
            keep = mut if (len(inputs) % 4 == 0 or thorough) else r.sample(mut, 4)
            for mk, mb in keep:
                inputs.append((mk, mb, 0, None, None))
            if len(h.fields) >= 2 and len(prefix_req) < (400 if thorough else 80):
                prefix_req.append((msg, h))
    # a field whose variant signature holds 0 or 2+ complete types, the bytes after it being a valid encoding of the FIRST
    # type: the last field of a valid header is rebuilt by hand behind the specification's encoding of the other fields
    def field_bytes(pos, code, sig, first_sig, val, be):
        """pos = message offset where the previous field ended; value encoded for the type `first_sig` (o s g u)"""
        out = bytes(pad8(pos)) + bytes([code, len(sig)]) + sig.encode() + b"\0"
        at = pos + len(out)
        if first_sig in ("s", "o"):
            t = val.encode()
            out += bytes((-at) % 4) + struct.pack(">I" if be else "<I", len(t)) + t + b"\0"
        elif first_sig == "g":
            t = val.encode()
            out += bytes([len(t)]) + t + b"\0"
        else:
            out += bytes((-at) % 4) + struct.pack(">I" if be else "<I", val)
        return out
    slines, smeta = [], []
    for msg, h in prefix_req:
        slines.append(h.e_line(len(h.fields) - 1))
        smeta.append((msg, h))
    for (msg, h), eo in zip(smeta, run_sharded(drv, slines, "driver")):
        E, _ = parse_E(eo)
        if E is None:
            continue
        last = h.fields[-1]
        u32 = lambda n: struct.pack(">I" if h.be else "<I", n)

        def rebuilt(sig):
            fb = field_bytes(len(E), last.code, sig, last.sig, last.known_val, h.be)
            hd = E[:12] + u32(len(E) - 16 + len(fb)) + E[16:] + fb
            return hd + bytes(pad8(len(hd))) + msg[len(msg) - h.blen:] if h.blen else hd + bytes(pad8(len(hd)))
        if rebuilt(last.sig) != msg:
            ctx.tie_broken("generator: the hand-built last field differs from the specification's encoding", "header: %s" % h.e_line()[:400])
            continue
        for sig in (last.sig + "u", last.sig + last.sig, last.sig + "s", last.sig + "y", ""):
            inputs.append(("fault:signature-%s-types" % ("no" if sig == "" else "two"), rebuilt(sig), 0, None, False))

    # padding between two fields made non-zero: the end of field k is the length of the encoding of the first k fields
    plines, pmeta = [], []
    for msg, h in prefix_req:
        k = r.randrange(1, len(h.fields))
        plines.append(h.e_line(k))
        pmeta.append((msg, h))
    for (msg, h), eo in zip(pmeta, run_sharded(drv, plines, "driver")):
        E, _ = parse_E(eo)
        if E is None:
            continue
        gap = pad8(len(E))
        if gap:
            p = len(E) + r.randrange(gap)
            inputs.append(("fault:padding-between-fields", msg[:p] + bytes([r.randrange(1, 256)]) + msg[p + 1:], 0, None, None))
    # random bytes, and random bytes behind a plausible fixed part
    for _ in range(4000 if thorough else 500):
        n = r.choice([0, 1, 11, 12, 15, 16, 17, 24, 40, 64, 200])
        b = bytes(r.randrange(256) for _ in range(n))
        if n >= 16 and r.random() < 0.7:
            be = r.random() < 0.5
            hfl = r.choice([0, 1, 4, 8, n - 16, max(0, n - 17)])
            b = (b"B" if be else b"l") + bytes([r.choice([1, 2, 3, 4]), r.randrange(256), 1]) + \
                struct.pack(">III" if be else "<III", r.choice([0, 0, 1, 8]), r.choice(SERIALS), hfl) + b[16:]
        inputs.append(("random", b, 0, None, None))

    dlines = ["d %s %d" % (hx(b), nf) for _, b, nf, _, _ in inputs]
    impl = run_sharded(exe, dlines, "harness")
    model = run_sharded(drv, dlines, "driver")
    for (kind, b, nf, h, V), l, oi, om in zip(inputs, dlines, impl, model):
        ctx.case(l, nontrivial=len(b) >= 16, sample={"kind": kind, "bytes": hx(b)[:200], "impl": oi[:200]} if kind.startswith("unknown@") and len(ctx.samples) < 6 else None)
        ctx.count(kind.split(":")[0] if kind.startswith("unknown-depth") else kind)
        if not oi.startswith("D:"):
            ctx.disagreements_checked += 1
            ctx.violation("the header decoder panicked / crashed", {"bytes": hx(b), "nfds": nf, "kind": kind, "impl": oi[:300]})
            continue
        if not om.startswith("D:") or "panic" in om or "fuel" in om:
            ctx.tie_broken("extracted decoder model failed (%s)" % kind, "bytes: %s\nmodel: %s" % (hx(b)[:600], om[:200]))
            continue
        di, dm = parse_decoded(oi[2:]), parse_decoded(om[2:])
        ctx.count("verdict:" + ("accept" if di["ok"] else "reject"))
        problems = []
        # (a) the generator's own knowledge
        if V is True:
            if not di["ok"]:
                problems.append("a spec-valid header (%s) is rejected" % kind)
            else:
                exp = h.expected()
                exp["used"] = str(16 + struct.unpack(">I" if h.be else "<I", b[12:16])[0])
                for k, v in exp.items():
                    if di.get(k) != v:
                        problems.append("decoded field %s of a spec-valid header is %s, the bytes say %s" % (k, str(di.get(k))[:80], v[:80]))
                        break
                want_n = "ok:%s:%s:%d:%d:%d" % (hx(b[len(b) - h.blen:]) if h.blen else "-", "-" if exp["g"] in ("-", "e") else exp["g"], nf, h.typ, h.flags)
                if not problems and di.get("N") != want_n:
                    problems.append("message body / signature / descriptor count differ from the input: %s instead of %s" % (str(di.get("N"))[:80], want_n[:80]))
        elif V is False and di["ok"]:
            problems.append("a header that is not spec-valid (%s) is accepted" % kind)
        # (b) the proved model = specification
        if di["ok"] != dm["ok"]:
            problems.append("the decoder %s a header the specification (proved decoder model) %s" % (
                "accepts" if di["ok"] else "rejects", "rejects" if di["ok"] else "accepts"))
        elif di["ok"] and oi != om:
            if oi.split(" N:")[0] != om.split(" N:")[0]:
                problems.append("decoded header differs from what the bytes say according to the specification model")
            else:
                problems.append("the message after the header (zero padding to 8, exactly body_len body bytes) is accepted/rejected "
                                "differently from the specification model")
        if problems:
            ctx.disagreements_checked += 1
            ctx.violation(problems[0], {"bytes": hx(b), "nfds": nf, "kind": kind, "impl": oi[:1500], "spec_model": om[:1500], "all": problems})

    if ctx.tier == "thorough":
        idxs = [i for i, x in enumerate(inputs) if 16 <= len(x[1]) <= 400 and model[i].startswith("D:")][:: max(1, len(inputs) // 14)][:14]
        coq_crosscheck(ctx, [], [(inputs[i][1], inputs[i][2], model[i]) for i in idxs])

    # ---------------- 3. bytes_needed on a real RecvConn
    nn = 6000 if thorough else 1200
    pool = [x for x in inputs if len(x[1]) >= 12]
    r2 = ctx.sub_rng("needed")
    sel = r2.sample(pool, min(nn, len(pool)))
    nl = []
    for kind, b, nf, h, V in sel:
        b = b[:r2.choice([16, 16, 17, 40, len(b)])] if len(b) > 16 and r2.random() < 0.5 else b
        if r2.random() < 0.15 and len(b) >= 16:
            # announce large lengths
            be = b[0:1] == b"B"
            big = struct.pack(">I" if be else "<I", r2.choice([(1 << 26), (1 << 26) + 1, (1 << 27) - 100, 1 << 27, U32 - 1]))
            b = b[:4] + big + b[8:] if r2.random() < 0.5 else b[:12] + big + b[16:]
        nl.append("n " + hx(b))
    # the two limits exactly: needed in {2^27-8, 2^27, 2^27+8} and the field array length around 2^26
    for be in (False, True):
        u = lambda n: struct.pack(">I" if be else "<I", n)
        for hfl in (0, 8, 100, (1 << 26) - 8, (1 << 26) - 1, 1 << 26):
            for target in ((1 << 27) - 8, 1 << 27, (1 << 27) + 8, (1 << 27) + 1, (1 << 27) - 1):
                blen = target - 16 - hfl - pad8(16 + hfl)
                nl.append("n " + hx((b"B" if be else b"l") + bytes([r2.choice([1, 2, 3, 4]), 0, 1]) + u(blen) + u(1) + u(hfl)))
        for hfl in ((1 << 26) - 8, (1 << 26) - 1, 1 << 26, (1 << 26) + 1, (1 << 26) + 8, 1 << 27):
            for blen in (0, 8, 1000):
                nl.append("n " + hx((b"B" if be else b"l") + bytes([1, 0, 1]) + u(blen) + u(7) + u(hfl)))
    # the same with 17..40 bytes buffered (a second read_once): the result only depends on the first 16 bytes
    for kind, b, nf, h, V in r2.sample(pool, min(len(pool), 1500 if thorough else 300)):
        if len(b) >= 18:
            nl.append("n2 " + hx(b[:r2.randrange(17, min(41, len(b) + 1))]))
    ni = run_sharded(exe, nl, "harness", per=60)
    nm = run_sharded(drv, ["n " + l.split(" ")[1] for l in nl], "driver")
    for l, oi, om in zip(nl, ni, nm):
        hb_ = l.split(" ")[1]
        b = bytes.fromhex(hb_) if hb_ != "-" else b""
        ctx.case(l, nontrivial=len(b) >= 16)
        ctx.count(("needed:" if l.startswith("n ") else "needed-17..40-buffered:") + ("err" if oi == "N:err" else "ok"))
        want = "N:" + spec_needed(b)
        if not oi.startswith("N:"):
            ctx.disagreements_checked += 1
            ctx.violation("bytes_needed_for_current_message panicked / crashed", {"needed_bytes": hx(b), "impl": oi[:300]})
        elif oi != want:
            ctx.disagreements_checked += 1
            ctx.violation("bytes_needed differs from header + padding + body length", {"needed_bytes": hx(b), "impl": oi, "spec": want, "model": om})
        elif om != oi:
            ctx.disagreements_checked += 1
            ctx.tie_broken("correspondence: bytes_needed model differs from the implementation", "bytes: %s impl %s model %s" % (hx(b)[:200], oi, om))
    ctx.count("corpus", ncorpus)

    # ---------------- 3b. RecvConn::get_next_message on a real connection: the bytes are written to the peer end (which then
    # stops writing); expected = the specification model on the first bytes_needed bytes (too few bytes: an error)
    gpool = [x for x in inputs if len(x[1]) <= 4096]
    gsel = r2.sample(gpool, min(len(gpool), 5000 if thorough else 1000))
    gl = ["g " + hx(x[1]) for x in gsel]
    gi = run_sharded(exe, gl, "harness", per=60)
    gn = run_sharded(drv, ["n " + hx(x[1]) for x in gsel], "driver")
    cut = []
    for x, on in zip(gsel, gn):
        b = x[1]
        need = int(on[2:]) if on.startswith("N:") and on[2:].isdigit() else None
        cut.append(b[:need] if need is not None and 16 <= need <= len(b) and len(b) >= 16 else None)
    gd = run_sharded(drv, ["d %s 0" % hx(c) if c is not None else "?" for c in cut], "driver")
    for x, l, oi, c, od in zip(gsel, gl, gi, cut, gd):
        ctx.case(l, nontrivial=len(x[1]) >= 16)
        exp = parse_decoded(od[2:]) if c is not None and od.startswith("D:") else {"ok": False}
        if c is not None and not od.startswith("D:"):
            ctx.tie_broken("extracted decoder model failed", "bytes: %s model: %s" % (hx(c)[:400], od[:200]))
            continue
        if not oi.startswith("G:"):
            ctx.disagreements_checked += 1
            ctx.violation("RecvConn::get_next_message panicked / crashed", {"bytes": hx(x[1]), "kind": x[0], "impl": oi[:300]})
            continue
        got = parse_decoded(oi[2:])
        ok_exp = exp["ok"] and exp.get("N", "").startswith("ok")
        ctx.count("get_next_message:" + ("accept" if got["ok"] else "reject"))
        bad = None
        if got["ok"] != ok_exp:
            bad = "get_next_message %s a message the specification model %s" % ("accepts" if got["ok"] else "rejects", "rejects" if got["ok"] else "accepts")
        elif got["ok"]:
            for k in ("t", "f", "rs", "i", "d", "sn", "m", "p", "e", "g", "fd", "dser"):
                if got.get(k) != exp.get(k):
                    bad = "get_next_message: header field %s is %s, the bytes say %s" % (k, str(got.get(k))[:60], str(exp.get(k))[:60])
                    break
            if bad is None and got["N"].split(":")[:4] != exp["N"].split(":")[:4]:
                bad = "get_next_message: body / signature / descriptors differ from the bytes"
        if bad:
            ctx.disagreements_checked += 1
            ctx.violation(bad, {"bytes": hx(x[1]), "nfds": 0, "kind": x[0], "impl": oi[:1200], "spec_model": od[:1200], "via": "get_next_message"})

    # ---------------- 4. the 64 MiB limit of the field array itself (only the implementation: the byte strings are too
    # large for the extracted model; the verdict is the specification's array limit, ValidHeader via encodable)
    def big_header(hfl_target):
        f = bytes([1, 1]) + b"o\0" + struct.pack("<I", 2) + b"/p\0"
        f += bytes(pad8(16 + len(f)))
        f += bytes([3, 1]) + b"s\0" + struct.pack("<I", 1) + b"M\0"
        f += bytes(pad8(16 + len(f)))
        head = bytes([42, 2]) + b"ay\0"                   # unknown field: a byte array fills the rest
        f += head
        f += bytes(pad8(16 + len(f)) % 4)
        L = hfl_target - len(f) - 4
        f += struct.pack("<I", L) + bytes(L)
        assert len(f) == hfl_target
        h = b"l" + bytes([1, 0, 1]) + struct.pack("<III", 0, 1, len(f)) + f
        return h + bytes(pad8(len(h)))
    for hfl, valid in (((1 << 26), True), ((1 << 26) + 8, False)):
        b = big_header(hfl)
        rc, o, e = run_proc(exe, ["d %s 0" % b.hex()])
        ctx.evaluations += 1
        ctx.count("big-array:" + ("valid" if valid else "too-long"))
        if rc != 0 or len(o) != 1 or not o[0].startswith("D:"):
            ctx.violation("the header decoder crashed on a header with a 64 MiB field array", {"hfl": hfl, "stderr": e[-300:]}, no_input=False)
            continue
        ok = o[0].startswith("D:ok")
        if ok != valid:
            ctx.disagreements_checked += 1
            ctx.violation("a header whose field array is %d bytes long (limit 2^26) is %s" % (hfl, "accepted" if ok else "rejected"),
                          {"big_hfl": hfl, "impl": o[0][:200]})
    ctx.exhaustive = False
    hg = ctx.histogram
    tot = lambda pre: sum(v for k, v in hg.items() if k.startswith(pre))
    ctx.rule = (
        "this run (%s sizes): %d valid headers = random message type, the fields it requires plus a random subset of the others with "
        "valid values in random order, flags cycling through 0..255 in both byte orders, ENCODED BY THE EXTRACTED SPECIFICATION; "
        "%d headers with an unknown field (codes 10..255, values of generated signatures up to depth 3): at EVERY position for every 8th "
        "valid header, at one random position for the others; %d headers with 2..4 unknown fields, half of them repeating an unknown "
        "code (accepted by code and specification: only the codes the specification defines may not occur twice); %d headers with a "
        "name that is valid for another kind of field but not its own (each of the six name-carrying fields); %d headers with a chain of variant / dict / array / struct levels in an unknown field around the nesting limit (58..65 levels below the field's variant) and beyond (78, 125, 300); "
        "specification-level "
        "faults, one class per valid header in rotation (%d: duplicate, missing required, wrong type, bad text, reply serial 0, code 0, type, "
        "serial 0, invalid value inside an unknown field) plus %d wrong-type faults whose value is VALID for the field (every code 1..9, "
        "every type that can hold the value); byte-level faults on valid headers (%d; 4 of the 13 classes per header in the quick sizes, "
        "all in the thorough sizes: endianness, version, type byte, serial bytes, padding before the body, field array length +-k and "
        "huge, truncation, body length, trailing bytes, one random byte) plus %d non-zero paddings between fields and %d variant "
        "signatures with zero or two complete types; %d random byte strings; %d inputs through RecvConn::get_next_message on a real "
        "connection; %d bytes_needed observations on a real RecvConn with 16 bytes buffered and %d with 17..40 bytes buffered, incl. the exact 2^26 / 2^27 limits; 2 headers with a 64 MiB field "
        "array. A case is non-trivial when the input is at least 16 bytes long; distinct = distinct byte strings / lines" % (
            "thorough" if thorough else "quick", hg.get("valid", 0), tot("unknown@"), tot("unknown-several"), tot("fault:cross-kind-name"),
            hg.get("unknown-depth", 0),
            sum(hg.get(k, 0) for k in ("fault:duplicate", "fault:missing-required", "fault:wrong-type", "fault:bad-text", "fault:reply-serial-0",
                                       "fault:code-0", "fault:type", "fault:serial-0", "unknown-maybe-bad")),
            tot("fault:wrong-type-valid-text"),
            sum(v for k, v in hg.items() if k.startswith("fault:") and k.split(":")[1].split("+")[0].split("-")[0] in
                ("endianness", "version", "type", "serial", "padding", "hfl", "truncated", "body", "random") and k not in
                ("fault:type", "fault:serial-0", "fault:padding-between-fields")) + hg.get("extra-trailing-bytes", 0),
            hg.get("fault:padding-between-fields", 0), tot("fault:signature-"), hg.get("random", 0), tot("get_next_message:"), tot("needed:"), tot("needed-17")))


def replay(ctx, body):
    data = body["data"]
    exe, drv = builds(ctx)
    if "big_hfl" in data:
        print("re-run ./check C06 quick: the witness (a %d byte field array) is generated by the check itself" % data["big_hfl"])
        return 1
    if "needed_bytes" in data:
        b = bytes.fromhex(data["needed_bytes"]) if data["needed_bytes"] != "-" else b""
        oi = run_proc(exe, ["n " + hx(b)])[1]
        want = "N:" + spec_needed(b)
        print("bytes:", hx(b)[:200], "\nimpl:", oi, "\nspec:", want)
        if not oi or oi[0] != want:
            print("REPRODUCED: bytes_needed differs from the frame formula")
            return 1
        print("not reproduced")
        return 0
    if data.get("via") == "get_next_message":
        b = bytes.fromhex(data["bytes"]) if data["bytes"] != "-" else b""
        oi = run_proc(exe, ["g " + hx(b)])[1]
        on = run_proc(drv, ["n " + hx(b)])[1][0]
        need = int(on[2:]) if on[2:].isdigit() else None
        od = run_proc(drv, ["d %s 0" % hx(b[:need])])[1][0] if need is not None and 16 <= need <= len(b) else "D:err"
        print("bytes:", hx(b)[:400], "\nimpl :", (oi or ["<crash>"])[0][:800], "\nspec :", od[:800])
        got, exp = parse_decoded(oi[0][2:]) if oi and oi[0].startswith("G:") else None, parse_decoded(od[2:])
        if got is None or got["ok"] != (exp["ok"] and exp.get("N", "").startswith("ok")) or (
                got["ok"] and any(got.get(k) != exp.get(k) for k in ("t", "f", "rs", "i", "d", "sn", "m", "p", "e", "g", "fd", "dser"))):
            print("REPRODUCED: %s" % body.get("what"))
            return 1
        print("not reproduced (get_next_message agrees with the specification on this input)")
        return 0
    l = "d %s %d" % (data["bytes"], data.get("nfds", 0))
    oi = run_proc(exe, [l])[1]
    om = run_proc(drv, [l])[1]
    print("bytes:", data["bytes"][:400])
    print("impl :", (oi or ["<crash>"])[0][:1000])
    print("spec :", (om or ["<crash>"])[0][:1000])
    if not oi or not oi[0].startswith("D:"):
        print("REPRODUCED: decoder crashed")
        return 1
    di, dm = parse_decoded(oi[0][2:]), parse_decoded(om[0][2:])
    if di["ok"] != dm["ok"] or (di["ok"] and oi[0] != om[0]):
        print("REPRODUCED: %s" % body.get("what"))
        return 1
    print("not reproduced (implementation agrees with the specification on this input)")
    return 0
