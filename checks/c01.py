"""C01 - typed values survive marshal -> unmarshal unchanged, for every type and position.

For every catalogue type, both byte orders and prefix lengths 0..15 created by preceding u8 parameters:
push the prefix, the value and a trailer byte into a real MarshalledMessageBody, validate() it, and read
everything back through MessageBodyParser (typed get::<T>() and dynamic get_param()).  The property is
evaluated on the implementation's own output: the value read back equals the value written (maps as maps,
floats by bits), the trailer is the next thing read and nothing is left.  The extracted model (marshal_t /
unmarshal_t / marshal_p / unmarshal_p / validate) runs the same scenario as the tie for the theorems.
"""
import os

import vlib
import wiregen as wg
from checks.c02 import fields


def run(ctx):
    thorough = ctx.tier == "thorough"
    ctx.rule = ("case = (API typed|Param, catalogue type, byte order, prefix 0..15, value); boundary-biased encodable values; "
                "non-trivial = prefix > 0 or the type has a container or text leaf; distinct = distinct case lines")
    ctx.trusted = ["Coq 8.16.1 kernel", "extraction (ExtrOcamlBasic only) + ocaml/wire/driver.ml", "harness wire binary and catalogue"]
    ctx.assumptions = ["usize 64 bit, native little endian", "HashMap iteration order does not influence the read-back value (compared as maps)"]
    if not os.environ.get("VERIF_SKIP_PROOF"):
        ctx.try_proof()
    exe = vlib.harness_build(["wire"])["wire"]
    vlib.coq_make(["Wire/Ops.vo"])
    drv = vlib.ocaml_build("wire")
    r = ctx.sub_rng("c01")
    cat = wg.catalogue()
    per_type = 40 if thorough else 10
    cases, lines = [], []
    for ty in cat:
        t = wg.parse_ext(ty)
        for i in range(per_type):
            bo = "le" if (i + r.randrange(2)) % 2 == 0 else "be"
            prefix = (i % 16) if i < 16 else r.randrange(16)
            toks, _ = wg.gen_value(r, t, bad=False)
            api = "RT" if i % 3 else "RP"
            cases.append((api, ty, t, bo, prefix, toks))
            if api == "RT":
                lines.append("RT %s %s %d %s" % (ty, bo, prefix, " ".join(toks)))
            else:
                lines.append("RP %s %d %s" % (bo, prefix, " ".join(toks)))
    ok, impl, err = vlib.par_run_lines(exe, [], lines, robust=True)
    if not ok:
        ctx.tie_broken("wire harness crashed", err)
        return
    ok, model, err = vlib.par_run_lines(drv, [], lines)
    if not ok:
        ctx.tie_broken("extracted model crashed", err)
        return
    for (api, ty, t, bo, prefix, toks), line, li, lm in zip(cases, lines, impl, model):
        nontrivial = prefix > 0 or t[0] != "b" or t[1] in "sog"
        ctx.case(line, nontrivial=nontrivial, sample={"case": line[:200], "impl": li[:200]} if ctx.evaluations % 301 == 0 else None)
        ctx.count("api:" + api)
        ctx.count("bo:" + bo)
        ctx.count("prefix%8=" + str(prefix % 8))
        ctx.count("kind:" + t[0])
        fi, fm = fields(li), fields(lm)
        why = None
        if fi["res"] == "pusherr":
            why = "an encodable value was refused by push"
        elif fi["res"] != "ok":
            why = "the value could not be read back (%s)" % fi["res"]
        elif fi.get("validate") != "true":
            why = "the body does not validate"
        elif fi.get("trailer") != "ok" or fi.get("left") != "0":
            why = "reading consumed the wrong number of bytes or signature characters (the following value is affected)"
        elif fi.get("same") != "true" or wg.canon(fi.get("val", "")) != wg.canon(" ".join(toks)):
            why = "the value read back differs from the value written"
        if why:
            ctx.disagreements_checked += 1
            ctx.violation(why, {"line": line, "impl": li, "model": lm})
            continue
        # descriptors read back are handles (printed 0 = live); which open file each one is belongs to C11
        mval = fm.get("val", "")
        if "h" in mval.split():
            tree, _ = wg.parse_tokens(mval.split(), 0)
            mval = " ".join(wg.print_tree(wg.map_leaves(tree, lambda tag, p: "0" if tag == "h" else p), False))
        agree = (fm["res"] == "ok" and fm.get("validate") == "true" and fm.get("trailer") == "ok"
                 and wg.canon(mval) == wg.canon(fi.get("val", "")))
        if not agree:
            ctx.disagreements_checked += 1
            ctx.tie_broken("correspondence: the model does not round-trip a value the implementation round-trips",
                           "%s\nimpl: %s\nmodel: %s" % (line, li, lm))


def replay(ctx, body):
    d = body["data"]
    exe = vlib.harness_build(["wire"])["wire"]
    _, out, _ = vlib.run_lines(exe, [], [d["line"]])
    print("case:", d["line"][:300])
    print("impl:", out[0][:300])
    f = fields(out[0])
    bad = not (f["res"] == "ok" and f.get("validate") == "true" and f.get("trailer") == "ok" and f.get("left") == "0" and f.get("same") == "true")
    print("REPRODUCED" if bad else "not reproduced")
    return 1 if bad else 0
