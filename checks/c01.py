"""C01 - typed values survive marshal -> unmarshal unchanged, for every type and position.

For every catalogue type (gen/catalogue.py: every generic Marshal/Unmarshal/Signature impl of the crate instantiated
at concrete Rust types, including the borrowing decoders Cow<[E]>, &[u8], &str, the [E; N] / [E] / &[E] entry points,
raw f64 with its memcpy path and - write side only - the 5-tuple), both byte orders and prefix lengths 0..15 created
by preceding u8 parameters: push the prefix, the value and a trailer byte into a real MarshalledMessageBody,
validate() it, and read everything back through MessageBodyParser (typed get::<T>() and dynamic get_param(), the
latter from owned and from borrowing Param trees).  The property is evaluated on the implementation's own output:
the value read back equals the value written (maps as maps, floats by bits), the trailer is the next thing read and
nothing is left.  The extracted model (marshal_t / unmarshal_t / marshal_p / unmarshal_p / validate) runs the same
scenario as the tie for the theorems.  A second stream ("big") holds the values the boundary-biased generator cannot
reach: length fields >= 64 KiB, strings around 2^8 and 2^16 bytes, 64+ containers inside one array, legal nesting up
to the limits.
"""
import os

import vlib
import wiregen as wg
from checks.c02 import fields


PLACES = ["", "", "", "@8", "@16", "@112", "@4096", "@recv", "@recv", "@recv", "@3", "@4"]


def plan(ctx, thorough):
    """cases: dict(stream, op, api, ty, t, bo, prefix, toks, place)"""
    r = ctx.sub_rng("c01")
    rp = ctx.sub_rng("c01-place")
    cat = wg.catalogue()
    # a typed variant around a Rust type whose signature the protocol forbids cannot be written (C02's subject)
    monly = [ty for ty in wg.catalogue_marshal_only() if not wg.forbidden_variant_content(wg.parse_ext(ty))]
    n_rt, n_rp = (48, 24) if thorough else (6, 4)
    cases = []
    for line in wg.corpus_lines("C01"):
        f = line.split(" ")
        op, _, at = f[0].partition("@")
        if op == "RT":
            ty, bo, prefix, toks = f[1], f[2], int(f[3]), f[4:]
            t = wg.parse_ext(ty)
        else:
            ty, bo, prefix, toks = "-", f[1], int(f[2]), f[3:]
            t = ("r", [])
        cases.append({"stream": "corpus", "op": op, "api": "corpus", "ty": ty, "t": t, "bo": bo, "prefix": prefix, "toks": toks, "cls": None,
                      "place": "@" + at if at else ""})
    for ty in cat + monly:
        t = wg.parse_ext(ty)
        for api, n in (("typed", n_rt), ("param", n_rp)):
            # the prefix is uniform on 0..15 and independent of the API: a random permutation of the 8 phases, taken in
            # turn (so n cases see min(n, 8) distinct phases), plus 0 or 8
            phases = list(range(8))
            r.shuffle(phases)
            for j in range(n):
                prefix = phases[j % 8] + 8 * r.randrange(2)
                bo = "le" if (j + r.randrange(2)) % 2 == 0 else "be"
                toks, _ = wg.gen_value(r, t, bad=False)
                if api == "typed":
                    op = "RT"
                else:
                    op = ("RP", "RPR", "RPX")[(j + r.randrange(3)) % 3]
                cases.append({"stream": "catalogue", "op": op, "api": api + ("-write/dynamic-read" if (api == "typed" and ty in monly) else ""),
                              "ty": ty, "t": t, "bo": bo, "prefix": prefix, "toks": toks, "cls": None})
        # the same values inside a params::Variant that is written AND read through the typed API (impl Marshal / Unmarshal for params::Variant)
        for j in range(4 if thorough else 1):
            toks, _ = wg.gen_value(r, t, bad=False)
            vt = toks if t[0] == "v" else ["v", wg.erased(t)] + toks
            cases.append({"stream": "catalogue", "op": ("RV", "RVR", "RVX")[r.randrange(3)], "api": "typed params::Variant", "ty": ty, "t": t,
                          "bo": r.choice(["le", "be"]), "prefix": r.randrange(16), "toks": vt, "cls": None})
    rb = ctx.sub_rng("c01-big")
    for cls, ty, toks in wg.big_cases(rb, thorough):
        t = wg.parse_ext(ty)
        for bo in ("le", "be"):
            cases.append({"stream": "big", "op": "RT", "api": "typed", "ty": ty, "t": t, "bo": bo, "prefix": rb.randrange(16), "toks": toks, "cls": cls})
        cases.append({"stream": "big", "op": rb.choice(["RP", "RPR", "RPX"]), "api": "param", "ty": ty, "t": t, "bo": rb.choice(["le", "be"]),
                      "prefix": rb.randrange(16), "toks": toks, "cls": cls})
    # where the body that is read lives: offset 0 (as built), behind n foreign bytes (from_parts with buf_offset n; 3 and 4 are
    # normalised to 0 by from_parts), or as the receive path delivers it (behind the header of a marshalled message)
    for c in cases:
        if c["stream"] != "corpus":
            c["place"] = rp.choice(PLACES)
    return cases


def line_of(c):
    if c["op"] == "RT":
        return "RT%s %s %s %d %s" % (c.get("place", ""), c["ty"], c["bo"], c["prefix"], " ".join(c["toks"]))
    return "%s%s %s %d %s" % (c["op"], c.get("place", ""), c["bo"], c["prefix"], " ".join(c["toks"]))


def run(ctx):
    thorough = ctx.tier == "thorough"
    ctx.trusted = ["Coq 8.16.1 kernel", "extraction (ExtrOcamlBasic only) + ocaml/wire/driver.ml", "harness wire binary and catalogue"]
    ctx.assumptions = ["usize 64 bit, native little endian", "HashMap iteration order does not influence the read-back value (compared as maps)",
                       "the 5-tuple has no typed decoder in the crate: it is written through the typed API and read back through get_param",
                       "big stream: where the extracted model is too slow (element-wise paths over thousands of elements) only the property "
                       "predicate on the implementation's output is evaluated; counted as big:model-skipped"]
    if not os.environ.get("VERIF_SKIP_PROOF"):
        ctx.try_proof()
    exe = vlib.harness_build(["wire"])["wire"]
    vlib.coq_make(["Wire/Ops.vo"])
    drv = vlib.ocaml_build("wire")
    cases = plan(ctx, thorough)
    lines = [line_of(c) for c in cases]
    small = [i for i, c in enumerate(cases) if c["stream"] != "big"]
    big = [i for i, c in enumerate(cases) if c["stream"] == "big"]
    impl = [None] * len(cases)
    model = [None] * len(cases)
    ok, out, err = vlib.par_run_lines(exe, [], [lines[i] for i in small], robust=True)
    if not ok:
        ctx.tie_broken("wire harness crashed", err)
        return
    for i, o in zip(small, out):
        impl[i] = o
    ok, out, err = wg.run_each(exe, [lines[i] for i in big], robust=True, chunk=4)
    if not ok:
        ctx.tie_broken("wire harness crashed (big stream)", err)
        return
    for i, o in zip(big, out):
        impl[i] = o
    ok, out, err = vlib.par_run_lines(drv, [], [lines[i] for i in small])
    if not ok:
        ctx.tie_broken("extracted model crashed", err)
        return
    for i, o in zip(small, out):
        model[i] = o
    bigm = [i for i in big if wg.model_cheap(cases[i]["op"][:2], cases[i]["bo"], cases[i]["toks"])]
    ok, out, err = wg.run_each(drv, [lines[i] for i in bigm], chunk=2)
    if not ok:
        ctx.tie_broken("extracted model crashed (big stream)", err)
        return
    for i, o in zip(bigm, out):
        model[i] = o
    # the extracted driver against Coq's own evaluation of the same definitions, on a sample of this run's lines
    import wirecross
    wirecross.cross(ctx, [(lines[i], model[i]) for i in small], ctx.sub_rng("c01-coqcross"), 1200 if thorough else 120, name="c01_cross")

    phases = {}
    for c, line, li, lm in zip(cases, lines, impl, model):
        t, prefix, toks = c["t"], c["prefix"], c["toks"]
        nontrivial = prefix > 0 or t[0] != "b" or t[1] in "sog"
        # the canonical form of a big case is its class, type, byte order, prefix and size (the line has 100+ KB)
        canon = line if c["stream"] != "big" else (c["cls"], c["op"], c["ty"], c["bo"], prefix, len(toks), hash(line))
        ctx.case(canon, nontrivial=nontrivial, sample={"case": line[:200], "impl": li[:200]} if ctx.evaluations % 401 == 0 else None)
        ctx.count("api:" + c["api"])
        ctx.count("op:" + c["op"])
        ctx.count("bo:" + c["bo"])
        ctx.count("prefix%8=" + str(prefix % 8))
        ctx.count("kind:" + t[0])
        ctx.count("body-at:" + (c["place"][1:] or "0") + "/" + fields(li).get("place", "?"))
        for fl in wg.flavours(c["ty"]):
            if c["op"] == "RT":
                ctx.count("rust-flavour:" + fl)
        if c["stream"] == "big":
            ctx.count("big:" + c["cls"])
            if lm is None:
                ctx.count("big:model-skipped")
        elif c["api"] not in ("typed params::Variant", "corpus"):
            phases.setdefault((c["ty"], c["api"]), set()).add(prefix % 8)
        fi = fields(li)
        why = None
        if fi["res"] == "pusherr":
            why = "an encodable value was refused by push"
        elif fi["res"] != "ok":
            why = "the value could not be read back (%s)" % fi["res"]
        elif fi.get("validate") != "true":
            why = "the body does not validate"
        elif fi.get("trailer") != "ok" or fi.get("left") != "0":
            why = "reading consumed the wrong number of bytes or signature characters (the following value is affected)"
        elif fi.get("same") != "true" or wg.canon(fi.get("val", "")) != wg.canon(" ".join(toks)):
            why = "the value read back differs from the value written"
        if why:
            ctx.disagreements_checked += 1
            ctx.violation(why, {"line": line if len(line) < 4000 else line[:4000] + " ...(%d characters; regenerate with the seed)" % len(line),
                                "impl": li[:2000], "model": (lm or "not run")[:2000], "stream": c["stream"], "class": c["cls"]})
            continue
        cow = fi.get("cow", "b0o0")
        if cow != "b0o0":
            b, o = cow[1:].split("o")
            ctx.count("cow-borrowed", int(b))
            ctx.count("cow-owned", int(o))
        if lm is None:
            continue
        fm = fields(lm)
        # descriptors read back are handles (printed 0 = live); which open file each one is belongs to C11
        mval = fm.get("val", "")
        if "h" in mval.split():
            tree, _ = wg.parse_tokens(mval.split(), 0)
            mval = " ".join(wg.print_tree(wg.map_leaves(tree, lambda tag, p: "0" if tag == "h" else p), False))
        agree = (fm["res"] == "ok" and fm.get("validate") == "true" and fm.get("trailer") == "ok"
                 and wg.canon(mval) == wg.canon(fi.get("val", "")))
        if not agree:
            ctx.disagreements_checked += 1
            ctx.tie_broken("correspondence: the model does not round-trip a value the implementation round-trips",
                           "%s\nimpl: %s\nmodel: %s" % (line[:3000], li[:1500], lm[:1500]))
    nreq = requests_stream(ctx, exe, thorough)
    ngiant = giant(ctx, exe)
    minph = min(len(v) for v in phases.values())
    ntypes = len(set(ty for ty, _ in phases))
    ctx.extra["phases"] = {"pairs (type, api)": len(phases), "min distinct prefix phases mod 8 per pair": minph,
                           "pairs with all 8 phases": sum(1 for v in phases.values() if len(v) == 8)}
    nbig = len(big)
    ctx.rule = ("case = (API: typed get::<T> | dynamic get_param from an owned / borrowing / alternating Param tree, catalogue type, byte order, "
                "prefix, value, where the body that is read lives: offset 0, from_parts behind 8/16/112/4096 (or 3/4: normalised) foreign bytes, or the "
                "receive path marshal + unmarshal_next_message - counts in body-at:*). Stream 1: %d types (%d catalogue types + %d marshal-only 5-tuple types, written typed and read dynamically) x "
                "{typed: %d cases, param: %d cases} plus one value (thorough: 4) wrapped in a params::Variant that is written and read through the typed API; the prefix is drawn uniformly from 0..15 independently of the API (a random permutation of "
                "the 8 phases taken in turn, plus 0 or 8), so every (type, API) pair saw at least %d distinct phases mod 8 in this run; values "
                "boundary-biased and encodable. Stream 2 (big, %d cases): length fields >= 64 KiB, strings of 255..70000 bytes, 64..100 "
                "containers in one array/dict, nesting at the limits, typed in both byte orders plus one Param flavour. Stream 3 (requests, %d cases): "
                "get::<T>() on a body written as another Rust type S - the same type in another flavour is read, another signature is answered with "
                "WrongSignature and nothing is consumed (in particular the crate's two Variant types asked for on bodies without a variant). "
                "Every tuple arity 1..4 (top level and as array element) is asked on bodies holding a tuple with one more / one less field (written through "
                "the dynamic API when no catalogue type has that signature). Stream 4 (giant, %d cases): arrays with exactly 2^26 bytes of content and "
                "16..50 MiB, made inside the harness (ay, at, as; typed and Param; both byte orders), predicate only. "
                "non-trivial = prefix > 0 or the type has a container or text leaf; distinct = distinct case lines"
                % (ntypes, len(wg.catalogue()), len(wg.catalogue_marshal_only()), 48 if thorough else 6, 24 if thorough else 4, minph, nbig, nreq, ngiant))
    want = 8 if thorough else 2
    if minph < want:
        ctx.tie_broken("generator: a (type, API) pair saw fewer than %d prefix phases" % want, str(minph))


def giant(ctx, exe):
    """Arrays with exactly 2^26 bytes of content (the protocol maximum) and 16..50 MiB (every byte of the length field in use), made
    inside the harness from a descriptor (XR, harness/src/bin/wire.rs giant()): pushed through push_param(&[u8] / &[u64] / &[&str]) or
    push_old_param(Param array of strings), followed by the trailer byte, validated and read back with get::<&[u8] / Vec<u64> /
    Vec<&str>>() / get_param(). The property predicate only; no extracted function runs on 64 MiB (model-skipped)."""
    r = ctx.sub_rng("c01-giant")
    cases = [c for c in wg.giant_lines(r, "XR") if wg.giant_spec(c[1], c[2])[0] <= wg.MAX_ARRAY]
    ok, out, err = wg.run_each(exe, [c[4] for c in cases], robust=True, chunk=2)
    if not ok:
        ctx.tie_broken("wire harness crashed (giant stream)", err)
        return 0
    for (cls, shape, be, api, line), o in zip(cases, out):
        fi = fields(o)
        ctx.case(("giant", line), nontrivial=True, sample={"case": line, "impl": o[:160]} if shape[0] == "as" and be and api == "param" else None)
        ctx.count("giant:%s:%s" % (cls, "typed/memcpy" if api == "typed" and (shape[0] == "ay" or (shape[0] == "at" and not be)) else api + "/element-wise"))
        ctx.count("giant:model-skipped")
        ctx.count("bo:" + ("be" if be else "le"))
        why = None
        if fi["res"] == "pusherr":
            why = "an encodable value was refused by push"
        elif fi["res"] != "ok":
            why = "the value could not be read back (%s)" % fi["res"]
        elif fi.get("validate") != "true":
            why = "the body does not validate"
        elif fi.get("trailer") != "ok" or fi.get("left") != "0":
            why = "reading consumed the wrong number of bytes or signature characters (the following value is affected)"
        elif fi.get("same") != "true":
            why = "the value read back differs from the value written"
        if why:
            ctx.disagreements_checked += 1
            ctx.violation(why, {"line": line, "impl": o[:300], "model": "not run", "stream": "giant", "class": cls})
    return len(cases)


def requests_stream(ctx, exe, thorough):
    """get::<T>() on a body that holds a value written as another Rust type S. Same D-Bus type and same variant contents (only the
    flavour differs: Vec / Cow / [E; N], v / V ..): the value is read. Another D-Bus type: Signature::has_sig of T must say no -
    WrongSignature, nothing consumed - in particular for the crate's two Variant types asked for on a body that holds no variant.
    The predicate comes from the property text (reading needs the matching type); no model run in this stream."""
    r = ctx.sub_rng("c01-requests")
    cat = [ty for ty in wg.catalogue() if not wg.count_leaves(wg.parse_ext(ty), "h")]
    by_sig, by_plain = {}, {}
    for ty in cat:
        by_sig.setdefault(wg.erased(wg.parse_ext(ty)), []).append(ty)
        by_plain.setdefault(wg.plain_name(ty), []).append(ty)
    # the marshal-only types (5-tuples) can be written through the typed API as well
    monly_by_sig = {}
    for ty in wg.catalogue_marshal_only():
        if not wg.forbidden_variant_content(wg.parse_ext(ty)) and not wg.count_leaves(wg.parse_ext(ty), "h"):
            monly_by_sig.setdefault(wg.erased(wg.parse_ext(ty)), []).append(ty)
    # every tuple arity with an Unmarshal impl (1..4) is asked for, top level and as an array element: 10 types of each (thorough: all)
    by_arity = {}
    for ty in cat:
        t = wg.parse_ext(ty)
        if t[0] == "r" or (t[0] == "a" and t[1][0] == "r"):
            by_arity.setdefault((t[0], len(t[1] if t[0] == "r" else t[1][1])), []).append(ty)
    tuples = [ty for k in sorted(by_arity) for ty in (by_arity[k] if thorough else r.sample(by_arity[k], min(10, len(by_arity[k]))))]
    asked = [ty for ty in cat if "v[" in ty or "V[" in ty] + tuples + r.sample(cat, 300 if thorough else 80)
    pairs = []          # (S, T, byte order, place, tree to write through the dynamic API or None = typed)

    def typed_variants_only(t):
        return t[0] == "b" or (t[0] == "v" and t[1] is not None and typed_variants_only(t[1])) or (t[0] == "a" and typed_variants_only(t[1])) \
            or (t[0] == "e" and typed_variants_only(t[2])) or (t[0] == "r" and all(typed_variants_only(x) for x in t[1]))
    for T in asked:
        t = wg.parse_ext(T)
        srcs = [r.choice(by_plain[wg.plain_name(T)]), r.choice(cat), r.choice(["y", "u", "s", "g", "t", "ay", "(y)", "a{sy}"])]
        if t[0] == "v" and wg.erased(t[1]) in by_sig:
            srcs.append(r.choice(by_sig[wg.erased(t[1])]))            # the variant's content, bare
        # near misses: for a tuple of arity n the arities n+1 (first n fields the same, then a u8 / the last field again) and n-1 (without
        # the last / the first field), then one changed field; containers around a near miss of their content. Written through the typed
        # API when a catalogue or marshal-only type has that signature, otherwise through the dynamic API (push_old_param of the tree): a
        # near miss always finds a body
        for nm in wg.near_misses(t)[:5 if T in tuples else 2]:
            s = wg.erased(nm)
            if s in by_sig:
                srcs.append(r.choice(by_sig[s]))
            elif s in monly_by_sig:
                srcs.append(r.choice(monly_by_sig[s]))
            elif typed_variants_only(nm) and wg.sig_valid(nm) and not wg.forbidden_variant_content(nm):
                srcs.append(nm)
        srcs += by_sig.get(wg.erased(t), [])[:3]                       # same D-Bus type (variants may hold something else)
        for S in srcs:
            if isinstance(S, tuple):
                pairs.append((wg.erased(S), T, r.choice(["le", "be"]), r.choice(PLACES), S))
            else:
                pairs.append((S, T, r.choice(["le", "be"]), r.choice(PLACES), None))
    first = []
    for S, T, bo, place, tree in pairs:
        toks, _ = wg.gen_value(r, tree if tree else wg.parse_ext(S))
        if tree:
            first.append("%s %s 0 %s" % (r.choice(["MP", "MPR", "MPX"]), bo, " ".join(toks)))
            ctx.count("request:written through the dynamic API")
        else:
            first.append("MT %s %s 0 %s" % (S, bo, " ".join(toks)))
        tt = wg.parse_ext(T)
        ssig = wg.erased(tree if tree else wg.parse_ext(S))
        if tt[0] == "r" and ssig.startswith(wg.erased(tt)[:-1]) and len(ssig) > len(wg.erased(tt)):
            ctx.count("request:tuple of arity %d asked on a longer tuple with the same first fields" % len(tt[1]))
    ok, out1, err = vlib.par_run_lines(exe, [], first, robust=True)
    if not ok:
        ctx.tie_broken("wire harness crashed (requests stream)", err)
        return 0
    second = []
    for (S, T, bo, place, _), o in zip(pairs, out1):
        f = fields(o)
        second.append("GT%s %s %s 0 %s %s" % (place, T, bo, f.get("sig", "-"), f.get("buf", "-")) if f["res"] == "ok" else "CAT")
    ok, out2, err = vlib.par_run_lines(exe, [], second, robust=True)
    if not ok:
        ctx.tie_broken("wire harness crashed (requests stream)", err)
        return 0
    n = 0
    for (S, T, bo, place, _), l1, o1, l2, o2 in zip(pairs, first, out1, second, out2):
        if l2 == "CAT":
            continue
        n += 1
        same_type = wg.plain_name(S) == wg.plain_name(T)
        same_sig = wg.erased(wg.parse_ext(S)) == wg.erased(wg.parse_ext(T))
        ctx.case(("request", l2), nontrivial=True, sample={"written": l1[:120], "asked": l2[:120], "got": o2[:120]} if n % 499 == 1 else None)
        ctx.count("request:" + ("same type, other flavour" if same_type else "same signature, other variant content" if same_sig else "other signature"))
        parts = o2.split(" ")
        res = parts[0]
        info = dict(p.split("=", 1) for p in parts if "=" in p and p.split("=")[0] in ("before", "left"))
        val = " ".join(p for p in parts[1:] if not (p.startswith("before=") or p.startswith("left=")))
        why = None
        if res not in ("ok", "wrongsig", "err", "end"):
            why = "get::<T>() did not return a value or an error (%s)" % o2[:60]
        elif same_type:
            if res != "ok" or wg.canon(val) != wg.canon(fields(o1).get("val", "")) or info.get("left") != "0":
                why = "a value written as one Rust type could not be read back as another Rust type of the same D-Bus type"
        elif res == "ok" and not (same_sig and wg.canon(val) == wg.canon(fields(o1).get("val", "")) and info.get("left") == "0"):
            # (same signature, other variant contents: fine as long as no variant is in the value - an empty array of variants)
            why = "get::<T>() returned a value from a body that holds another type"
        elif not same_sig and (res != "wrongsig" or info.get("left") != info.get("before")):
            why = "asking for a type that does not match the body's signature is not answered with WrongSignature / consumes something"
        if why:
            ctx.disagreements_checked += 1
            ctx.violation(why, {"line": l2, "written": l1, "impl": o2, "stream": "requests"})
    return n


def replay(ctx, body):
    d = body["data"]
    exe = vlib.harness_build(["wire"])["wire"]
    line = d["line"]
    if d.get("stream") == "requests":
        _, out, _ = vlib.run_lines(exe, [], [line])
        print("written:", d["written"][:300])
        print("asked  :", line[:300])
        print("now    :", out[0][:300])
        print("then   :", d["impl"][:300])
        print("REPRODUCED" if out[0] == d["impl"] else "not reproduced")
        return 1 if out[0] == d["impl"] else 0
    if d.get("stream") == "giant":
        _, out, _ = vlib.run_lines(exe, [], [line])
        print("case:", line)
        print("now :", out[0][:300])
        print("then:", d["impl"])
        f = fields(out[0])
        bad = not (f["res"] == "ok" and f.get("validate") == "true" and f.get("trailer") == "ok" and f.get("left") == "0" and f.get("same") == "true")
        print("REPRODUCED" if bad else "not reproduced")
        return 1 if bad else 0
    if "...(" in line and d.get("stream") == "big":
        # the line was too long to store: regenerate the big stream from the seed and take the one with this beginning
        head = line.split(" ...(")[0]
        cands = [l for l in (line_of(c) for c in plan(vlib.Ctx("C01", body.get("tier", "quick"), int(body["seed"])), body.get("tier") == "thorough")
                             if c["stream"] == "big") if l.startswith(head)]
        if not cands:
            print("could not regenerate the case from the seed")
            return 2
        line = cands[0]
    _, out, _ = vlib.run_lines(exe, [], [line])
    print("case:", line[:300])
    print("impl:", out[0][:300])
    f = fields(out[0])
    bad = not (f["res"] == "ok" and f.get("validate") == "true" and f.get("trailer") == "ok" and f.get("left") == "0" and f.get("same") == "true")
    print("REPRODUCED" if bad else "not reproduced")
    return 1 if bad else 0
