"""C04 - no input bytes can crash, hang or exhaust a decoder.

Every decoding entry point of the real crate runs on hostile inputs inside worker processes that the harness
supervises (harness/src/bin/c04.rs: 256 KiB decoding stack, 1 GiB address space, 10 s deadline per case, wrapping
allocator), on the optimised AND the debug-assertion build, with the buffer at all 8 memory phases:

  VR validate_raw, UP Param decoder, UT typed decoder for all catalogue types + borrowed / derived / macro types,
  BP MessageBodyParser::{get, get2..5, get_param, get_next_sig, sigs_left}, MarshalledMessageBody::validate,
     MarshalledMessage::unmarshall_all on a body made with from_parts (signature valid, requested type arbitrary),
  HD unmarshal_header / unmarshal_dynamic_header / unmarshal_next_message as get_next_message calls them.

Inputs: valid encodings from the extracted SPECIFICATION encoder and their single-fault corruptions, signature/type
mismatches, nesting bombs, length bombs, random bytes, corrupted headers.

Property predicate (independent of any model): outcome in {ok, err}; peak heap use during the call
<= K * input length + 64 KiB (K = 32 for validation and the typed decoders, 4 * size_of::<Param>() for the Param
decoders); wall time below the deadline.  Where an extracted model exists (coq/Wire/Decode.v, Unmarshal.v through
ocaml/wire) its ok/err verdict and consumed length are compared as the tie for the theorems in Properties/C04.v.
"""
import glob
import os
import struct

import vlib
import wiregen as wg

K_TYPED = 32
SLACK = 64 * 1024
MAXA = 1 << 26
MAXM = 1 << 27
CRASH = ("panic", "ub", "timeout", "abort", "overflow", "oom", "signal", "died")

# types defined in the harness binary: name -> (D-Bus signature, extended signatures whose encodings they accept)
EXTRA = {
    "&[u8]": ("ay", ["ay"]), "&str": ("s", ["s"]), "Cow[u8]": ("ay", ["ay"]), "Cow[u16]": ("aq", ["aq"]),
    "Cow[u32]": ("au", ["au"]), "Cow[u64]": ("at", ["at"]), "Cow[i64]": ("ax", ["ax"]), "Cow[bool]": ("ab", ["ab"]),
    "Cow[String]": ("as", ["as"]), "ObjectPath<&str>": ("o", ["o"]), "SigWrap<&str>": ("g", ["g"]),
    "Variant": ("v", ["v[y]", "v[s]", "v[a{sv[u]}]", "v[(yt)]"]), "ParamVariant": ("v", ["v[y]", "v[as]", "v[(yv[t])]"]),
    "DS1": ("(ys)", ["(ys)"]), "DS2": ("(t(ys)au)", ["(t(ys)au)"]), "DS3": ("(a{s(ys)}(yt)v)", ["(a{s(ys)}(yt)v[y])", "(a{s(ys)}(yt)v[(su)])"]),
    "DE1": ("v", ["v[y]", "v[(su)]", "v[(tay)]", "v[a(ys)]", "v[t]"]),
    "DE2": ("v", ["v[s]", "v[(uu)]", "v[(a{su}a(ys))]", "v[(ys)]", "v[y]"]),
    "MS2": ("v", ["v[y]", "v[at]", "v[a{us}]", "v[b]", "v[s]"]), "MV2": ("v", ["v[t]", "v[as]", "v[(uus)]", "v[y]"]), "DRec": ("v", ["v[y]", "v[av[y]]", "v[av[av[y]]]"]),
    "MS1": ("v", ["v[u]", "v[s]", "v[a{s(iy(ts))}]", "v[(uus)]", "v[t]"]), "MSRec": ("v", ["v[y]", "v[av[y]]"]),
    "MV1": ("v", ["v[s]", "v[i]", "v[o]", "v[ay]", "v[(uus)]", "v[t]"]), "Vec<DS1>": ("a(ys)", ["a(ys)"]),
    "Vec<DE1>": ("av", ["av[y]", "av[(su)]"]), "Vec<MV1>": ("av", ["av[s]", "av[i]"]), "(DS1,MS1)": ("((ys)v)", ["((ys)v[u])", "((ys)v[s])"]),
    "Vec<Variant>": ("av", ["av[y]", "av[s]"]), "HashMap<String,Variant>": ("a{sv}", ["a{sv[u]}", "a{sv[s]}"]),
}
# user types that contain themselves: the known finding D21 (typed decoders do not count nesting)
SELF_REF = ("DRec", "MSRec")
PARAM_OPS = ("UP", "BP param", "BP all")
# catalogue types the harness binary can dispatch (harness/src/bin/c04_dispatch.inc is generated from gen/catalogue.txt by
# gen/c04_dispatch.py; when the catalogue grows before the dispatch is regenerated the new types are left out, and counted)
KNOWN_TYPES = set()


# ----------------------------------------------------------------------------- results
class Res:
    def __init__(self, line):
        parts = line.split(" ")
        self.raw = line
        self.status = parts[0]
        self.f = {}
        for p in parts[1:]:
            if "=" in p:
                k, v = p.split("=", 1)
                self.f[k] = v

    def num(self, k, default=0):
        try:
            return int(self.f.get(k, default))
        except ValueError:
            return default


class Case:
    """one harness line plus what the check knows about it"""

    def __init__(self, kind, line, inlen, model=None, expect=None, selfref_depth=None, note=None, sigvalid=True, model_cmp="direct"):
        self.kind = kind            # generator class, for the histogram
        self.line = line
        self.inlen = inlen          # bytes handed to the decoder
        self.model = model          # line for the extracted model (ocaml/wire/driver) or None
        self.expect = expect        # verdict the specification of the case demands ("ok"/"err") or None
        self.selfref_depth = selfref_depth
        self.note = note
        self.sigvalid = sigvalid
        self.model_cmp = model_cmp  # how the model line's verdict translates: direct | bp_param | bp_validate | bp_all | bp_get

    @property
    def op(self):
        p = self.line.split(" ")
        return p[0] + " " + p[1] if p[0] == "BP" else p[0]


SOCKS = os.path.join(vlib.SCRATCH, "c04_socks")


def clean_socks():
    """socket directories of killed workers (harness/src/conn.rs: <VERIF_SCRATCH>/sock_<pid>): remove those whose process is gone"""
    import shutil
    for base, pat in ((SOCKS, "sock_"),):
        if not os.path.isdir(base):
            continue
        for d in os.listdir(base):
            if d.startswith(pat) and d[len(pat):].isdigit() and not os.path.exists("/proc/" + d[len(pat):]):
                shutil.rmtree(os.path.join(base, d), ignore_errors=True)


def run_impl(exe, lines, timeout=1500):
    os.makedirs(SOCKS, exist_ok=True)
    ok, outs, err = vlib.par_run_lines(exe, ["run"], lines, timeout=timeout, env={"VERIF_SCRATCH": SOCKS})
    if not ok:
        raise vlib.BrokenTie("c04 harness supervisor failed (the supervisor itself must never die)", err)
    res = [Res(o) for o in outs]
    # a time-out (10 s) or a case slower than 9 s may be the machine, not the decoder (the largest cases validate 2^26 bytes
    # element by element on the debug build): such a case only counts after it was re-run alone with three times the deadline
    slow = [i for i, r in enumerate(res) if r.status == "timeout" or r.num("us") > 9_000_000]
    again = 0
    for i in slow[:8]:
        rc, o, _ = vlib.run_lines(exe, ["run"], [lines[i]], timeout=200, env={"C04_DEADLINE_MS": "30000", "VERIF_SCRATCH": SOCKS})
        r2 = Res(o[0]) if o else Res("died msg=no_output")
        r2.f["retried_alone"] = "1"
        r2.raw += " retried_alone=1 first=%s" % res[i].status
        if r2.status == "timeout":
            again += 1
        res[i] = r2
        if again >= 3:
            break               # it is the decoder: the remaining time-outs stand as they are
    return res


def model_status(line):
    """ocaml/wire/driver output -> (status, used)"""
    p = line.split(" ")
    if p[0] == "ok":
        return "ok", int(p[1])
    return p[0], None


K_TYPED_BIG = 12
BIG = 256 * 1024


def is_param_case(case):
    if case.op == "SC":
        return case.line.split(" ")[1] in ("up", "bpparam", "bpall", "hd")
    return case.op in PARAM_OPS or case.line.startswith("UT ParamVariant") or case.op in ("HD", "RXM")


def alloc_bound(case, param_size):
    """small inputs: K*len + 64 KiB (the slack dominates); from 256 KiB on the bound is relative: the typed decoders and validation
    may use 12 x the input (a Vec<String> of 8-byte elements needs 3 x for the elements and 3 x that while it grows), the Param
    decoders 4 x size_of::<Param>() per input byte"""
    if is_param_case(case):
        k = 4 * param_size
    else:
        k = K_TYPED if case.inlen < BIG else K_TYPED_BIG
    return k * case.inlen + SLACK


def judge(ctx, case, res, build, param_size):
    """the property predicate on the implementation's own output. Returns (why, is_known)"""
    if res.status in CRASH:
        what = "%s [%s build]: %s instead of a value or an error (%s)" % (case.op, build, res.status, res.raw[:160])
        if (case.selfref_depth or 0) > 64 and res.status == "overflow":
            return what, True         # D21: the stack overflow of the uncounted recursion; any other failure there is a violation
        if res.status == "panic" and not case.sigvalid:
            return None, False        # from_parts with a signature that never passed validation: programmer input, excluded
        return what, False
    if res.status not in ("ok", "err"):
        return "%s [%s build]: harness could not run the case (%s)" % (case.op, build, res.raw[:160]), False
    peak = res.num("peak")
    if peak > alloc_bound(case, param_size):
        return "%s [%s build]: peak heap use %d bytes for %d input bytes (bound %d)" % (case.op, build, peak, case.inlen, alloc_bound(case, param_size)), False
    if res.num("us") > (27_000_000 if res.f.get("retried_alone") else 9_000_000):
        return "%s [%s build]: %d us for %d input bytes" % (case.op, build, res.num("us"), case.inlen), False
    if case.op == "HB":
        # the length the header announces is reported by the harness; the limits decide the verdict
        each = int(case.line.split(" ")[3])
        want = "ok" if res.num("hfl") <= MAXA and each <= MAXA else "err"
        if res.status != want:
            return "HB [%s build]: %s for a header field array of %d bytes holding arrays of %d bytes (all present)" % (build, res.status, res.num("hfl"), each), False
    if case.expect and res.status != case.expect:
        return "%s [%s build]: %s, the case demands %s (%s)" % (case.op, build, res.status, case.expect, case.note or case.kind), False
    return None, False


# ----------------------------------------------------------------------------- byte-level builders
def hx(b):
    return b.hex() if b else "-"


def nested_variants(n):
    """n variants in each other around the byte 7"""
    return b"\x01v\x00" * n + b"\x01y\x00\x07"


def nested_av(n, bo="le"):
    """n levels of [variant holding an array of variants] around a variant holding the byte 7 (8n + 4 bytes)"""
    fmt = "<I" if bo == "le" else ">I"
    total = 8 * n + 4
    out = b""
    for i in range(n):
        out += b"\x02av\x00" + struct.pack(fmt, total - 8 * (i + 1))
    return out + b"\x01y\x00\x07"


def chain_sigs(levels):
    """levels: string over v (variant), a (array), s (struct), d (dict a{y..}), outermost first, around one byte.
    Returns the signature of the value below each level (index i: what level i holds) and of the whole value"""
    inner = []
    sig = "y"
    for k in reversed(levels):
        inner.append(sig)
        sig = {"v": "v", "a": "a" + sig, "s": "(" + sig + ")", "d": "a{y" + sig + "}"}[k]
    inner.reverse()
    return inner, sig


def chain_bytes(levels, bo="le", off=0):
    """the encoding, by the wire format's rules (written here, independent of the extracted encoder: that one is compared through
    the model lines), of single-child containers in each other around the byte 7, starting at a position = off (mod 8).
    Every container ends where the whole value ends, so a length is (end - start of its elements)."""
    inner, _ = chain_sigs(levels)
    out = bytearray()
    fix = []

    def align(a):
        out.extend(b"\x00" * ((-(off + len(out))) % a))

    def align_of(sig):
        return {"y": 1, "v": 1, "a": 4, "(": 8}[sig[0]]
    for k, sg in zip(levels, inner):
        if k == "v":
            b = sg.encode()
            out.extend(bytes([len(b)]) + b + b"\x00")
        elif k == "s":
            align(8)
        else:
            align(4)
            at = len(out)
            out.extend(b"\x00\x00\x00\x00")
            if k == "d":
                align(8)
                fix.append((at, len(out)))
                out.append(3)                    # the key
            else:
                align(align_of(sg))
                fix.append((at, len(out)))
        align(align_of(sg))                  # the child (a dict's value comes after the key byte)
    out.append(7)
    for at, start in fix:
        out[at:at + 4] = u32(bo, len(out) - start)
    return bytes(out)


def chain_levels(pattern, n):
    """n levels cycling through the pattern (which holds a variant often enough for every signature to stay within 32/32)"""
    return "".join(pattern[i % len(pattern)] for i in range(n))


def u32(bo, n):
    return struct.pack("<I" if bo == "le" else ">I", n)


def pad(b, a):
    return b + b"\x00" * ((-len(b)) % a)


def header_bytes(bo, body_sig, body, typ=1, serial=7, fields=None, body_len=None, hfl=None, extra=b""):
    """a message as the specification lays it out; fields: list of (code, sigchar, raw value bytes already aligned for pos%8==4.. )"""
    fl = b""
    items = list(fields if fields is not None else [(1, "o", b"/a/b"), (3, "s", b"Member"), (2, "s", b"io.verif.I")])
    if body_sig:
        items.append((8, "g", body_sig if isinstance(body_sig, bytes) else body_sig.encode()))
    for code, sc, val in items:
        fl = pad(fl, 8)
        fl += bytes([code, 1, ord(sc), 0])
        if sc in "so":
            fl += u32(bo, len(val)) + val + b"\x00"
        elif sc == "g":
            fl += bytes([len(val) % 256]) + val + b"\x00"
        elif sc == "u":
            fl += u32(bo, int.from_bytes(val, "little"))
        elif sc == "v":      # raw: val is signature byte string + value bytes, caller aligned
            fl = fl[:-3] + val
    fl += extra
    h = bytes([ord("l") if bo == "le" else ord("B"), typ, 0, 1]) + u32(bo, len(body) if body_len is None else body_len) + u32(bo, serial)
    h += u32(bo, len(fl) if hfl is None else hfl) + fl
    return pad(h, 8) + body


# ----------------------------------------------------------------------------- generators
def spec_encode(drv, jobs):
    """jobs: list of (bo, pos, tokens) -> list of (bytes, encodable)"""
    from checks.c02 import fields
    ok, out, err = vlib.par_run_lines(drv, [], ["SE %s %d %s" % (bo, pos, " ".join(t)) for bo, pos, t in jobs])
    if not ok:
        raise vlib.BrokenTie("extracted specification encoder crashed", err)
    res = []
    for o in out:
        f = fields("x " + o)
        res.append((bytes.fromhex(f["spec"]) if f["spec"] != "-" else b"", f.get("encodable") == "true"))
    return res


def direct_cases(kind, ty, t, bo, off, nfds, data, phase, expect=None, typed_name=None, expect_typed=None):
    """VR / UP / UT on the same bytes; the model lines use the wire driver's syntax. `expect` is for the two dynamic
    decoders, `expect_typed` for the typed one"""
    sig = wg.erased(t)
    h = hx(data)
    n = len(data)
    out = [
        Case(kind, "VR %s %d %d %s %s" % (bo, phase, off, sig, h), n, model="VR %s %d %s %s" % (bo, off, sig, h), expect=expect),
        Case(kind, "UP %s %d %d %d %s %s" % (bo, (phase + 3) % 8, off, nfds, sig, h), n, model="UP %s %d %d %s %s" % (bo, off, nfds, sig, h), expect=expect),
    ]
    if typed_name or ty:
        out.append(Case(kind, "UT %s %s %d %d %d %s" % (typed_name or ty, bo, (phase + 5) % 8, off, nfds, h), n,
                        model=("UT %s %s %d %d 0 %s" % (ty, bo, off, nfds, h)) if ty and not typed_name else None, expect=expect_typed))
    return out


def split_sig(sig):
    """the complete types of a (valid) signature, or None"""
    out = []
    rest = sig
    try:
        while rest:
            _, r2 = wg._parse(rest)
            out.append(rest[:len(rest) - len(r2)])
            rest = r2
    except Exception:
        return None
    return out


def body_cases(kind, ty, sig, bo, nfds, data, phase, modes, expect=None, sigvalid=True, expect_get=None, cat=None):
    """`expect` is for param / validate / all, `expect_get` for the typed get. The body parser's verdicts follow from the decoder
    models on the same bytes at offset 0 (MarshalledMessageBody::validate and unmarshall_all demand that every byte is used)"""
    h = hx(data)
    out = []
    types = split_sig(sig) if sig else []
    for i, m in enumerate(modes):
        c = Case(kind, "BP %s %s %s %d %d %s %s" % (m, ty, bo, (phase + i) % 8, nfds, sig or "-", h), len(data),
                 expect=expect_get if m.startswith("get") else expect, sigvalid=sigvalid)
        if sigvalid and types is not None and len(h) < 4000:
            if not sig:
                want = {"param": "ok", "validate": "ok" if not data else "err", "all": "ok" if not data else "err", "get": "err"}.get(m)
                if want and c.expect is None:
                    c.expect = want
            elif m == "param":
                c.model, c.model_cmp = "UP %s 0 %d %s %s" % (bo, nfds, sig, h), "bp_param"
            elif m == "validate":
                c.model, c.model_cmp = "VR %s 0 %s %s" % (bo, sig, h), "bp_validate"
            elif m == "all":
                c.model, c.model_cmp = "UP %s 0 %d %s %s" % (bo, nfds, sig, h), "bp_all"
            elif m == "get" and cat is not None and ty in cat:
                if wg.erased(wg.parse_ext(ty)) != types[0]:
                    if c.expect is None:
                        c.expect = "err"            # has_sig: the requested type is not the next type of the signature
                else:
                    c.model, c.model_cmp = "UT %s %s 0 %d 0 %s" % (ty, bo, nfds, h), "bp_get"
        out.append(c)
    return out


def sig_variants(r, t, cat):
    """valid body signatures related to a type: its own, with a field more / less, another type's, concatenations"""
    own = wg.erased(t)
    other = wg.erased(wg.parse_ext(r.choice(cat)))
    out = [own, own + "y", "y" + own, own + own, other, other + own, "a" + own if own.count("a") < 20 else own, ""]
    if t[0] == "r":
        f = [wg.erased(x) for x in t[1]]
        out.append("(" + "".join(f) + "y)")
        if len(f) > 1:
            out.append("(" + "".join(f[:-1]) + ")")
            out.append("(" + "".join(reversed(f)) + ")")
    if t[0] == "a":
        out.append(wg.erased(t[1]))
        out.append("a(" + wg.erased(t[1]) + ")")
    if t[0] == "e":
        out.append("a(" + t[1] + wg.erased(t[2]) + ")")
        out.append("a{" + t[1] + "v}")
    return out


class Gen:
    """shared state of the generators: rng, catalogue, the memory-phase counter that cycles over all case lines"""

    def __init__(self, ctx, drv, thorough, name="c04"):
        self.ctx = ctx
        self.drv = drv
        self.thorough = thorough
        self.r = ctx.sub_rng(name)
        full = wg.catalogue()
        self.cat = [t for t in full if t in KNOWN_TYPES] if KNOWN_TYPES else full
        ctx.extra["catalogue_types_not_in_dispatch"] = len(full) - len(self.cat)
        if 2 * len(self.cat) < len(full):
            ctx.tie_broken("the C04 harness knows fewer than half of the catalogue types: regenerate harness/src/bin/c04_dispatch.inc with gen/c04_dispatch.py",
                           "%d of %d" % (len(self.cat), len(full)))
        self.names = list(self.cat) + list(EXTRA)
        self.catset = set(self.cat)
        self.n = 0

    def phase(self):
        self.n += 1
        return self.n % 8


def gen_cases(ctx, drv, thorough):
    g = Gen(ctx, drv, thorough)
    return gen_valid(g) + gen_mismatch(g) + gen_nesting(g) + gen_length(g) + gen_random(g) + gen_header(g) + gen_scaling(g)


def gen_valid(g):
    ctx, drv, thorough, r, cat, names, phase = g.ctx, g.drv, g.thorough, g.r, g.cat, g.names, g.phase
    cases = []
    # ---- A: valid encodings of catalogue and extra types and their single-fault corruptions
    jobs, meta = [], []
    per_type = 12 if thorough else 3
    for ty in cat:
        t = wg.parse_ext(ty)
        for i in range(per_type):
            bo = r.choice(["le", "be"])
            off = 0 if (i + len(jobs)) % 2 == 0 else r.randrange(16)
            toks = wg.renumber_fds(wg.gen_value(r, t)[0], 3)
            jobs.append((bo, off, toks))
            meta.append((ty, None, t, bo, off))
    for name, (sig, exts) in EXTRA.items():
        for e in exts:
            t = wg.parse_ext(e)
            bo = r.choice(["le", "be"])
            toks = wg.renumber_fds(wg.gen_value(r, t)[0], 3)
            jobs.append((bo, 0, toks))
            meta.append((None, name, t, bo, 0))
    encs = spec_encode(drv, jobs)
    for (ty, name, t, bo, off), (enc, encodable) in zip(meta, encs):
        if not encodable:
            continue
        nf = 3 if wg.count_leaves(t, "h") else 0
        pre = bytes((7 * i + 3) % 251 for i in range(off))
        inputs = [("valid", pre + enc, "ok")]
        for kind, cb in wg.corruptions(r, enc, limit=16 if thorough else 8):
            inputs.append(("corrupt:" + kind.split("@")[0], pre + cb, None))
        for kind, data, expect in inputs:
            cases += direct_cases(kind, ty, t, bo, off, nf, data, phase(), expect=expect, typed_name=name, expect_typed=expect if ty else None)
            if off == 0:
                sig = wg.erased(t)
                modes = ["get", "param", "validate", "all"] if kind == "valid" or r.random() < 0.5 else ["get"]
                cases += body_cases(kind, name or ty, sig, bo, nf, data, phase(), modes, expect=expect, expect_get=expect if ty else None, cat=g.catset)
    return cases


def gen_mismatch(g):
    ctx, drv, thorough, r, cat, names, phase = g.ctx, g.drv, g.thorough, g.r, g.cat, g.names, g.phase
    cases = []
    # the slice fast path at every memory phase: arrays of fixed-width elements, both byte orders, with and without padding
    # between length and first element, requested as Cow<[E]> (borrowed when aligned in memory), &[u8], Vec<E>
    for name, sig, size in (("Cow[u8]", "ay", 1), ("&[u8]", "ay", 1), ("Cow[u16]", "aq", 2), ("Cow[u32]", "au", 4), ("Cow[u64]", "at", 8),
                            ("Cow[i64]", "ax", 8), ("at", "at", 8), ("ad", "ad", 8), ("aq", "aq", 2), ("ai", "ai", 4), ("ax", "ax", 8)):
        for bo in ("le", "be"):
            for off in (0, 4):
                content = bytes((17 * i + 1) % 256 for i in range(2 * size))
                enc = u32(bo, len(content))
                enc += b"\x00" * ((-(off + len(enc))) % size)
                enc += content
                data = bytes([0xEE] * off) + enc
                for ph in range(8):
                    cases.append(Case("valid", "UT %s %s %d %d 0 %s" % (name, bo, ph, off, hx(data)), len(data), expect="ok",
                                      model=("UT %s %s %d 0 0 %s" % (name, bo, off, hx(data))) if name in cat else None, note="slice matrix"))
                    if off == 0:
                        cases += body_cases("valid", name, sig, bo, 0, data, ph, ["get"], expect="ok", expect_get="ok")

    # ---- B: the requested type does not fit the body signature (which is valid): every type against related signatures
    for ty in names:
        t = wg.parse_ext(ty) if ty in cat else wg.parse_ext(EXTRA[ty][1][0])
        sigs = sig_variants(r, t, cat)
        for sig in sigs:
            bo = r.choice(["le", "be"])
            data = bytes(r.choice([0, 0, 0, 1, 4, 8, r.randrange(256)]) for _ in range(r.choice([0, 4, 8, 16, 24])))
            mode = r.choice(["get", "get", "get2", "get3", "get4", "get5"])
            cases += body_cases("mismatch", ty, sig, bo, 1, data, phase(), [mode], cat=g.catset)
    # a valid encoding of S read as T, for pairs of catalogue types
    pair_jobs, pair_meta = [], []
    for _ in range(5000 if thorough else 600):
        a, b = r.choice(cat), r.choice(names)
        ta = wg.parse_ext(a)
        bo = r.choice(["le", "be"])
        pair_jobs.append((bo, 0, wg.renumber_fds(wg.gen_value(r, ta)[0], 3)))
        pair_meta.append((a, b, ta, bo))
    for (a, b, ta, bo), (enc, encodable) in zip(pair_meta, spec_encode(drv, pair_jobs)):
        if encodable:
            cases += body_cases("pair", b, wg.erased(ta), bo, 3, enc, phase(), ["get", r.choice(["get2", "get3"])], cat=g.catset)
            cases.append(Case("pair", "UT %s %s %d 0 3 %s" % (b, bo, phase(), hx(enc)), len(enc),
                              model=("UT %s %s 0 3 0 %s" % (b, bo, hx(enc))) if b in cat else None))
    return cases


def gen_nesting(g):
    ctx, drv, thorough, r, cat, names, phase = g.ctx, g.drv, g.thorough, g.r, g.cat, g.names, g.phase
    cases = []
    # ---- C: nesting bombs
    depths = [10, 60, 61, 62, 63, 64, 65, 66, 100, 1000, 20000] + ([100000] if thorough else [])
    for n in depths:
        data = nested_variants(n)
        h = hx(data)
        small = n <= 20000
        exp = "ok" if n + 1 <= 64 else "err"       # the innermost `01 y 00 07` is a variant as well
        ph = phase()
        cases.append(Case("bomb:variants", "VR le %d 0 v %s" % (ph, h), len(data), model="VR le 0 v %s" % h if small else None, expect=exp, note="%d nested variants" % n))
        cases.append(Case("bomb:variants", "UP le %d 0 0 v %s" % (ph, h), len(data), model="UP le 0 0 v %s" % h if small else None, expect=exp, note="%d nested variants" % n))
        for ty in ("Variant", "ParamVariant", "MS1", "MV1", "Vec<Variant>", "DE1", "v[y]", "v[v[y]]"):
            want = exp if ty in ("Variant", "ParamVariant", "MS1", "MV1") else None
            cases.append(Case("bomb:variants", "UT %s le %d 0 0 %s" % (ty, phase(), h), len(data), expect=want, note="%d nested variants" % n))
        cases += body_cases("bomb:variants", "Variant", "v", "le", 0, data, phase(), ["get", "param", "validate", "all"], expect=exp, expect_get=exp)
        # the same body inside a whole message
        cases.append(Case("bomb:variants", "HD %d %s" % (phase(), hx(header_bytes("le", "v", data))), len(data) + 80,
                          expect="ok", note="%d nested variants as message body: header decoding does not look into the body" % n))
    for n in [1, 10, 31, 32, 33, 63, 64, 65, 100, 1000, 5000] + ([20000] if thorough else []):
        for bo in ("le", "be"):
            data = nested_av(n, bo)
            h = hx(data)
            # 2 containers per level + the last variant
            exp = "ok" if 2 * n + 1 <= 64 else "err"
            cases.append(Case("bomb:av", "VR %s %d 0 v %s" % (bo, phase(), h), len(data), model="VR %s 0 v %s" % (bo, h), expect=exp, note="%d levels of variant-array" % n))
            cases.append(Case("bomb:av", "UP %s %d 0 0 v %s" % (bo, phase(), h), len(data), model="UP %s 0 0 v %s" % (bo, h), expect=exp))
            cases += body_cases("bomb:av", "Variant", "v", bo, 0, data, phase(), ["get", "param", "validate"], expect=exp, expect_get=exp)
            for ty in ("Variant", "ParamVariant", "MS1", "MV1", "Vec<Variant>", "HashMap<String,Variant>", "DE1"):
                cases.append(Case("bomb:av", "UT %s %s %d 0 0 %s" % (ty, bo, phase(), h), len(data)))
            for ty in SELF_REF:
                cases.append(Case("bomb:selfref", "UT %s %s %d 0 0 %s" % (ty, bo, phase(), h), len(data), selfref_depth=2 * n + 1,
                                  note="self-referential user type, %d levels" % n))
                cases += [Case("bomb:selfref", c.line, c.inlen, selfref_depth=2 * n + 1) for c in body_cases("bomb:selfref", ty, "v", bo, 0, data, phase(), ["get"])]
    # deep signatures near the 32/32 limits inside variants: rounds of [variant, s structs, a arrays]
    shape_jobs, shape_meta = [], []
    for (rounds, s, a) in [(1, 32, 0), (1, 0, 32), (1, 31, 31), (1, 32, 31), (2, 15, 15), (2, 16, 15), (2, 16, 16), (2, 31, 0), (3, 10, 10), (3, 11, 10), (4, 8, 7)]:
        toks = ["y", "7"]
        sig = "y"
        for _ in range(rounds):
            for _ in range(a):
                toks = ["a", sig, "1"] + toks
                sig = "a" + sig
            for _ in range(s):
                toks = ["r", "1"] + toks
                sig = "(" + sig + ")"
            toks = ["v", sig] + toks
            sig = "v"
        shape_jobs.append(("le", 0, toks))
        shape_meta.append((rounds, s, a, rounds * (1 + s + a)))
    for (rounds, s, a, depth), (enc, encodable) in zip(shape_meta, spec_encode(drv, shape_jobs)):
        exp = "ok" if depth <= 64 else "err"
        if (exp == "ok") != encodable:
            ctx.tie_broken("specification and the check disagree on the depth of a generated shape", str((rounds, s, a, depth, encodable)))
            continue
        h = hx(enc)
        note = "%d rounds of variant/%d structs/%d arrays = depth %d" % (rounds, s, a, depth)
        cases.append(Case("bomb:shape", "VR le %d 0 v %s" % (phase(), h), len(enc), model="VR le 0 v %s" % h, expect=exp, note=note))
        cases.append(Case("bomb:shape", "UP le %d 0 0 v %s" % (phase(), h), len(enc), model="UP le 0 0 v %s" % h, expect=exp, note=note))
        cases += body_cases("bomb:shape", "Variant", "v", "le", 0, enc, phase(), ["get", "param", "validate", "all"], expect=exp, expect_get=exp)
    cases += gen_chains(g)
    return cases


# level patterns (v variant, d dict a{y..}, a array, s struct), cycled: every kind of container next to every other, dict levels
# alone with variants, dicts of arrays, dicts in structs, runs of dicts / arrays / structs between two variants
CHAIN_PATTERNS = ["vd", "dv", "vda", "vsd", "vdd", "vads", "v" + "d" * 15, "v" + "a" * 7 + "d" * 7 + "s" * 7, "vdvs", "va", "vs"]
CHAIN_DEPTHS = [9, 62, 63, 64, 65, 66, 81, 127, 128, 1000]


def gen_chains(g):
    """single-child container chains of every level kind (dict levels included) around the 64 level limit and far beyond, through
    validate_raw, the Param decoder, the typed Variant / params::Variant, the body parser and validate / unmarshall_all"""
    cases = []
    phase = g.phase
    for pi, pat in enumerate(CHAIN_PATTERNS):
        for di, n in enumerate(CHAIN_DEPTHS + ([5000] if g.thorough else [])):
            lv = chain_levels(pat, n)
            bo = "le" if (pi + di) % 2 == 0 else "be"
            _, sig = chain_sigs(lv)
            data = chain_bytes(lv, bo)
            h = hx(data)
            exp = "ok" if n <= 64 else "err"
            note = "%d levels of pattern %s (%d dict levels)" % (n, pat if len(pat) < 12 else pat[:1] + "+runs", lv.count("d"))
            small = n <= 1000
            cases.append(Case("bomb:chain", "VR %s %d 0 %s %s" % (bo, phase(), sig, h), len(data), model="VR %s 0 %s %s" % (bo, sig, h) if small else None, expect=exp, note=note))
            cases.append(Case("bomb:chain", "UP %s %d 0 0 %s %s" % (bo, phase(), sig, h), len(data), model="UP %s 0 0 %s %s" % (bo, sig, h) if small else None, expect=exp, note=note))
            if sig == "v":
                for ty in ("Variant", "ParamVariant"):
                    cases.append(Case("bomb:chain", "UT %s %s %d 0 0 %s" % (ty, bo, phase(), h), len(data), expect=exp, note=note))
                for ty in ("MS1", "MV1", "DE1", "Vec<Variant>", "HashMap<String,Variant>"):
                    cases.append(Case("bomb:chain", "UT %s %s %d 0 0 %s" % (ty, bo, phase(), h), len(data), note=note))
            modes = ["get", "param", "validate", "all"] if sig == "v" else ["param", "validate", "all"]
            for c in body_cases("bomb:chain", "Variant", sig, bo, 0, data, phase(), modes, expect=exp, expect_get=exp):
                c.note = note
                cases.append(c)
            if sig == "v":
                cases.append(Case("bomb:chain", "HD %d %s" % (phase(), hx(header_bytes(bo, "v", data))), len(data) + 80, expect="ok",
                                  note=note + " as message body: header decoding does not look into the body"))
    return cases


def gen_length(g):
    ctx, drv, thorough, r, cat, names, phase = g.ctx, g.drv, g.thorough, g.r, g.cat, g.names, g.phase
    cases = []
    # ---- D: length bombs: a length field far beyond what follows
    bomb_types = ["ay", "at", "as", "a{sy}", "a(yt)", "aay", "s", "o", "(yay)", "a{yat}", "v[ay]", "av[y]", "ab", "ad"]
    for ty in bomb_types:
        t = wg.parse_ext(ty)
        sig = wg.erased(t)
        for L in (MAXA - 1, MAXA, MAXA + 1, 1 << 31, (1 << 32) - 1):
            for k in [0, 1, 4, 8, 32]:
                bo = r.choice(["le", "be"])
                head = {"(yay)": b"\x07\x00\x00\x00", "v[ay]": b"\x02ay\x00", "av[y]": b""}.get(ty, b"")
                data = head + u32(bo, L) + bytes(r.choice([0, 0, 7, 255]) for _ in range(k))
                exp = "err"      # never enough bytes for such a length
                cases += direct_cases("bomb:length", ty, t, bo, 0, 0, data, phase(), expect=exp, expect_typed=exp)
                cases += body_cases("bomb:length", ty, sig, bo, 0, data, phase(), ["get", "param", "validate"], expect=exp, expect_get=exp)
    # arrays whose content really is there: exactly 2^26 bytes are accepted, 2^26 + 8 refused by every decoder
    # (the Param / element-loop decoders only get the refused size: 2^26 elements as Param trees are gigabytes)
    for entry in ("vr:ay", "ut:ay", "ut:&[u8]", "ut:Cow[u8]", "vr:at", "ut:at", "ut:Cow[u64]", "vr:ab"):
        bo = "le" if entry != "vr:at" else "be"
        c = Case("bomb:present", "LB %s %s %d %d %d" % (entry, bo, phase(), MAXA, MAXA), MAXA + 8, expect="ok", note="array with exactly 2^26 bytes of content, all present")
        cases.append(c)
    # (the content must be a valid sequence of elements, so that only the length check can refuse it: strings of length 0
    # occupy 8 bytes each except the last (5), a{tt} entries 16 bytes)
    for entry in ("vr:ay", "up:ay", "ut:ay", "ut:&[u8]", "ut:Cow[u8]", "vr:at", "up:at", "ut:at", "ut:Cow[u64]", "vr:ab", "up:ab", "ut:ab",
                  "vr:as", "up:as", "ut:as", "vr:a{tt}", "up:a{tt}", "ut:a{tt}"):
        bo = r.choice(["le", "be"])
        over = MAXA + (5 if entry.endswith(":as") else 16 if entry.endswith("a{tt}") else 8)
        cases.append(Case("bomb:present", "LB %s %s %d %d %d" % (entry, bo, phase(), over, over), over + 8, expect="err",
                          note="array with 2^26+%d bytes of (valid) content, all present" % (over - MAXA)))
        for name in ("&[u8]", "Cow[u64]", "Cow[String]", "&str", "Vec<DS1>", "HashMap<String,Variant>"):
            data = u32("le", r.choice([MAXA + 1, (1 << 32) - 1])) + bytes(r.randrange(256) for _ in range(r.choice([0, 8, 32])))
            cases.append(Case("bomb:length", "UT %s le %d 0 0 %s" % (name, phase(), hx(data)), len(data), expect="err"))
    return cases


def gen_random(g):
    ctx, drv, thorough, r, cat, names, phase = g.ctx, g.drv, g.thorough, g.r, g.cat, g.names, g.phase
    cases = []
    # ---- E: random bytes under every type
    for _ in range(60000 if thorough else 6000):
        ty = r.choice(names)
        t = wg.parse_ext(ty) if ty in cat else wg.parse_ext(EXTRA[ty][1][0])
        off = r.choice([0, 0, 0, 1, 3, 4, 7])
        n = r.choice([0, 1, 4, 8, 12, 16, 24, 40, 64])
        data = bytes(r.choice([0, 0, 0, 1, 2, 4, 8, ord("a"), ord("y"), ord("v"), r.randrange(256)]) for _ in range(off + n))
        bo = r.choice(["le", "be"])
        cases += direct_cases("random", ty if ty in cat else None, t, bo, off, 2, data, phase(), typed_name=None if ty in cat else ty)
        if off == 0:
            cases += body_cases("random", ty, wg.erased(t) if ty in cat else EXTRA[ty][0], bo, 2, data, phase(), [r.choice(["get", "param", "validate", "all", "get2"])], cat=g.catset)
    return cases


def gen_header(g):
    ctx, drv, thorough, r, cat, names, phase = g.ctx, g.drv, g.thorough, g.r, g.cat, g.names, g.phase
    cases = []
    # ---- F: header entry points
    good = header_bytes("le", "ys", b"\x07\x00\x00\x00\x01\x00\x00\x00a\x00")
    cases.append(Case("header:valid", "HD 0 %s" % hx(good), len(good), expect="ok"))
    for bo in ("le", "be"):
        base = header_bytes(bo, "ay", u32(bo, 3) + b"abc", fields=[(1, "o", b"/p"), (3, "s", b"M"), (6, "s", b"a.b"), (5, "u", (9).to_bytes(4, "little"))] if bo == "be" else None)
        cases.append(Case("header:valid", "HD %d %s" % (phase(), hx(base)), len(base)))
        for kind, cb in wg.corruptions(r, base, limit=120 if thorough else 40):
            cases.append(Case("header:" + kind.split("@")[0], "HD %d %s" % (phase(), hx(cb)), len(cb)))
        for L in (MAXA - 1, MAXA, MAXA + 1, MAXM - 1, MAXM, MAXM + 1, (1 << 32) - 1):
            for k in (0, 7, 32):
                tail = bytes(r.randrange(256) for _ in range(k))
                cases.append(Case("header:lengthbomb", "HD %d %s" % (phase(), hx(header_bytes(bo, "", b"", hfl=L) + tail)), 16 + k, expect="err"))
                cases.append(Case("header:lengthbomb", "HD %d %s" % (phase(), hx(header_bytes(bo, "y", b"", body_len=L) + tail)), 64 + k, expect="err"))
        # an unknown header field whose value is a nesting bomb
        for n in (10, 60, 61, 62, 64, 65, 1000, 20000):
            val = nested_variants(n)
            m = header_bytes(bo, "", b"", fields=[(1, "o", b"/p"), (3, "s", b"M"), (77, "v", val)])
            cases.append(Case("header:bomb", "HD %d %s" % (phase(), hx(m)), len(m), expect="err" if n > 61 else None,
                              note="unknown header field holding %d nested variants (already 3 levels deep)" % n))
        # the same with every kind of level below the field's own variant (which is the chain's first level): the header's array
        # and struct are 2 levels more
        for pat in [p for p in CHAIN_PATTERNS if p[0] == "v"]:
            for n in (9, 60, 61, 62, 63, 64, 79, 125, 1000):
                lv = chain_levels(pat, n)
                m = header_bytes(bo, "", b"", fields=[(1, "o", b"/p"), (3, "s", b"M"), (77, "v", chain_bytes(lv, bo, off=1))])
                cases.append(Case("header:bomb", "HD %d %s" % (phase(), hx(m)), len(m), expect="ok" if n + 2 <= 64 else "err",
                                  note="unknown header field whose value has %d levels of pattern %s (%d dict levels), 2 more around it" % (
                                      n, pat if len(pat) < 12 else pat[:1] + "+runs", lv.count("d"))))
    # the body signature a receiver's parser works on is whatever the header decoder accepted: SIGNATURE fields that are invalid,
    # truncated, as long as the length byte allows, nested to and beyond the limits - the whole parser surface runs on every message
    # the library hands out, through the decoding functions (HD) and through get_next_message on a real connection (RXM)
    sig_cases = [b"(", b")", b"a", b"()", b"{sv}", b"a{vs}", b"a{s}", b"a{sv", b"(y", b"y)", b"z", b"yz", b"\xc3\x28", b"\xff", b"y\x00y",
                 b"y" * 255, b"y" * 254 + b"(", b"a" * 32 + b"y", b"a" * 33 + b"y", b"(" * 32 + b"y" + b")" * 32, b"(" * 33 + b"y" + b")" * 33,
                 b"a" * 32 + b"(" * 32 + b"y" + b")" * 32, b"a" * 255, b"(" * 255, b"a{sv}a{sv}(yv)", b"v", b"av", b"a(", b"aa{", b"(((y)))"]
    for bo in ("le", "be"):
        for sg in sig_cases:
            for body in (b"", b"\x07", bytes(r.choice([0, 0, 1, 7, r.randrange(256)]) for _ in range(r.choice([4, 8, 24])))):
                m = header_bytes(bo, sg, body)
                cases.append(Case("header:signature", "HD %d %s" % (phase(), hx(m)), len(m), note="body signature field %r" % sg[:40]))
                cases.append(Case("header:signature", "RXM %s" % hx(m), len(m), note="body signature field %r" % sg[:40]))
        # the signature field cut short by the end of the field array, and a length byte that runs past it
        whole = header_bytes(bo, b"a{sv}(yy)", b"")
        for cut in range(1, 12):
            m = header_bytes(bo, b"a{sv}(yy)", b"", hfl=len(whole) - 16 - cut)[:len(whole) - cut]
            m = pad(m, 8)
            cases.append(Case("header:signature", "HD %d %s" % (phase(), hx(m)), len(m), note="signature field truncated by %d" % cut))
    # every message with a non-empty body cut at EVERY byte position: inside the fixed header, the field array, the padding between
    # the fields and the body, and the body (the announced body_len stays > 0)
    for bo in ("le", "be"):
        for sg, body in (("y", b"\x07"), ("ys", b"\x07\x00\x00\x00" + u32(bo, 1) + b"a\x00"), ("ay", u32(bo, 3) + b"abc")):
            for flds in (None, [(1, "o", b"/a/b"), (3, "s", b"Member")], [(1, "o", b"/a"), (3, "s", b"M"), (6, "s", b"a.b")]):
                whole = header_bytes(bo, sg, body, fields=flds)
                for cut in range(len(whole)):
                    cases.append(Case("header:cut", "HD %d %s" % (phase(), hx(whole[:cut])), cut, note="message cut at byte %d of %d" % (cut, len(whole))))
    # header field arrays whose bytes are all there: just below / above 2^26 in total while every field is within the array limit
    for bo in ("le", "be"):
        for nf, each in ((2, 100), (2, (1 << 25) - 96), (2, (1 << 25) + 64), (1, MAXA - 64), (1, MAXA + 8)):
            cases.append(Case("header:bomb:present", "HB %s %d %d" % (bo, nf, each), nf * each + 64, note="%d unknown header fields of %d bytes" % (nf, each)))
    for _ in range(30000 if thorough else 3000):
        n = r.choice([0, 1, 8, 12, 15, 16, 17, 24, 40, 64, 120])
        data = bytearray(r.choice([0, 0, 1, 4, 8, r.randrange(256)]) for _ in range(n))
        if n >= 4 and r.random() < 0.8:
            data[0:4] = bytes([r.choice([108, 66]), r.choice([1, 2, 3, 4]), 0, 1])
        cases.append(Case("header:random", "HD %d %s" % (phase(), hx(bytes(data))), n))
    return cases


SCALING = [("vr", ["ay", "ab", "at", "as", "a{tt}", "av"]), ("up", ["ay", "ab", "at", "as", "a{tt}", "av"]),
           ("ut", ["ay", "ab", "at", "as", "a{tt}", "av"]), ("bpget", ["as", "ay", "a{tt}"]), ("bpparam", ["ay", "as", "av"]),
           ("bpall", ["ay", "as", "a{tt}"]), ("bpvalidate", ["as", "av", "ab"]), ("hd", ["as", "av", "a{tt}"])]


def gen_scaling(g):
    """valid arrays of n, 2n, 4n, 8n bytes of content through every decoder entry point and several element types: time and heap
    must grow about linearly (built inside the harness: SC)"""
    cases = []
    for entry, elems in SCALING:
        param = entry in ("up", "bpparam", "bpall")
        n = (64 if param else 256) * 1024 * (4 if g.thorough else 1)
        for elem in elems:
            bo = g.r.choice(["le", "be"])
            for mult in (1, 2, 4, 8):
                c = Case("scaling", "SC %s %s %s %d" % (entry, bo, elem, n * mult), n * mult, expect="ok", note="scaling %s %s x%d" % (entry, elem, mult))
                c.sc = (entry, elem, mult)
                cases.append(c)
    # header field arrays with n, 2n, 4n, 8n FIELDS of 8 bytes each (the arrays above are one field): the same known field again and
    # again (REPLY_SERIAL: the duplicate is refused, but only after all fields were decoded), small unknown fields (skipped one by
    # one: accepted), and both in turn. Behind PATH and MEMBER, which end 6 bytes before a multiple of 8.
    n = 12500 * (2 if g.thorough else 1)
    for kind, want in (("known", "err"), ("unknown", "ok"), ("mixed", "err")):
        bo = g.r.choice(["le", "be"])

        def fld(i):
            if kind == "known" or (kind == "mixed" and i % 2 == 0):
                return bytes([5, 1, ord("u"), 0]) + u32(bo, 9 + i)
            return bytes([60 + i % 190, 1, ord("y"), 0, i % 256, 0, 0, 0])
        for mult in (1, 2, 4, 8):
            fl = b"".join(fld(i) for i in range(n * mult))
            if fl.endswith(b"\x00\x00\x00") and fl[-8] != 5:
                fl = fl[:-3]            # the array ends with its last field: no padding behind the last (unknown, 5 byte) one
            m = header_bytes(bo, "", b"", fields=[(1, "o", b"/p"), (3, "s", b"M")], extra=b"\x00" * 6 + fl)
            c = Case("scaling", "HD %d %s" % (g.phase(), hx(m)), len(m), expect=want, note="scaling: header with %d %s fields of 8 bytes (x%d)" % (n * mult, kind, mult))
            c.sc = ("hdfields", kind, mult)
            cases.append(c)
    return cases


def judge_scaling(ctx, cases, results, exe, build):
    """time(8n)/time(n) and heap(8n)/heap(n) on the CPU time of the decoding call; a suspicious pair is measured again alone"""
    found = []
    groups = {}
    for c, r in zip(cases, results):
        if getattr(c, "sc", None) and r.status == c.expect:
            groups.setdefault(c.sc[:2], {})[c.sc[2]] = (c, r)

    def excess(r1, r8):
        t1, t8 = r1.num("dcpu_us"), r8.num("dcpu_us")
        p1, p8 = r1.num("peak"), r8.num("peak")
        why = []
        if t8 > 20_000 and t8 > 24 * max(t1, 50):
            why.append("CPU time %d us for n, %d us for 8n (x%.0f)" % (t1, t8, t8 / max(t1, 1)))
        if p8 > (1 << 20) and p8 > 24 * max(p1, 4096):
            why.append("peak heap %d bytes for n, %d bytes for 8n (x%.0f)" % (p1, p8, p8 / max(p1, 1)))
        return why
    ratios = {}
    for key, g in sorted(groups.items()):
        if 1 not in g or 8 not in g:
            continue
        (c1, r1), (c8, r8) = g[1], g[8]
        ratios["%s:%s" % key] = [round(r8.num("dcpu_us") / max(r1.num("dcpu_us"), 1), 1), round(r8.num("peak") / max(r1.num("peak"), 1), 1)]
        why = excess(r1, r8)
        if why:
            again = [Res(vlib.run_lines(exe, ["run"], [c.line], timeout=300, env={"VERIF_SCRATCH": SOCKS, "C04_DEADLINE_MS": "60000"})[1][0]) for c in (c1, c8)]
            why = excess(again[0], again[1]) if all(a.status == c1.expect for a in again) else ["re-run: " + " / ".join(a.raw[:80] for a in again)]
            if why:
                found.append((1, "scaling %s %s [%s build]: more than linear in the input length: %s (alone, twice)" % (key[0], key[1], build, "; ".join(why)),
                              violation_data(c8, again[1], build)))
    ctx.extra["scaling_ratios_8n_over_n[time,heap]"] = ratios
    return found


def load_corpus(prop="C04"):
    """corpus/<prop>/*.case: harness lines; the token nv:<n> stands for the hex of n nested variants around a byte"""
    out = []
    for f in sorted(glob.glob(os.path.join(vlib.VERIF, "corpus", prop, "*.case"))):
        for l in open(f):
            l = l.strip()
            if l and not l.startswith("#"):
                toks = [hx(nested_variants(int(t[3:]))) if t.startswith("nv:") else t for t in l.split(" ")]
                l = " ".join(toks)
                inlen = len(toks[-1]) // 2
                out.append(Case("corpus", l, inlen))
    return out


def evaluate(ctx, cases, builds, drv, param_size, prop="C04"):
    """runs the cases on every build and on the model, applies the predicate; returns the per-build results"""
    model_lines = [c.model for c in cases if c.model]
    ok, mout, err = vlib.par_run_lines(drv, [], model_lines) if model_lines else (True, [], "")
    if not ok:
        ctx.tie_broken("extracted decoder model crashed", err)
        mout = [None] * len(model_lines)
    else:
        # the extracted driver against Coq's own evaluation of the same definitions, on a sample of this run's lines
        import wirecross
        wirecross.cross(ctx, list(zip(model_lines, mout)), ctx.sub_rng("coqcross-%d" % len(model_lines)),
                        600 if ctx.tier == "thorough" else 80, name="%s_cross" % prop.lower())
    mres = {}
    it = iter(mout)
    for i, c in enumerate(cases):
        if c.model:
            mres[i] = next(it)
    all_res = {}
    seen_known = False
    found = []
    for build, exe in builds:
        results = run_impl(exe, [c.line for c in cases])
        all_res[build] = results
        for i, (c, res) in enumerate(zip(cases, results)):
            if build == builds[0][0]:
                ctx.case(c.line, nontrivial=c.inlen > 0,
                         sample={"case": c.line[:150], "result": res.raw[:100]} if ctx.evaluations % 997 == 0 else None)
                ctx.count("kind:" + c.kind.split(":")[0])
                ctx.count("op:" + c.op)
                ctx.count("status:" + res.status)
            else:
                ctx.evaluations += 1
            if res.status == "skipped":
                ctx.count("skipped_after_timeouts[%s]" % build)      # the supervisor stops a shard after 4 time-outs (each is a violation)
                continue
            why, known = judge(ctx, c, res, build, param_size)
            if why and known and ctx.known("D21", "typed decoder on a self-referential user type: %s" % why[:150]):
                seen_known = True
                ctx.count("known:D21")
                continue
            if why:
                ctx.disagreements_checked += 1
                found.append((severity(res), why, violation_data(c, res, build)))
                continue
            m = mres.get(i)
            if m is not None:
                ms, mused = model_status(m)
                if c.model_cmp in ("bp_validate", "bp_all") and ms == "ok":
                    ms = "ok" if mused == c.inlen else "err"        # every byte of the body must be used
                if c.model_cmp != "direct":
                    mused = None
                if ms in ("panic", "ub", "fuel"):
                    ctx.disagreements_checked += 1
                    ctx.tie_broken("correspondence: the decoder model reaches %s on an input (the totality theorem excludes this)" % ms, c.model[:300])
                elif ms in ("ok", "err") and (ms != res.status or (ms == "ok" and mused is not None and res.f.get("used") is not None and mused != res.num("used", -1))):
                    # the predicate above passed on the implementation's output: not a C04 violation, but the tie is broken
                    ctx.disagreements_checked += 1
                    ctx.tie_broken("correspondence: decoder model and implementation disagree on acceptance or length",
                                   "%s\nimpl[%s]: %s\nmodel: %s" % (c.line[:400], build, res.raw, m[:100]))
    found += judge_scaling(ctx, cases, all_res[builds[0][0]], builds[0][1], builds[0][0])
    report(ctx, found)
    return all_res


def severity(res):
    """crashes first, then resource excess, then wrong verdicts (only the first few violations are written out)"""
    return 0 if res.status in CRASH else (2 if res.status in ("ok", "err") else 1)


def violation_data(c, res, build):
    return {"line": c.line if len(c.line) < 4000 else c.line[:4000] + "...", "full_line_len": len(c.line),
            "build": build, "result": res.raw, "kind": c.kind, "note": c.note,
            "regen": None if len(c.line) < 4000 else "too long to store: regenerate with the seed and tier of this file"}


def report(ctx, found):
    for _, why, data in sorted(found, key=lambda f: (f[0], len(f[2]["line"]))):
        ctx.violation(why, data)


def build_model():
    """the extracted wire model (shared with C01..C03): build what its extract.v imports, then the driver"""
    import re
    txt = open(os.path.join(vlib.VERIF, "ocaml", "wire", "extract.v")).read()
    mods = sorted(set(m.replace(".", "/") + ".vo" for m in re.findall(r"\b((?:Wire|Sig|Base)\.\w+)", txt)))
    vlib.coq_make(mods or ["Wire/Ops.vo"])
    return vlib.ocaml_build("wire")


def build_all():
    def build(profile):
        try:
            return vlib.harness_build(["c04"], profile=profile)["c04"]
        except vlib.BrokenTie as bt:
            # rustc's incremental cache of the (debug) harness crate sometimes breaks after the sources changed under it
            # ("internal compiler error: encountered incremental compilation error"): that says nothing about /repo
            if "internal compiler error" not in bt.detail and "query stack" not in bt.detail:
                raise
            vlib.sh(["cargo", "clean", "--offline", "-p", "rbverif"] + (["--release"] if profile == "release" else []), cwd=vlib.harness_dir(), timeout=300)
            return vlib.harness_build(["c04"], profile=profile)["c04"]
    rel = build("release")
    dbg = build("debug")
    rc, out = vlib.sh([rel, "info"], timeout=60)
    info = dict(kv.split("=", 1) for kv in out.strip().split(" ") if "=" in kv)
    rc, out = vlib.sh([rel, "types"], timeout=60)
    KNOWN_TYPES.clear()
    KNOWN_TYPES.update(out.strip().split(" "))
    return [("release", rel), ("debug", dbg)], int(info["param_size"]), info


def run(ctx):
    thorough = ctx.tier == "thorough"
    ctx.rule = ("case = one harness line (entry point VR|UP|UT|BP get..get5/param/validate/all|HD, byte order, memory phase 0..7 "
                "cycled over all cases, offset, requested type / body signature, bytes), run on the release and the debug build in "
                "supervised worker processes; generators: specification encodings and single-fault corruptions for all catalogue "
                "types (%d at this run) and %d borrowed/derived/macro types, the slice fast path at every memory phase," % (len(wg.catalogue()), len(EXTRA)) +
                "  valid-signature/requested-type mismatches, nesting bombs (variants 10..20000 "
                "[thorough 100000], variant-array towers, struct/array towers at the 32/32 signature limits, single-child chains whose levels cycle "
                "through 11 patterns of variant / dict / array / struct levels at 9, 62..66, 81, 127, 128, 1000 levels, as values, bodies and "
                "unknown header fields), scaling streams n..8n (arrays per entry point; headers with 12500..100000 known / unknown / mixed "
                "8-byte fields), length bombs (2^26-1..2^32-1 "
                "with 0..32 bytes following), random bytes, corrupted and random headers; non-trivial = non-empty input; distinct = "
                "distinct case lines. Predicate per case: status in {ok, err}, peak heap <= K*len + 64 KiB (K = 32, Param API: "
                "4*size_of::<Param>()), time < 9 s, plus the verdict the case's construction demands (e.g. nesting > 64 => err).")
    ctx.trusted = ["Coq 8.16.1 kernel", "extraction (ExtrOcamlBasic only) + ocaml/wire/driver.ml", "harness c04 binary (supervisor, worker, wrapping allocator), catalogue",
                   "Wire/SpecEnc.v as my reading of the D-Bus wire format", "stack bytes per level and seconds per step are measured, not proved"]
    ctx.assumptions = ["usize 64 bit, native little endian", "body signatures passed validate_signature (from_parts with an unvalidated signature is programmer input)",
                       "typed decoders: nesting is bounded by the program text only for types that do not contain themselves (known finding D21 otherwise)",
                       "wire::unmarshal::iter (experimental MessageIter, a pub mod that no property anchors) is out of scope: it panics on trivial input in "
                       "debug builds (iter.rs:353 debug_assert_eq!(bytes, 4))"]
    if not os.environ.get("VERIF_SKIP_PROOF"):
        ctx.try_proof()
    builds, param_size, info = build_all()
    drv = build_model()
    clean_socks()
    cases = load_corpus() + gen_cases(ctx, drv, thorough)
    all_res = evaluate(ctx, cases, builds, drv, param_size)
    # observed nesting accepted per entry point (evidence only)
    acc = {}
    for c, res in zip(cases, all_res["release"]):
        if c.kind == "bomb:variants" and res.status == "ok" and c.note:
            n = int(c.note.split(" ")[0])
            acc[c.op] = max(acc.get(c.op, 0), n)
    ctx.extra["max_nested_variants_accepted"] = acc
    ctx.extra["builds"] = [b for b, _ in builds]
    ctx.extra["harness_info"] = info
    ctx.extra["stack_probe"] = stack_probe(builds[0][1])
    clean_socks()
    ctx.extra["phases"] = "every case line carries a memory phase; the counter cycles 0..7 over all lines"


def stack_probe(exe):
    """smallest decoding-thread stack on which 64 resp. 8 nested variants are still decoded by the Param decoder: bytes of stack per
    level (measured). validate_raw needs less than the smallest stack a thread can have for 64 levels, so it can not be measured
    this way and is not reported."""
    need = {}
    for n in (7, 63):
        lo, hi = 4096, 256 * 1024
        while hi - lo > 1024:
            mid = (lo + hi) // 2
            rc, o, _ = vlib.run_lines(exe, ["run"], ["UP le 0 0 0 v %s" % hx(nested_variants(n))], env={"C04_STACK": str(mid), "VERIF_SCRATCH": SOCKS}, timeout=120)
            if o and o[0].startswith("ok"):
                hi = mid
            else:
                lo = mid
        need[n] = hi
    return {"UP": {"stack_needed_8_levels": need[7], "stack_needed_64_levels": need[63], "bytes_per_level": (need[63] - need[7]) // 56}}


def replay(ctx, body):
    d = body["data"]
    builds, param_size, _ = build_all()
    exe = dict(builds)[d.get("build", "release")]
    if d.get("full_line_len", 0) > len(d["line"]):
        print("the case line was too long to store; regenerate with VERIF_SEED=%s ./check %s %s" % (body.get("seed"), body["property"], body.get("tier")))
        return 2
    res = run_impl(exe, [d["line"]])[0]
    then = Res(d["result"])
    print("what  :", body.get("what", "")[:300])
    print("case  :", d["line"][:300])
    print("build :", d.get("build"))
    print("now   :", res.raw[:300])
    print("then  :", then.raw[:300])
    same = res.status == then.status
    print("REPRODUCED (same outcome as recorded)" if same else "outcome differs from the recorded failing run")
    return 1 if same else 0
